"""translator items for C16 (sensor model): prysm/detector.py (Detector.expose, bindown, tile) and
prysm/bayer.py (colour-site slices, decomposition / recomposition / compositing / white-balance tables,
Malvar kernels and assignment table).

`Detector.expose` is read statement by statement into a per-pixel scalar function with the two random
draws replaced by their means (poisson(lam) -> lam, normal(mu, sigma) -> mu): the ADC ceiling, the
order of full-well clip / gain / ADC clip and the container width come from the current source.
"""
import ast
import os
from fractions import Fraction
from pyexpr2lean import (Gen, Tr, Untranslatable, load, get_def, get_const, find_assign, find_assigns, find_returns,
                         lean_rat)

M = 'Model.C16'
SITE = {'top_left': 'tl', 'top_right': 'tr', 'bottom_left': 'bl', 'bottom_right': 'br'}
SITES = ['tl', 'tr', 'bl', 'br']
PLANES = ['r', 'g1', 'g2', 'b']
CFAS = ['rggb', 'bggr']
SELF = {'self.exposure_time': 't', 'self.dark_current': 'dc', 'self.dcnu': 'dcnu', 'self.prnu': 'prnu',
        'self.bias': 'bias', 'self.fwc': 'fwc', 'self.conversion_gain': 'gain', 'aerial_img': 'img'}


def _strip(e):
    """drop shape-only wrappers: x.ravel(), np.ravel(x)"""
    while True:
        if isinstance(e, ast.Call) and isinstance(e.func, ast.Attribute) and e.func.attr in ('ravel',) and not e.args and not e.keywords:
            e = e.func.value
        elif isinstance(e, ast.Call) and ast.unparse(e.func) in ('np.ravel',) and len(e.args) == 1 and not e.keywords:
            e = e.args[0]
        else:
            return e


class _Scalar(Tr):
    """num-mode translator that looks through .ravel() and replaces the random draws by their means"""

    def expr(self, e):
        e = _strip(e)
        if isinstance(e, ast.Call):
            f = ast.unparse(e.func)
            if f == 'np.random.poisson':
                return self.expr(e.args[0])
            if f == 'np.random.normal':
                return self.expr(e.args[0])
        return super().expr(e)


_MODULE = {}


def _module_def(fn, name):
    mod = _MODULE.get('detector')
    for n in (mod.body if mod is not None else []):
        if isinstance(n, ast.FunctionDef) and n.name == name:
            return n
    raise Untranslatable(f'helper {name} not found in the module')


def _width_chain(stmts, var, how):
    """`if var <= 8: <uint8> elif/if var <= 16: <uint16> ... else/then raise` -> Lean if-chain on `bits`.
    how='assign': arms are `output = output.astype(np.uintN)`; how='return': arms are `return np.uintN`."""
    arms = []
    todo = list(stmts)
    while todo:
        node = todo.pop(0)
        if isinstance(node, ast.Raise):
            if todo:
                raise Untranslatable('statements after the raise of the container-width chain')
            break
        if not (isinstance(node, ast.If) and isinstance(node.test, ast.Compare) and ast.unparse(node.test.left) == var
                and len(node.test.ops) == 1 and isinstance(node.test.ops[0], ast.LtE) and isinstance(node.test.comparators[0], ast.Constant)
                and len(node.body) == 1):
            raise Untranslatable('container-width chain')
        b = node.body[0]
        if how == 'assign':
            v = b.value if isinstance(b, ast.Assign) and ast.unparse(b.targets[0]) == 'output' else None
            if not (isinstance(v, ast.Call) and ast.unparse(v.func) == 'output.astype' and len(v.args) == 1):
                raise Untranslatable('container-width branch')
            dtn = ast.unparse(v.args[0])
        else:
            if not isinstance(b, ast.Return):
                raise Untranslatable('container-width branch')
            dtn = ast.unparse(b.value)
        if not dtn.startswith('np.uint') or not dtn[7:].isdigit():
            raise Untranslatable(f'cast to {dtn}')
        arms.append((node.test.comparators[0].value, int(dtn[7:])))
        todo = list(node.orelse) + todo
    else:
        raise Untranslatable('container-width chain does not end in raise')
    if not arms:
        raise Untranslatable('empty container-width chain')
    return ''.join(f'if bits ≤ {lim} then {w} else ' for lim, w in arms) + '0'


def expose_items(fn):
    """-> (adcCap term, castBits term, lets, result name)"""
    env = dict(SELF)
    lets = []
    k = [0]
    adc = None
    cast = None

    def bind(name, term):
        k[0] += 1
        ln = f'{name}_{k[0]}'
        lets.append(f'let {ln} := {term}')
        env[name] = ln

    stmts = [s for s in fn.body if not (isinstance(s, ast.Expr) and isinstance(s.value, ast.Constant))]
    for idx, s in enumerate(stmts):
        if isinstance(s, ast.Assign) and ast.unparse(s.targets[0]) == 'output' and isinstance(s.value, ast.Call) \
                and ast.unparse(s.value.func) == 'output.astype' and len(s.value.args) == 1 and isinstance(s.value.args[0], ast.Call) \
                and isinstance(s.value.args[0].func, ast.Name) and [ast.unparse(a) for a in s.value.args[0].args] == ['self.bits']:
            # output = output.astype(helper(self.bits)) with a same-module helper
            helper = _module_def(fn, s.value.args[0].func.id)
            (param,) = [a.arg for a in helper.args.args]
            body = [b for b in helper.body if not (isinstance(b, ast.Expr) and isinstance(b.value, ast.Constant))]
            cast = _width_chain(body, param, 'return')
            return adc, cast, lets, env['output'], stmts[idx + 1:]
        if isinstance(s, ast.Assign) and len(s.targets) == 1 and isinstance(s.targets[0], ast.Name):
            name = s.targets[0].id
            if name == 'adc_cap':
                adc = Tr({'self.bits': 'bits'}, mode='int').expr(s.value)
                env['adc_cap'] = '(Num.ofInt (adcCap bits))'
                continue
            bind(name, _Scalar(env, mode='num').expr(s.value))
            continue
        if isinstance(s, ast.Assign) and len(s.targets) == 1 and isinstance(s.targets[0], ast.Subscript):
            # masked assignment  x[x OP a] = b
            t = s.targets[0]
            if not (isinstance(t.value, ast.Name) and isinstance(t.slice, ast.Compare) and len(t.slice.ops) == 1
                    and ast.unparse(t.slice.left) == t.value.id):
                raise Untranslatable(f'assignment {ast.unparse(s)[:60]}')
            tr = _Scalar(env, mode='num')
            x = env[t.value.id]
            bind(t.value.id, f'(if {tr.cond(t.slice)} then {tr.expr(s.value)} else {x})')
            continue
        if isinstance(s, ast.If):
            test = ast.unparse(s.test)
            if test.endswith(' is not None') and test[:-12] in env and len(s.body) == 1 and not s.orelse:
                # optional non-uniformity map: absent = all ones
                b = s.body[0]
                if not (isinstance(b, ast.Assign) and isinstance(b.targets[0], ast.Name)):
                    raise Untranslatable(f'optional map branch {ast.unparse(b)[:50]}')
                bind(b.targets[0].id, _Scalar(env, mode='num').expr(b.value))
                continue
            if test.startswith('self.bits <='):
                cast = _width_chain([s], 'self.bits', 'assign')
                return adc, cast, lets, env['output'], stmts[idx + 1:]
        raise Untranslatable(f'statement {ast.unparse(s)[:60]}')
    raise Untranslatable('no integer cast found')


def _slice_pair(node):
    """(slice(a, None, s), slice(b, None, t)) -> ((a,s),(b,t))"""
    assert isinstance(node, ast.Tuple) and len(node.elts) == 2
    out = []
    for e in node.elts:
        assert isinstance(e, ast.Call) and ast.unparse(e.func) == 'slice' and len(e.args) == 3
        a, stop, st = e.args
        assert isinstance(stop, ast.Constant) and stop.value is None
        out.append((int(a.value), int(st.value)))
    return out


class _Rename(ast.NodeTransformer):
    def __init__(self, mapping):
        self.mapping = mapping

    def visit_Name(self, node):
        return ast.copy_location(ast.Name(id=self.mapping.get(node.id, node.id), ctx=node.ctx), node)


def _cfa_branches(fn):
    """{cfa: [statements]} from `if cfa == 'rggb': ... elif cfa == 'bggr': ...`.  A branch may only choose names
    (`first, last = r, b`) and leave the work to statements that follow the chain: the aliases are substituted into the rest
    of the branch and into that common tail, which is appended to every branch (returns excluded)."""
    out = {}
    top = None
    for n in ast.walk(fn):
        if isinstance(n, ast.If) and isinstance(n.test, ast.Compare) and ast.unparse(n.test.left) == 'cfa' \
                and isinstance(n.test.ops[0], ast.Eq) and isinstance(n.test.comparators[0], ast.Constant):
            out.setdefault(n.test.comparators[0].value, n.body)
            if top is None and n in fn.body:
                top = n
    if sorted(out) != sorted(CFAS):
        raise Untranslatable(f'cfa branches {sorted(out)}')
    tail = []
    if top is not None:
        tail = [t for t in fn.body[fn.body.index(top) + 1:] if not isinstance(t, ast.Return)]
    res = {}
    for cfa, body in out.items():
        mapping, rest = {}, []
        for st in body:
            t, v = (st.targets[0], st.value) if isinstance(st, ast.Assign) and len(st.targets) == 1 else (None, None)
            if isinstance(t, ast.Name) and isinstance(v, ast.Name) and not rest:
                mapping[t.id] = mapping.get(v.id, v.id)
            elif isinstance(t, ast.Tuple) and isinstance(v, ast.Tuple) and len(t.elts) == len(v.elts) and not rest \
                    and all(isinstance(x, ast.Name) for x in t.elts + v.elts):
                old = dict(mapping)
                for a, b in zip(t.elts, v.elts):
                    mapping[a.id] = old.get(b.id, b.id)
            else:
                rest.append(st)
        if mapping:
            stmts = [ast.fix_missing_locations(_Rename(mapping).visit(ast.parse(ast.unparse(x)).body[0])) for x in rest + tail]
        else:
            stmts = rest + tail
        res[cfa] = stmts
    return res


def _match(name, sig, arms):
    return f'def {name} : {sig}\n' + '\n'.join(f'  | {lhs} => {rhs}' for lhs, rhs in arms)


def generate(repo):
    g = Gen('C16', imports=['PrysmVerif.PyPrelude', 'PrysmVerif.Model.C16'], opens=['Model.C16'])
    if os.environ.get('VERIF_FORCE_FALLBACK'):      # self-test: every item degrades to its hand-model fallback
        _item = g.item

        def _forced():
            raise Untranslatable('forced by VERIF_FORCE_FALLBACK')
        g.item = lambda name, source, node_fn, build, fallback: _item(name, source, node_fn, _forced, fallback)
    dt, _ = load(repo, 'prysm/detector.py')
    _MODULE['detector'] = dt
    by, _ = load(repo, 'prysm/bayer.py')

    # ------------------------------------------------------------------ Detector.expose
    KH = '{K : Type} [Num K] [LT K] [DecidableLT K]'

    def expose():
        fn = get_def(dt, 'Detector.expose')
        adc, cast, lets, res, rest = expose_items(fn)
        if adc is None:
            raise Untranslatable('adc_cap not found')
        # everything after the cast must be shape handling, the optional look-up table and the return: no further arithmetic
        for st in rest:
            src = ast.unparse(st)
            if src.startswith('output = output.reshape(') or src == 'return output' \
                    or src == 'if self.lut is not None:\n    output = apply_lut(output, self.lut)' \
                    or (src.startswith('if frames == 1:\n    output = output[0') and len(st.body) == 1 and not st.orelse):
                continue
            raise Untranslatable(f'statement after the integer cast: {src[:60]}')
        body = '\n  '.join(lets + [res])
        return (f'def adcCap (bits : Int) : Int := {adc}\n\n'
                f'def castBits (bits : Int) : Int := {cast}\n\n'
                f'def exposePre {KH} (img t dc dcnu prnu bias fwc gain : K) (bits : Int) : K :=\n  {body}')
    g.item('Detector.expose', 'prysm/detector.py:Detector.expose', lambda: get_def(dt, 'Detector.expose'), expose,
           f'def adcCap (bits : Int) : Int := {M}.adcCap bits\n'
           f'def castBits (bits : Int) : Int := {M}.castBits bits\n'
           f'def exposePre {KH} (img t dc dcnu prnu bias fwc gain : K) (bits : Int) : K := '
           f'{M}.exposePre img t dc dcnu prnu bias fwc gain bits')

    # A structural fact is `true` for the known-good shape, `false` only for a recognised wrong variant, and
    # *untranslatable* (deferred to the widened correspondence) for anything else.
    def fact_item(name, source, node_fn, check):
        def build():
            return f'def {name} : Bool := {"true" if check() else "false"}'
        g.item(name, source, node_fn, build, f'def {name} : Bool := true')

    def expose_shape():
        fn = get_def(dt, 'Detector.expose')
        src = [ast.unparse(s) for s in fn.body]
        resh = [k for k, t in enumerate(src) if t.startswith('output = output.reshape(')]
        if len(resh) != 1 or src[-1] != 'return output':
            raise Untranslatable('reshape / return structure of expose')
        k = resh[0]
        if src[k] not in ('output = output.reshape((frames, *aerial_img.shape))', 'output = output.reshape((frames,) + aerial_img.shape)',
                          'output = output.reshape(frames, *aerial_img.shape)'):
            if src[k] in ('output = output.reshape((*aerial_img.shape, frames))', 'output = output.reshape(aerial_img.shape)'):
                return False                   # recognised wrong: frames last / frames dropped
            return None
        nxt = src[k + 1] if k + 1 < len(src) else ''
        if not nxt.startswith('if frames'):
            return False                       # single frame no longer squeezed
        if nxt in ('if frames == 1:\n    output = output[0, :, :]', 'if frames == 1:\n    output = output[0]',
                   'if frames == 1:\n    output = output[0, ...]'):
            return True
        if nxt.startswith('if frames == 1:'):
            return None
        return False
    g.fact('exposeShapeIsFramesByImage', 'prysm/detector.py:Detector.expose', expose_shape)

    def expose_out_shape():
        fn = get_def(dt, 'Detector.expose')
        src = [ast.unparse(s_) for s_ in fn.body]
        resh = [k for k, t in enumerate(src) if t.startswith('output = output.reshape(')]
        if len(resh) != 1:
            raise Untranslatable('reshape of expose')
        k = resh[0]
        full = {'output = output.reshape((frames, *aerial_img.shape))': 'frames :: shape',
                'output = output.reshape((frames,) + aerial_img.shape)': 'frames :: shape',
                'output = output.reshape(frames, *aerial_img.shape)': 'frames :: shape',
                'output = output.reshape((*aerial_img.shape, frames))': 'shape ++ [frames]',
                'output = output.reshape(aerial_img.shape + (frames,))': 'shape ++ [frames]',
                'output = output.reshape(aerial_img.shape)': 'shape'}.get(src[k])
        if full is None:
            raise Untranslatable(f'reshape written as {src[k][:60]}')
        nxt = src[k + 1] if k + 1 < len(src) else ''
        sq = {'if frames == 1:\n    output = output[0, :, :]': 'List.tail', 'if frames == 1:\n    output = output[0]': 'List.tail',
              'if frames == 1:\n    output = output[0, ...]': 'List.tail', 'if frames == 1:\n    output = output[..., 0]': 'List.dropLast'}.get(nxt)
        if nxt.startswith('if frames') and sq is None:
            raise Untranslatable(f'squeeze written as {nxt[:60]}')
        body = f'if frames = 1 then {sq} ({full}) else {full}' if sq else full
        return f'def exposeOutShape (frames : Nat) (shape : List Nat) : List Nat := {body}'
    g.item('Detector.expose.outshape', 'prysm/detector.py:Detector.expose', lambda: get_def(dt, 'Detector.expose'), expose_out_shape,
           f'def exposeOutShape (frames : Nat) (shape : List Nat) : List Nat := {M}.exposeOutShape frames shape')

    def flatten_order():
        """every flatten / reshape of expose works in C (row-major) order, so that pixel k of the flat vector is pixel k of
        the reshaped result whatever the memory layout of the input"""
        fn = get_def(dt, 'Detector.expose')
        ok = True
        for c in ast.walk(fn):
            if isinstance(c, ast.Call):
                name = c.func.attr if isinstance(c.func, ast.Attribute) else ast.unparse(c.func)
                if name in ('ravel', 'flatten', 'reshape'):
                    orders = [kw.value for kw in c.keywords if kw.arg == 'order']
                    if name in ('ravel', 'flatten') and len(c.args) >= (2 if ast.unparse(c.func) == 'np.ravel' else 1):
                        orders.append(c.args[-1])
                    for o in orders:
                        if not (isinstance(o, ast.Constant) and isinstance(o.value, str)):
                            return None
                        if o.value.upper() != 'C':
                            ok = False
        return ok
    g.fact('exposeFlattensInCOrder', 'prysm/detector.py:Detector.expose', flatten_order)

    # ------------------------------------------------------------------ bindown / tile
    def interleave(e):
        """`tuple(chain(*zip(A, B)))` / `tuple(chain.from_iterable(zip(A, B)))` / `tuple(x for p in zip(A, B) for x in p)` -> (A, B)"""
        if not (isinstance(e, ast.Call) and ast.unparse(e.func) == 'tuple' and len(e.args) == 1):
            return None
        a = e.args[0]
        z = None
        if isinstance(a, ast.Call) and ast.unparse(a.func) in ('itertools.chain', 'chain') and len(a.args) == 1 \
                and isinstance(a.args[0], ast.Starred):
            z = a.args[0].value
        elif isinstance(a, ast.Call) and ast.unparse(a.func) in ('itertools.chain.from_iterable', 'chain.from_iterable') and len(a.args) == 1:
            z = a.args[0]
        elif isinstance(a, ast.GeneratorExp) and len(a.generators) == 2 and isinstance(a.elt, ast.Name) \
                and ast.unparse(a.generators[1].iter) == ast.unparse(a.generators[0].target) \
                and ast.unparse(a.generators[1].target) == a.elt.id and not a.generators[0].ifs and not a.generators[1].ifs:
            z = a.generators[0].iter
        if isinstance(z, ast.Call) and ast.unparse(z.func) == 'zip' and len(z.args) == 2 and not z.keywords:
            return ast.unparse(z.args[0]), ast.unparse(z.args[1])
        return None

    def branch_table(fn, var):
        """{string constant: [statements of its branch]} of the if / elif chain that dispatches on `var` (compared directly or
        after `.lower()`, which may have been hoisted into `var = var.lower()`)"""
        table = {}
        for n in ast.walk(fn):
            if isinstance(n, ast.If):
                t = ast.unparse(n.test).replace(f'{var}.lower()', var)
                if t.startswith(f'{var} in ') or t.startswith(f'{var} == '):
                    for c in ast.walk(n.test):
                        if isinstance(c, ast.Constant) and isinstance(c.value, str):
                            table.setdefault(c.value, n.body)
        return table

    PRODS = ('functools.reduce(lambda x, y: x * y, factor)', 'functools.reduce(lambda a, b: a * b, factor)',
             'functools.reduce(operator.mul, factor)', 'functools.reduce(operator.mul, factor, 1)', 'np.prod(factor)', 'math.prod(factor)',
             'int(np.prod(factor))')

    def bindown():
        fn = get_def(dt, 'bindown')
        from pyexpr2lean import elementwise
        # data flow, not names: intermediate_view = array.reshape(X); X = interleave(A, B); the non-factor one of A, B is the
        # per-axis output length, assigned (last, before X's interleaving) from a comprehension over zip(array.shape, factor)
        iv = find_assign(fn, 'intermediate_view')
        if not (isinstance(iv, ast.Call) and ast.unparse(iv.func) == 'array.reshape' and len(iv.args) == 1 and isinstance(iv.args[0], ast.Name)
                and not iv.keywords):
            raise Untranslatable('intermediate view')
        xname = iv.args[0].id
        top = [s_ for s_ in fn.body if isinstance(s_, ast.Assign) and len(s_.targets) == 1 and isinstance(s_.targets[0], ast.Name)]
        xs = [s_ for s_ in top if s_.targets[0].id == xname]
        il = interleave(xs[-1].value) if xs else None
        if il is None or 'factor' not in il or il[0] == il[1]:
            raise Untranslatable(f'interleaved shape written as {ast.unparse(xs[-1].value) if xs else None}')
        inter = il[1] == 'factor'
        oname = il[0] if inter else il[1]
        os_ = [s_ for s_ in top if s_.targets[0].id == oname and s_.lineno < xs[-1].lineno]
        if len(os_) != 1:
            raise Untranslatable(f'{len(os_)} assignments to the output lengths {oname}')
        term = elementwise(os_[0].value, {'array.shape': 's', 'factor': 'f'})
        red = find_assign(fn, 'reduction_axes')
        assert ast.unparse(red.func) == 'tuple' and ast.unparse(red.args[0].func) == 'range'
        tr = Tr({'array.ndim': 'ndim'})
        lo, hi, st = (tr.expr(a) for a in red.args[0].args)
        view = True
        modes = {}
        for key, body in branch_table(fn, 'mode').items():
            if len(body) == 1 and isinstance(body[0], (ast.Assign, ast.Return)) and body[0].value is not None:
                modes[key] = ast.unparse(body[0].value)
        known = {'intermediate_view.mean(axis=reduction_axes)', 'intermediate_view.sum(axis=reduction_axes)'}
        if not set(modes.values()) <= known or not all(k in modes for k in ('avg', 'average', 'mean', 'sum')):
            raise Untranslatable(f'mode table {modes}')
        # what the function hands back is what a branch computed, untouched: every return is a known reduction or the variable the
        # branches assign, and that variable is assigned nowhere else
        from pyexpr2lean import find_returns
        rets = [ast.unparse(r) for r in find_returns(fn)]
        res_names = {r for r in rets if r not in known}
        n_assign = {nm: sum(1 for n_ in ast.walk(fn) if isinstance(n_, (ast.Assign, ast.AugAssign)) and nm in
                            [ast.unparse(t) for t in (n_.targets if isinstance(n_, ast.Assign) else [n_.target])]) for nm in res_names}
        n_branch = {nm: sum(1 for b_ in branch_table(fn, 'mode').values() if len(b_) == 1 and isinstance(b_[0], ast.Assign)
                            and ast.unparse(b_[0].targets[0]) == nm) for nm in res_names}
        distinct_branches = {nm: len({id(b_) for b_ in branch_table(fn, 'mode').values() if len(b_) == 1 and isinstance(b_[0], ast.Assign)
                                      and ast.unparse(b_[0].targets[0]) == nm}) for nm in res_names}
        if len(res_names) > 1 or any(not nm.isidentifier() or n_assign[nm] != distinct_branches[nm] for nm in res_names):
            raise Untranslatable(f'bindown returns {rets}')
        ok_modes = all(modes.get(k) == 'intermediate_view.mean(axis=reduction_axes)' for k in ('avg', 'average', 'mean')) \
            and modes.get('sum') == 'intermediate_view.sum(axis=reduction_axes)'
        outl = '(List.zipWith (fun s f => binOutLen s f) shape f)'
        vs = f'{M}.interleave {outl} f' if inter else f'{M}.interleave f {outl}'
        mt = ', '.join(f'("{k}", {"true" if v.startswith("intermediate_view.mean") else "false"})' for k, v in sorted(modes.items()))
        return (f'def binOutLen (s f : Int) : Int := {term}\n\n'
                f'def binReduceAxes (ndim : Int) : Int × Int × Int := ({lo}, {hi}, {st})\n\n'
                f'def binViewInterleavesOutAndFactor : Bool := {"true" if inter and view else "false"}\n\n'
                f'def binModesAreMeanAndSum : Bool := {"true" if ok_modes else "false"}\n\n'
                f'def binViewShape (shape f : List Int) : List Int := {vs}\n\n'
                f'def binModes : List (String × Bool) := [{mt}]')
    g.item('bindown', 'prysm/detector.py:bindown', lambda: get_def(dt, 'bindown'), bindown,
           f'def binOutLen (s f : Int) : Int := {M}.binOutLen s f\n'
           'def binReduceAxes (ndim : Int) : Int × Int × Int := (1, 2 * ndim, 2)\n'
           'def binViewInterleavesOutAndFactor : Bool := true\n'
           'def binModesAreMeanAndSum : Bool := true\n'
           f'def binViewShape (shape f : List Int) : List Int := {M}.binViewShape shape f\n'
           f'def binModes : List (String × Bool) := {M}.binModes')

    def tile():
        fn = get_def(dt, 'tile')
        from pyexpr2lean import elementwise
        term = elementwise(find_assign(fn, 'output_shape'), {'array.shape': 's', 'factor': 'f'})
        il2 = interleave(find_assign(fn, 'shape2'))
        if il2 not in (('array.shape', 'factor'), ('factor', 'array.shape')):
            raise Untranslatable('shape2 of tile')
        ok = il2 == ('array.shape', 'factor') \
            and interleave(find_assign(fn, 'shape1')) == ('slc', 'intermediate') \
            and ast.unparse(find_assign(fn, 'slc')) in ('(slice(s) for s in array.shape)', '[slice(s) for s in array.shape]') \
            and ast.unparse(find_assign(fn, 'intermediate')) in ('[None] * len(factor)', '(None,) * len(factor)') \
            and [ast.unparse(v) for v in find_assigns(fn, 'view')][:2] == ['np.broadcast_to(array[shape1], shape2)',
                                                                         'view.reshape(output_shape)']
        if not ok:
            raise Untranslatable('broadcast view of tile not in the known shape')
        # scale factor of each scaling mode, evaluated symbolically (Πfactor ↦ prodf)
        table = branch_table(fn, 'scaling')
        if not all(k in table for k in ('sum', 'avg', 'average', 'mean')):
            raise Untranslatable(f'tile scaling table {sorted(table)}')

        def sf_term(body):
            env = {p_: 'prodf' for p_ in PRODS}
            cur = None
            for st in body:
                if isinstance(st, ast.Assign) and ast.unparse(st.targets[0]) == 'sf':
                    cur = Tr(dict(env, **({'sf': cur} if cur else {})), mode='num').expr(st.value)
                else:
                    raise Untranslatable(f'statement in a scaling branch: {ast.unparse(st)[:50]}')
            if cur is None:
                raise Untranslatable('scaling branch does not set sf')
            return cur
        t_sum = sf_term(table['sum'])
        t_avg = {sf_term(table[k]) for k in ('avg', 'average', 'mean')}
        if len(t_avg) != 1:
            raise Untranslatable('avg / average / mean scale differently')
        applied = any(ast.unparse(n) in ('view = view * sf', 'view = sf * view') for n in ast.walk(fn) if isinstance(n, ast.Assign)) \
            or any(ast.unparse(n) in ('view *= sf',) for n in ast.walk(fn) if isinstance(n, ast.AugAssign))
        tvs = f'{M}.interleave shape f' if il2 == ('array.shape', 'factor') else f'{M}.interleave f shape'
        tmt = ', '.join(f'("{k}", {"true" if sf_term(table[k]) == t_sum and sf_term(table[k]) not in t_avg else "false"})' for k in sorted(table))
        return (f'def tileOutLen (s f : Int) : Int := {term}\n\n'
                'def tileScaleSum {K : Type} [Num K] (prodf : K) : K := ' + t_sum + '\n\n'
                'def tileScaleAvg {K : Type} [Num K] : K := ' + sorted(t_avg)[0] + '\n\n'
                f'def tileViewBroadcastsOverFactor : Bool := {"true" if ok and applied else "false"}\n\n'
                f'def tileViewShape (shape f : List Int) : List Int := {tvs}\n\n'
                f'def tileModes : List (String × Bool) := [{tmt}]')
    g.item('tile', 'prysm/detector.py:tile', lambda: get_def(dt, 'tile'), tile,
           f'def tileOutLen (s f : Int) : Int := {M}.tileOutLen s f\n'
           'def tileScaleSum {K : Type} [Num K] (prodf : K) : K := Num.ofInt 1 / prodf\n'
           'def tileScaleAvg {K : Type} [Num K] : K := Num.ofInt 1\n'
           'def tileViewBroadcastsOverFactor : Bool := true\n'
           f'def tileViewShape (shape f : List Int) : List Int := {M}.tileViewShape shape f\n'
           f'def tileModes : List (String × Bool) := {M}.tileModes')

    # ------------------------------------------------------------------ bayer: slices and tables
    def slices():
        arms = []
        for py, ln in SITE.items():
            (r0, rs), (c0, cs) = _slice_pair(get_const(by, py))
            arms.append((f'.{ln}', f'(⟨{r0}, {rs}⟩, ⟨{c0}, {cs}⟩)'))
        return _match('siteSlices', 'Site → Slc × Slc', arms)
    g.item('bayer.slices', 'prysm/bayer.py:top_left..bottom_right', lambda: get_const(by, 'top_left'), slices,
           f'def siteSlices : Site → Slc × Slc := {M}.siteSlices')

    def decomp():
        fn = get_def(by, 'decomposite_bayer')
        arms = []
        for cfa, body in _cfa_branches(fn).items():
            seen = {}
            for s in body:
                assert isinstance(s, ast.Assign) and isinstance(s.value, ast.Subscript) and ast.unparse(s.value.value) == 'img'
                seen[s.targets[0].id] = SITE[ast.unparse(s.value.slice)]
            if sorted(seen) != sorted(PLANES):
                raise Untranslatable(f'decomposite_bayer[{cfa}] assigns {sorted(seen)}')
            arms += [(f'.{cfa}, .{p}', f'.{seen[p]}') for p in PLANES]
        (ret,) = find_returns(fn)
        assert ast.unparse(ret) == '(r, g1, g2, b)'
        return _match('decompSite', 'Cfa → Plane → Site', arms)
    g.item('decomposite_bayer', 'prysm/bayer.py:decomposite_bayer', lambda: get_def(by, 'decomposite_bayer'), decomp,
           f'def decompSite : Cfa → Plane → Site := {M}.decompSite')

    def site_table(pyfn, lname, rhs_kind):
        def build():
            fn = get_def(by, pyfn)
            arms = []
            for cfa, body in _cfa_branches(fn).items():
                seen = {}
                for s in body:
                    if rhs_kind == 'gain':
                        assert isinstance(s, ast.AugAssign) and isinstance(s.op, ast.Mult) and ast.unparse(s.target.value) == 'mosaic'
                        seen[SITE[ast.unparse(s.target.slice)]] = ast.unparse(s.value)
                        continue
                    assert isinstance(s, ast.Assign) and ast.unparse(s.targets[0].value) == 'output'
                    site = SITE[ast.unparse(s.targets[0].slice)]
                    v = s.value
                    if rhs_kind == 'dense':
                        assert isinstance(v, ast.Name)
                        seen[site] = v.id
                    else:   # full-resolution plane read at the same site
                        if not (isinstance(v, ast.Subscript) and SITE.get(ast.unparse(v.slice)) == site):
                            raise Untranslatable(f'{pyfn}[{cfa}]: {ast.unparse(s)} reads a different site than it writes')
                        seen[site] = ast.unparse(v.value)
                if sorted(seen) != sorted(SITES):
                    raise Untranslatable(f'{pyfn}[{cfa}] writes sites {sorted(seen)}')
                arms += [(f'.{cfa}, .{st}', f'.{seen[st]}') for st in SITES]
            return _match(lname, 'Cfa → Site → ' + ('Gain' if rhs_kind == 'gain' else 'Plane'), arms)
        return build
    g.item('recomposite_bayer', 'prysm/bayer.py:recomposite_bayer', lambda: get_def(by, 'recomposite_bayer'),
           site_table('recomposite_bayer', 'recompPlane', 'dense'), f'def recompPlane : Cfa → Site → Plane := {M}.recompPlane')
    g.item('composite_bayer', 'prysm/bayer.py:composite_bayer', lambda: get_def(by, 'composite_bayer'),
           site_table('composite_bayer', 'compositePlane', 'full'), f'def compositePlane : Cfa → Site → Plane := {M}.recompPlane')
    g.item('wb_prescale', 'prysm/bayer.py:wb_prescale', lambda: get_def(by, 'wb_prescale'),
           site_table('wb_prescale', 'prescaleGain', 'gain'), f'def prescaleGain : Cfa → Site → Gain := {M}.prescaleGain')

    def postscale_gains():
        fn = get_def(by, 'wb_postscale')
        seen = {}
        for st in fn.body:
            if isinstance(st, ast.AugAssign) and isinstance(st.op, ast.Mult) and isinstance(st.target, ast.Subscript) \
                    and ast.unparse(st.target.value) == 'rgb':
                idx = ast.unparse(st.target.slice)
                if not idx.startswith('(..., ') or not isinstance(st.value, ast.Name):
                    raise Untranslatable(f'wb_postscale: {ast.unparse(st)}')
                seen[int(idx[6:-1])] = st.value.id
        if sorted(seen) != [0, 1, 2] or not set(seen.values()) <= {'wr', 'wg', 'wb'}:
            raise Untranslatable(f'wb_postscale scales channels {seen}')
        ch = ['red', 'green', 'blue']
        return _match('postscaleGain', 'Chan → Gain3', [(f'.{ch[k]}', f'.{seen[k]}') for k in range(3)])
    g.item('wb_postscale', 'prysm/bayer.py:wb_postscale', lambda: get_def(by, 'wb_postscale'), postscale_gains,
           f'def postscaleGain : Chan → Gain3 := {M}.postscaleGain')

    def deinterlace():
        fn = get_def(by, 'demosaic_deinterlace')
        src = [ast.unparse(s) for s in fn.body if not isinstance(s, ast.Expr)]
        if len(src) != 3 or src[0] != 'r, g1, g2, b = decomposite_bayer(img, cfa)' or not src[1].startswith('g = '):
            raise Untranslatable('demosaic_deinterlace structure')
        if src[2] not in ('return np.stack([r, g, b], axis=2)', 'return np.stack([r, g, b], axis=-1)', 'return np.stack((r, g, b), axis=2)',
                          'return np.dstack([r, g, b])', 'return np.dstack((r, g, b))'):
            if src[2].startswith('return np.stack(['):
                return False                   # channel order / axis changed
            raise Untranslatable('demosaic_deinterlace return')
        if src[1] in ('g = (g1 + g2) / 2', 'g = (g2 + g1) / 2', 'g = 0.5 * (g1 + g2)', 'g = (g1 + g2) * 0.5'):
            return True
        raise Untranslatable(f'green average written as {src[1]}')
    fact_item('deinterlaceAveragesGreens', 'prysm/bayer.py:demosaic_deinterlace', lambda: get_def(by, 'demosaic_deinterlace'), deinterlace)

    def deinterlace_green():
        """the green sample as a term of the two green planes (whatever its spelling)"""
        fn = get_def(by, 'demosaic_deinterlace')
        gs = [s_ for s_ in fn.body if isinstance(s_, ast.Assign) and ast.unparse(s_.targets[0]) == 'g']
        if len(gs) != 1:
            raise Untranslatable('demosaic_deinterlace: g assigned other than once')
        return ('def deinterlaceGreen {K : Type} [Num K] (g1 g2 : K) : K := '
                + Tr({'g1': 'g1', 'g2': 'g2'}, mode='num').expr(gs[0].value))
    g.item('demosaic_deinterlace.green', 'prysm/bayer.py:demosaic_deinterlace', lambda: get_def(by, 'demosaic_deinterlace'), deinterlace_green,
           f'def deinterlaceGreen {{K : Type}} [Num K] (g1 g2 : K) : K := {M}.deinterlaceGreen g1 g2')

    # ------------------------------------------------------------------ Malvar
    KNAME = {'kernel_G_at_R_or_B': 'kernelGAtRB', 'kernel_R_at_G_in_RB': 'kernelRAtGInRB',
             'kernel_R_at_G_in_BR': 'kernelRAtGInBR', 'kernel_R_at_B_in_BB': 'kernelRAtBInBB'}

    def kernels():
        out = []
        tr = Tr({}, mode='rat')
        for py, ln in KNAME.items():
            node = get_const(by, py)
            assert isinstance(node, ast.List) and len(node.elts) == 5
            rows = []
            for row in node.elts:
                assert isinstance(row, ast.List) and len(row.elts) == 5
                rows.append('[' + ', '.join(tr.expr(e) for e in row.elts) + ']')
            out.append(f'def {ln} : List (List Rat) :=\n  [' + ',\n   '.join(rows) + ']')
        return '\n\n'.join(out)
    g.item('malvar.kernels', 'prysm/bayer.py:kernel_*', lambda: get_const(by, 'kernel_G_at_R_or_B'), kernels,
           '\n'.join(f'def {ln} : List (List Rat) := {M}.{ln}' for ln in KNAME.values()))

    def malvar_boundary():
        """the boundary rule of the four `ndimage.convolve` calls of demosaic_malvar (SciPy's default is 'reflect', cval unused)"""
        fn = get_def(by, 'demosaic_malvar')
        calls = [c for c in ast.walk(fn) if isinstance(c, ast.Call) and ast.unparse(c.func) in ('ndimage.convolve', 'ndimage.correlate')]
        if len(calls) != 4:
            raise Untranslatable(f'{len(calls)} filter calls in demosaic_malvar')
        modes = set()
        for c in calls:
            kw = {k.arg: k.value for k in c.keywords}
            if set(kw) - {'mode', 'cval', 'output'} or len(c.args) > 2:
                raise Untranslatable(f'filter call {ast.unparse(c)[:60]}')
            m_ = kw.get('mode')
            if m_ is None:
                modes.add('reflect')
            elif isinstance(m_, ast.Constant) and m_.value in ('reflect', 'grid-mirror', 'constant', 'grid-constant', 'nearest', 'mirror', 'wrap', 'grid-wrap'):
                modes.add({'grid-mirror': 'reflect', 'grid-constant': 'constant', 'grid-wrap': 'wrap'}.get(m_.value, m_.value))
            else:
                raise Untranslatable('boundary mode is not a literal')
        if len(modes) != 1:
            raise Untranslatable(f'filter calls use different boundary rules {sorted(modes)}')
        return f'def malvarBoundary : BMode := .{modes.pop()}'
    g.item('demosaic_malvar.boundary', 'prysm/bayer.py:demosaic_malvar', lambda: get_def(by, 'demosaic_malvar'), malvar_boundary,
           'def malvarBoundary : BMode := .reflect')

    def malvar():
        fn = get_def(by, 'demosaic_malvar')
        # kernel arrays and their divisor
        kvar, divs = {}, set()
        for n in fn.body:
            if isinstance(n, ast.Assign) and isinstance(n.value, ast.BinOp) and isinstance(n.value.op, ast.Div) \
                    and isinstance(n.value.left, ast.Call) and ast.unparse(n.value.left.func) == 'np.array':
                kvar[n.targets[0].id] = KNAME[ast.unparse(n.value.left.args[0])]
                divs.add(Fraction(repr(n.value.right.value)))
        if len(divs) != 1:
            raise Untranslatable(f'kernel divisors {divs}')
        # filtered images
        srcs = {'img': 'img'}
        kof = {}
        for n in fn.body:
            if isinstance(n, ast.Assign) and isinstance(n.value, ast.Call) and ast.unparse(n.value.func) == 'ndimage.convolve':
                if len(n.value.args) != 2:
                    raise Untranslatable('convolve with positional options')
                a0, a1 = n.value.args
                # the boundary rule (mode / cval) is the business of the item demosaic_malvar.boundary
                if ast.unparse(a0) != 'img' or any(kw.arg not in ('mode', 'cval') for kw in n.value.keywords):
                    raise Untranslatable('convolve of something else / with other keywords')
                name = n.targets[0].id
                # which filtered image this is follows from the kernel it is made with, not from the name of the local
                role = {'kernelGAtRB': 'gest', 'kernelRAtGInRB': 'c1', 'kernelRAtGInBR': 'c2', 'kernelRAtBInBB': 'c3'}[kvar[a1.id]]
                if role in kof:
                    raise Untranslatable(f'two images filtered with {kvar[a1.id]}')
                srcs[name] = role
                kof[role] = kvar[a1.id]
        if sorted(kof) != ['c1', 'c2', 'c3', 'gest']:
            raise Untranslatable(f'filtered images {sorted(kof)}')
        chan = {'red': 'red', 'green': 'green', 'blue': 'blue'}
        table = {}   # (cfa, chan, site) -> src
        default = {}
        for n in fn.body:
            if isinstance(n, ast.Assign) and isinstance(n.targets[0], ast.Name) and n.targets[0].id in chan \
                    and isinstance(n.value, ast.Name) and n.value.id in srcs:
                default[n.targets[0].id] = srcs[n.value.id]
        for name, role in srcs.items():          # a channel that IS a filtered image (`green = ndimage.convolve(img, k)`)
            if name in chan:
                default[name] = role

        def take(stmts, cfas):
            for s in stmts:
                if isinstance(s, ast.Assign) and isinstance(s.targets[0], ast.Subscript) \
                        and ast.unparse(s.targets[0].value) in chan:
                    ch = ast.unparse(s.targets[0].value)
                    site = SITE[ast.unparse(s.targets[0].slice)]
                    v = s.value
                    if not (isinstance(v, ast.Subscript) and SITE.get(ast.unparse(v.slice)) == site and ast.unparse(v.value) in srcs):
                        raise Untranslatable(f'demosaic_malvar: {ast.unparse(s)}')
                    for c in cfas:
                        table[(c, ch, site)] = srcs[ast.unparse(v.value)]
        take(fn.body, CFAS)
        for cfa, body in _cfa_branches(fn).items():
            take(body, [cfa])
        arms = []
        for c in CFAS:
            for ch in chan:
                for st in SITES:
                    v = table.get((c, ch, st), default.get(ch))
                    if v is None:
                        raise Untranslatable(f'demosaic_malvar leaves {ch}[{st}] unwritten for {c}')
                    arms.append((f'.{c}, .{ch}, .{st}', f'.{v}'))
        (ret,) = find_returns(fn)
        if ast.unparse(ret) != 'np.stack((red, green, blue), axis=2)':
            raise Untranslatable('channel order of the result')
        (d,) = divs
        karms = [(f'.{s}', f'some {kof[s]}') for s in ('gest', 'c1', 'c2', 'c3')] + [('.img', 'none')]
        return (_match('malvarSrc', 'Cfa → Chan → Site → Src', arms) + '\n\n'
                + _match('srcKernel', 'Src → Option (List (List Rat))', karms) + '\n\n'
                + f'def malvarDivisor : Rat := {lean_rat(d)}')
    g.item('demosaic_malvar', 'prysm/bayer.py:demosaic_malvar', lambda: get_def(by, 'demosaic_malvar'), malvar,
           f'def malvarSrc : Cfa → Chan → Site → Src := {M}.malvarSrc\n'
           f'def srcKernel : Src → Option (List (List Rat)) := {M}.srcKernel\n'
           f'def malvarDivisor : Rat := {M}.malvarDivisor')

    # ------------------------------------------------------------------ safe white-balance limiting
    def safe_step(pyfn, lname):
        def build():
            fn = get_def(by, pyfn)
            loops = [n for n in ast.walk(fn) if isinstance(n, ast.For) and any(
                isinstance(x, ast.Assign) and ast.unparse(x.targets[0]) == 'ratio' for x in ast.walk(n))]
            if len(loops) != 1:
                raise Untranslatable('limiting loop not found')
            loop = loops[0]
            env = {'ratio': 'ratio'}
            term = None
            perplane = [True]
            for st in loop.body:
                if isinstance(st, ast.Assign) and isinstance(st.targets[0], ast.Name):
                    nm = st.targets[0].id
                    src = ast.unparse(st.value)
                    if nm == 'plane':
                        continue
                    if nm == 'sat' and src == 'saturation[i]':
                        env['sat'] = 'sat'
                        continue
                    if nm == 'sat' and src.startswith('saturation[') and isinstance(st.value.slice, ast.Constant):
                        perplane[0] = False          # every plane compared with the same entry: recognised wrong
                        env['sat'] = 'sat'
                        continue
                    if src == 'plane.max()':
                        env[nm] = 'mx'
                        continue
                    env[nm] = Tr({**env, 'sat': 'sat', 'plane.max()': 'mx'}, mode='num').expr(st.value)
                    continue
                if isinstance(st, ast.If) and len(st.body) == 1 and not st.orelse \
                        and isinstance(st.body[0], ast.Assign) and ast.unparse(st.body[0].targets[0]) == 'ratio':
                    tr = Tr({**env, 'sat': 'sat', 'plane.max()': 'mx'}, mode='num')
                    term = f'(if {tr.cond(st.test)} then {tr.expr(st.body[0].value)} else ratio)'
                    continue
                raise Untranslatable(f'limiting loop statement {ast.unparse(st)[:50]}')
            if term is None:
                raise Untranslatable('no ratio update')
            # how many planes are inspected
            it = ast.unparse(loop.iter)
            if it == 'zip(planes, saturation)':
                if ast.unparse(find_assign(fn, 'planes')) != 'decomposite_bayer(mosaic, cfa)':
                    raise Untranslatable('planes are not the four decomposed planes')
                count = 4
            elif it.startswith('range(') and isinstance(loop.iter.args[0], ast.Constant) and len(loop.iter.args) == 1 \
                    and any(ast.unparse(x) == 'plane = rgb[..., i]' for x in loop.body):
                count = int(loop.iter.args[0].value)
            else:
                raise Untranslatable(f'limiting loop iterates over {it}')
            init = [ast.unparse(v) for v in find_assigns(fn, 'ratio')][0]
            if init != '1':
                raise Untranslatable('ratio does not start at 1')
            divs = sorted({ast.unparse(n.targets[0]) for n in ast.walk(fn) if isinstance(n, ast.Assign)
                           and isinstance(n.value, ast.BinOp) and isinstance(n.value.op, ast.Div)
                           and ast.unparse(n.value.right) == 'ratio' and ast.unparse(n.value.left) == ast.unparse(n.targets[0])}
                          | {ast.unparse(n.target) for n in ast.walk(fn) if isinstance(n, ast.AugAssign)
                             and isinstance(n.op, ast.Div) and ast.unparse(n.value) == 'ratio'})
            gains = {'wb_prescale': ['wb', 'wg1', 'wg2', 'wr'], 'wb_postscale': ['wb', 'wg', 'wr']}[pyfn]
            if not set(divs) <= set(gains):
                raise Untranslatable(f'division by the ratio of {divs}')
            return (f'def {lname}Step {{K : Type}} [Num K] [LT K] [DecidableLT K] (ratio mx sat : K) : K :=\n  {term}\n\n'
                    f'def {lname}Planes : Nat := {count}\n\n'
                    f'def {lname}SaturationPerPlane : Bool := {"true" if perplane[0] else "false"}\n\n'
                    f'def {lname}DividesEveryGain : Bool := {"true" if divs == gains else "false"}')
        return build
    for pyfn, lname, cnt in (('wb_prescale', 'wbPreSafe', 4), ('wb_postscale', 'wbPostSafe', 3)):
        g.item(f'{pyfn}.safe', f'prysm/bayer.py:{pyfn}', (lambda p=pyfn: get_def(by, p)), safe_step(pyfn, lname),
               f'def {lname}Step {{K : Type}} [Num K] [LT K] [DecidableLT K] (ratio mx sat : K) : K := {M}.safeStep ratio mx sat\n'
               f'def {lname}Planes : Nat := {cnt}\n'
               f'def {lname}SaturationPerPlane : Bool := true\n'
               f'def {lname}DividesEveryGain : Bool := true')

    return g.finish()


if __name__ == '__main__':
    import sys
    text, items = generate(sys.argv[1] if len(sys.argv) > 1 else '/repo')
    print(text)
    for it in items:
        print('--', it)
