#!/usr/bin/env python3
"""integrate one build agent: cherry-pick its fix commits into /repo, merge its verif branch, remap hashes in findings.
usage: tools/integrate.py <agent-name> <Cxx> [<Cxx> ...]"""
import subprocess, sys, os, re
name, pids = sys.argv[1], sys.argv[2:]
def sh(cmd, cwd=None, check=True):
    p = subprocess.run(cmd, shell=True, cwd=cwd, text=True, capture_output=True)
    if check and p.returncode:
        print(p.stdout, p.stderr); sys.exit(f'FAILED: {cmd}')
    return p.stdout.strip()
ag = f'/tmp/ag/{name}'
assert not sh('git status --porcelain', '/repo'), '/repo dirty'
commits = sh(f'git log --reverse --format=%H main..ag-{name}', '/repo').split()
remap = {}
for c in commits:
    subj = sh(f'git log -1 --format=%s {c}', '/repo')
    assert subj.startswith('fix:'), subj
    sh(f'git cherry-pick {c}', '/repo')
    new = sh('git log -1 --format=%h', '/repo')
    remap[c[:7]] = new
    print('picked', c[:7], '->', new, subj[:90])
out = sh('/verif/tools/baseline.py /repo', check=False)
print(out.splitlines()[0])
assert '795/795' in out, out
assert not sh('git status --porcelain', f'{ag}/verif'), 'agent verif worktree has uncommitted changes'
r = subprocess.run(f'git merge --no-edit ag-{name}', shell=True, cwd='/verif', text=True, capture_output=True)
if r.returncode:
    # conflicts are expected only in run-generated files: keep main's, they are refreshed by tools/refresh.sh afterwards
    sh('git checkout --ours evidence lean/PrysmVerif/Generated lean/PrysmVerif/Audit 2>/dev/null; git add -A', '/verif', check=False)
    left = sh('git diff --name-only --diff-filter=U', '/verif', check=False)
    assert not left, f'unresolved conflicts: {left}'
    sh('git commit --no-edit', '/verif')
    print('merged (run-generated conflicts resolved to main)')
else:
    print(r.stdout.strip().splitlines()[-1])
for pid in pids:
    f = f'/verif/notes/findings_{pid}.txt'
    if os.path.exists(f):
        lines = []
        for line in open(f):
            line = line.rstrip('\n')
            if not line.strip() or line.startswith('#'):
                continue
            for old, new in remap.items():
                line = re.sub(r'\b' + old + r'[0-9a-f]*\b', new, line)
            lines.append(line)
        def key(l):   # identity of a finding line, ignoring the commit hash
            m = re.match(r'(fixed:\s+property=\S+)\s+\S+\s+(.*)', l)
            return (m.group(1), m.group(2)[:80]) if m else l[:120]
        have = {key(l.rstrip('\n')) for l in open('/verif/KNOWN_FINDINGS.txt')}
        new = [l for l in lines if key(l) not in have]
        with open('/verif/KNOWN_FINDINGS.txt', 'a') as k:
            for l in new:
                k.write(l + '\n')
        print(f'{pid}: {len(new)} new finding lines appended ({len(lines) - len(new)} already present)')
