"""translator items for C20 (prysm/x/polarization.py): for every Jones constructor the sequence of entry
writes `M[..., i, j] = e` (as a chain of `M22.set` on the zero matrix — so a never-written or twice-written entry
is visible to the kernel), in-place scalings, sums and the `R(-θ) @ core @ R(θ)` products; the `U` table and the
shape of `jones_to_mueller`; Pauli tables and coefficient formulas; the read / write order of `jones_adapter`.

Scalars are emitted in mode 'num'.  Parameters: `c s` = cos/sin of the orientation angle, `u` = exp(i·retardance),
`ch sh` = cos/sin(retardance/2), `cr sr` = cos/sin(rotate), `I` = 1j, `mI` = -1j.  The only trigonometric law used by
the translator itself is cos(-x) = cos x, sin(-x) = -sin x when it reads `jones_rotation_matrix(-theta)`.
"""
import ast
from pyexpr2lean import Gen, Tr, Untranslatable, load, get_def, get_const, find_returns

M = 'Model.C20'
ROTFN = 'jones_rotation_matrix'


def _entry_target(t):
    """`X[..., i, j]` -> (X, i, j) else None"""
    if isinstance(t, ast.Subscript) and isinstance(t.value, ast.Name) and isinstance(t.slice, ast.Tuple) \
            and len(t.slice.elts) == 3 and isinstance(t.slice.elts[0], ast.Constant) and t.slice.elts[0].value is Ellipsis \
            and all(isinstance(e, ast.Constant) and e.value in (0, 1) for e in t.slice.elts[1:]):
        return t.value.id, t.slice.elts[1].value, t.slice.elts[2].value
    return None


class Interp:
    """symbolic reading of a constructor body: scalar locals are inlined (mode 'num'), matrix locals become Lean
    terms built from M22.zero / set / smul / add / mul and calls of the generated rotation table."""

    def __init__(self, scalar_env, angles):
        self.env = dict(scalar_env)      # python text -> Lean scalar term
        self.mats = {}                   # python name -> Lean M22 term
        self.angles = dict(angles)       # python text of an angle expression -> (cos term, sin term)
        self.skipped = []

    def tr(self):
        return Tr(self.env, 'num')

    def mat(self, e):
        if isinstance(e, ast.Name) and e.id in self.mats:
            return self.mats[e.id]
        if isinstance(e, ast.Call) and ast.unparse(e.func) == ROTFN:
            if len(e.args) != 1 or e.keywords:
                raise Untranslatable(f'rotation call with extra arguments: {ast.unparse(e)}')
            key = ast.unparse(e.args[0])
            if key not in self.angles:
                raise Untranslatable(f'rotation by unknown angle {key}')
            c, s = self.angles[key]
            return f'(rotTable {c} {s})'
        if isinstance(e, ast.Call) and ast.unparse(e.func) == '_empty_jones':
            return 'M22.zero'
        if isinstance(e, ast.BinOp) and isinstance(e.op, ast.MatMult):
            return f'(M22.mul {self.mat(e.left)} {self.mat(e.right)})'
        if isinstance(e, ast.BinOp) and isinstance(e.op, ast.Add):
            return f'(M22.add {self.mat(e.left)} {self.mat(e.right)})'
        raise Untranslatable(f'matrix expression {ast.unparse(e)[:60]}')

    def run(self, stmts):
        """returns the Lean term of the returned matrix (or None if no return was met)"""
        for st in stmts:
            if isinstance(st, ast.Expr) and isinstance(st.value, ast.Constant):
                continue
            if isinstance(st, ast.Assert):
                continue
            if isinstance(st, ast.Return):
                return self.mat(st.value)
            if isinstance(st, ast.Assign) and len(st.targets) == 1:
                t = st.targets[0]
                ent = _entry_target(t)
                if ent is not None:
                    name, i, j = ent
                    if name not in self.mats:
                        raise Untranslatable(f'entry write to unknown matrix {name}')
                    self.mats[name] = f'(M22.set {self.mats[name]} {i} {j} {self.tr().expr(st.value)})'
                    continue
                if isinstance(t, ast.Name):
                    try:
                        self.mats[t.id] = self.mat(st.value)
                        continue
                    except Untranslatable:
                        pass
                    try:
                        self.env[t.id] = self.tr().expr(st.value)
                        continue
                    except Untranslatable:
                        self.skipped.append(ast.unparse(st))
                        continue
            if isinstance(st, ast.AugAssign) and isinstance(st.target, ast.Name) and isinstance(st.op, ast.Mult):
                if st.target.id in self.mats:
                    self.mats[st.target.id] = f'(M22.smul {self.tr().expr(st.value)} {self.mats[st.target.id]})'
                    continue
                self.skipped.append(ast.unparse(st))
                continue
            raise Untranslatable(f'statement {ast.unparse(st)[:60]}')
        return None


def recognise(g, name, source, node_fn, check):
    """a structural fact as an ITEM: `true` when the known-good shape of the source is recognised; when it is not
    (a refactor, or a change of behaviour) the item is `untranslatable`, which widens the correspondence sweep that
    checks the behaviour itself — a harmless rewrite never alarms, a harmful one is caught on the real outputs."""
    def build():
        if not check():
            raise Untranslatable('source shape not recognised')
        return f'def {name} : Bool := true'
    g.item(name, source, node_fn, build, f'def {name} : Bool := true')


def generate(repo):
    g = Gen('C20', imports=['PrysmVerif.Model.C20'], opens=['Model.C20'],
            header='set_option linter.unusedVariables false\nvariable {K : Type} [Num K]')
    po, _ = load(repo, 'prysm/x/polarization.py')

    # ------------------------------------------------------------------ _empty_jones is all zeros
    def empty_zero():
        fn = get_def(po, '_empty_jones')
        (ret,) = find_returns(fn)
        return ast.unparse(ret) == 'np.zeros(shape, dtype=config.precision_complex)'
    recognise(g, 'emptyJonesIsZeros', 'prysm/x/polarization.py:_empty_jones', None, empty_zero)

    # ------------------------------------------------------------------ rotation matrix
    def rot():
        fn = get_def(po, ROTFN)
        it = Interp({'np.cos(theta)': 'c', 'np.sin(theta)': 's'}, {})
        term = it.run(fn.body)
        if term is None:
            raise Untranslatable('no return')
        return f'def rotTable (c s : K) : M22 K := {term}'
    g.item(ROTFN, f'prysm/x/polarization.py:{ROTFN}', lambda: get_def(po, ROTFN), rot,
           f'def rotTable (c s : K) : M22 K := {M}.rot c s')

    ANG = {'theta': ('c', 's'), '-theta': ('c', '(-s)')}

    # ------------------------------------------------------------------ retarder / diattenuator
    def retarder():
        fn = get_def(po, 'linear_retarder')
        it = Interp({'np.exp(1j * retardance)': 'u'}, ANG)
        term = it.run(fn.body)
        if term is None:
            raise Untranslatable('no return')
        return f'def retarder (u c s : K) : M22 K := {term}'
    g.item('linear_retarder', 'prysm/x/polarization.py:linear_retarder', lambda: get_def(po, 'linear_retarder'), retarder,
           f'def retarder (u c s : K) : M22 K := {M}.retarder u c s')

    def diatt():
        fn = get_def(po, 'linear_diattenuator')
        it = Interp({'alpha': 'α'}, ANG)
        term = it.run(fn.body)
        if term is None:
            raise Untranslatable('no return')
        return f'def diattenuator (α c s : K) : M22 K := {term}'
    g.item('linear_diattenuator', 'prysm/x/polarization.py:linear_diattenuator', lambda: get_def(po, 'linear_diattenuator'),
           diatt, f'def diattenuator (α c s : K) : M22 K := {M}.diattenuator α c s')

    # ------------------------------------------------------------------ wrappers
    def wrapper(pyname, callee, leanname, fallback):
        def build():
            fn = get_def(po, pyname)
            (ret,) = find_returns(fn)
            if not (isinstance(ret, ast.Call) and ast.unparse(ret.func) == callee and len(ret.args) == 1):
                raise Untranslatable(f'{pyname} does not return {callee}(x, ...)')
            kws = {k.arg: ast.unparse(k.value) for k in ret.keywords}
            if kws != {'theta': 'theta', 'shape': 'shape'}:
                raise Untranslatable(f'{pyname} keyword arguments: {kws}')
            return f'def {leanname} (pi : K) : K := {Tr({"np.pi": "pi"}, "num").expr(ret.args[0])}'
        g.item(pyname, f'prysm/x/polarization.py:{pyname}', lambda: get_def(po, pyname), build,
               f'def {leanname} (pi : K) : K := {fallback}')
    wrapper('half_wave_plate', 'linear_retarder', 'hwpRetardance', 'pi')
    wrapper('quarter_wave_plate', 'linear_retarder', 'qwpRetardance', 'pi / Num.ofInt 2')
    wrapper('linear_polarizer', 'linear_diattenuator', 'polarizerAlpha', 'Num.ofInt 0')

    # ------------------------------------------------------------------ vector vortex retarder
    def vortex():
        fn = get_def(po, 'vector_vortex_retarder')
        it = Interp({'np.cos(theta)': 'c', 'np.sin(theta)': 's', 'np.cos(retardance / 2)': 'ch',
                     'np.sin(retardance / 2)': 'sh', '-1j': 'mI', '1j': '(-mI)'},
                    {'rotate': ('cr', 'sr'), '-rotate': ('cr', '(-sr)')})
        term = it.run(fn.body)
        if term is None:
            raise Untranslatable('no return')
        if it.skipped != ['shape = theta.shape', 'theta *= charge']:
            raise Untranslatable(f'unexpected non-matrix statements: {it.skipped}')
        return f'def vortex (mI ch sh c s cr sr : K) : M22 K := {term}'
    g.item('vector_vortex_retarder', 'prysm/x/polarization.py:vector_vortex_retarder',
           lambda: get_def(po, 'vector_vortex_retarder'), vortex,
           f'def vortex (mI ch sh c s cr sr : K) : M22 K := {M}.vortex mI ch sh c s cr sr')

    # ------------------------------------------------------------------ jones_to_mueller
    def mueller_u():
        fn = get_def(po, 'jones_to_mueller')
        val = [st.value for st in fn.body if isinstance(st, ast.Assign) and ast.unparse(st.targets[0]) == 'U'][0]
        if not (isinstance(val, ast.Call) and ast.unparse(val.func) in ('np.array', 'np.asarray')):
            raise Untranslatable('U is not an array literal')
        rows = val.args[0]
        if not (isinstance(rows, ast.List) and len(rows.elts) == 4 and all(isinstance(r, ast.List) and len(r.elts) == 4 for r in rows.elts)):
            raise Untranslatable('U is not 4x4')
        tr = Tr({'1j': 'I', '-1j': '(-I)'}, 'num')
        arms = []
        for i, r in enumerate(rows.elts):
            for j, e in enumerate(r.elts):
                arms.append(f'  | {i}, {j} => {tr.expr(e)}')
        return 'def muellerU (I : K) : Nat → Nat → K := fun r c =>\n  match r, c with\n' + '\n'.join(arms) + \
            '\n  | _, _ => (Num.ofInt (0))'
    g.item('jones_to_mueller.U', 'prysm/x/polarization.py:jones_to_mueller', lambda: get_def(po, 'jones_to_mueller'),
           mueller_u, f'def muellerU (I : K) : Nat → Nat → K := {M}.muellerU I')

    def mueller_form():
        fn = get_def(po, 'jones_to_mueller')
        src = [ast.unparse(st) for st in ast.walk(fn) if isinstance(st, (ast.Assign, ast.AugAssign))]
        need = ['U /= np.sqrt(2)', 'jprod = broadcast_kron(np.conj(jones), jones)', 'jprod = np.kron(np.conj(jones), jones)',
                'M = np.real(U @ jprod @ np.linalg.inv(U))']
        return all(n in src for n in need) and [ast.unparse(r) for r in find_returns(fn)] == ['M']
    recognise(g, 'muellerIsRealOfUKronConjJJUinv', 'prysm/x/polarization.py:jones_to_mueller', None, mueller_form)

    def kron_form():
        fn = get_def(po, 'broadcast_kron')
        src = [ast.unparse(st) for st in fn.body if isinstance(st, (ast.Assign, ast.Return))]
        return src == ["tmp = np.einsum('...ik,...jl', a, b)",
                       'return tmp.reshape([*a.shape[:-2], a.shape[-2] * b.shape[-2], a.shape[-1] * b.shape[-1]])']
    recognise(g, 'broadcastKronIsKronecker', 'prysm/x/polarization.py:broadcast_kron', None, kron_form)

    # ------------------------------------------------------------------ Pauli matrices and coefficients
    def pauli_tables():
        fn = get_def(po, 'pauli_spin_matrix')
        chain = [st for st in fn.body if isinstance(st, ast.If)]
        if len(chain) != 1:
            raise Untranslatable('expected one if/elif chain')
        first = [st for st in fn.body if isinstance(st, ast.Assign)]
        if [ast.unparse(s) for s in first] != ['jones = _empty_jones(shape=shape)']:
            raise Untranslatable('jones is not initialised by _empty_jones')
        tabs = {}
        node = chain[0]
        while True:
            if not (isinstance(node.test, ast.Compare) and ast.unparse(node.test.left) == 'index' and
                    isinstance(node.test.ops[0], ast.Eq)):
                raise Untranslatable('branch test is not index == k')
            k = ast.literal_eval(node.test.comparators[0])
            it = Interp({'1j': 'I', '-1j': '(-I)'}, {})
            it.mats['jones'] = 'M22.zero'
            it.run(node.body)
            tabs[k] = it.mats['jones']
            if len(node.orelse) == 1 and isinstance(node.orelse[0], ast.If):
                node = node.orelse[0]
            elif not node.orelse:
                break
            else:
                raise Untranslatable('else branch')
        if sorted(tabs) != [0, 1, 2, 3]:
            raise Untranslatable(f'pauli indices {sorted(tabs)}')
        return ('def pauliTable (I : K) : Nat → M22 K\n' + ''.join(f'  | {k} => {tabs[k]}\n' for k in (0, 1, 2)) +
                f'  | _ => {tabs[3]}')
    g.item('pauli_spin_matrix', 'prysm/x/polarization.py:pauli_spin_matrix', lambda: get_def(po, 'pauli_spin_matrix'),
           pauli_tables, f'def pauliTable (I : K) : Nat → M22 K := {M}.pauli I')

    def pauli_coeffs():
        fn = get_def(po, 'pauli_coefficients')
        env = {f'jones[..., {i}, {j}]': f'J.{"abcd"[2 * i + j]}' for i in (0, 1) for j in (0, 1)}
        env.update({'1j': 'I', '-1j': '(-I)'})
        vals = {}
        for st in fn.body:
            if isinstance(st, ast.Assign) and isinstance(st.targets[0], ast.Name):
                vals[st.targets[0].id] = Tr(env, 'num').expr(st.value)
        (ret,) = find_returns(fn)
        if ast.unparse(ret) != '(c0, c1, c2, c3)':
            raise Untranslatable(f'return {ast.unparse(ret)}')
        return ('def pauliCoeff (I : K) (J : M22 K) : Nat → K\n' + ''.join(f'  | {k} => {vals[f"c{k}"]}\n' for k in (0, 1, 2)) +
                f'  | _ => {vals["c3"]}')
    g.item('pauli_coefficients', 'prysm/x/polarization.py:pauli_coefficients', lambda: get_def(po, 'pauli_coefficients'),
           pauli_coeffs, f'def pauliCoeff (I : K) (J : M22 K) : Nat → K := {M}.pauliCoeff I J')

    # ------------------------------------------------------------------ jones_adapter
    def adapter():
        fn = get_def(po, 'jones_adapter')
        wr = [n for n in fn.body if isinstance(n, ast.FunctionDef) and n.name == 'wrapper'][0]
        names = {}
        for st in wr.body:
            if isinstance(st, ast.Assign) and isinstance(st.targets[0], ast.Name):
                ent = _entry_target(st.value) if isinstance(st.value, ast.Subscript) else None
                if ent and ent[0] == 'wavefunction':
                    names[st.targets[0].id] = (ent[1], ent[2])
        loops = [st for st in wr.body if isinstance(st, ast.For)]
        if len(loops) != 1 or not isinstance(loops[0].iter, ast.List):
            raise Untranslatable('component loop')
        body = [ast.unparse(s) for s in loops[0].body]
        if body != ['ret = prop_func(E, *other_args, **kwargs)', 'tmp.append(ret)'] or ast.unparse(loops[0].target) != 'E':
            raise Untranslatable(f'loop body {body}')
        reads = [names[ast.unparse(e)] for e in loops[0].iter.elts]
        writes = {}
        for st in wr.body:
            if isinstance(st, ast.Assign):
                ent = _entry_target(st.targets[0])
                if ent and ent[0] == 'out':
                    v = st.value
                    if not (isinstance(v, ast.Subscript) and ast.unparse(v.value) == 'tmp' and isinstance(v.slice, ast.Constant)):
                        raise Untranslatable(f'write {ast.unparse(st)}')
                    writes[v.slice.value] = (ent[1], ent[2])
        if sorted(writes) != list(range(len(reads))):
            raise Untranslatable(f'write slots {sorted(writes)}')
        fmt = lambda ps: '[' + ', '.join(f'({i}, {j})' for i, j in ps) + ']'
        return (f'def adapterReads : List (Nat × Nat) := {fmt(reads)}\n'
                f'def adapterWrites : List (Nat × Nat) := {fmt([writes[k] for k in sorted(writes)])}')
    g.item('jones_adapter', 'prysm/x/polarization.py:jones_adapter', lambda: get_def(po, 'jones_adapter'), adapter,
           'def adapterReads : List (Nat × Nat) := [(0, 0), (0, 1), (1, 0), (1, 1)]\n'
           'def adapterWrites : List (Nat × Nat) := [(0, 0), (0, 1), (1, 0), (1, 1)]')

    def adapter_passthrough():
        fn = get_def(po, 'jones_adapter')
        wr = [n for n in fn.body if isinstance(n, ast.FunctionDef) and n.name == 'wrapper'][0]
        ifs = [st for st in wr.body if isinstance(st, ast.If) and ast.unparse(st.test) == 'wavefunction.ndim == 2']
        return len(ifs) == 1 and [ast.unparse(s) for s in ifs[0].body] == ['return prop_func(*args, **kwargs)']
    recognise(g, 'adapterScalarPassThrough', 'prysm/x/polarization.py:jones_adapter', None, adapter_passthrough)

    def supported():
        tab = ast.literal_eval(get_const(po, 'supported_propagation_funcs'))
        return 'def supportedFuncs : List String := [' + ', '.join(f'"{s}"' for s in tab) + ']'
    g.item('supported_propagation_funcs', 'prysm/x/polarization.py:supported_propagation_funcs',
           lambda: get_const(po, 'supported_propagation_funcs'), supported,
           'def supportedFuncs : List String := ["focus", "unfocus", "focus_fixed_sampling", "unfocus_fixed_sampling", "angular_spectrum"]')

    return g.finish()


if __name__ == '__main__':
    import sys
    text, items = generate(sys.argv[1] if len(sys.argv) > 1 else '/repo')
    print(text)
    for it in items:
        print('--', it)
