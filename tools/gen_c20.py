"""translator items for C20 (prysm/x/polarization.py): for every Jones constructor the sequence of entry
writes `M[..., i, j] = e` (as a chain of `M22.set` on the zero matrix — so a never-written or twice-written entry
is visible to the kernel), in-place scalings, sums and the `R(-θ) @ core @ R(θ)` products; the `U` table and the
shape of `jones_to_mueller`; Pauli tables and coefficient formulas; the read / write order of `jones_adapter`.

Scalars are emitted in mode 'num'.  Parameters: `c s` = cos/sin of the orientation angle, `u` = exp(i·retardance),
`ch sh` = cos/sin(retardance/2), `cr sr` = cos/sin(rotate), `I` = 1j, `mI` = -1j.  The only trigonometric law used by
the translator itself is cos(-x) = cos x, sin(-x) = -sin x when it reads `jones_rotation_matrix(-theta)`.
"""
import ast
import re
from pyexpr2lean import Gen, Tr, Untranslatable, load, get_def, get_const, find_returns
from gen_c17 import straight_env, inline_locals, substitute

M = 'Model.C20'
ROTFN = 'jones_rotation_matrix'


def _entry_target(t):
    """`X[..., i, j]` -> (X, i, j) else None"""
    if isinstance(t, ast.Subscript) and isinstance(t.value, ast.Name) and isinstance(t.slice, ast.Tuple) \
            and len(t.slice.elts) == 3 and isinstance(t.slice.elts[0], ast.Constant) and t.slice.elts[0].value is Ellipsis \
            and all(isinstance(e, ast.Constant) and e.value in (0, 1) for e in t.slice.elts[1:]):
        return t.value.id, t.slice.elts[1].value, t.slice.elts[2].value
    return None


def _stored_names(node):
    out = set()
    for n in ast.walk(node):
        if isinstance(n, ast.Name) and isinstance(n.ctx, (ast.Store, ast.Del)):
            out.add(n.id)
        elif isinstance(n, (ast.AugAssign, ast.AnnAssign)) and isinstance(n.target, ast.Name):
            out.add(n.target.id)
        elif isinstance(n, ast.Subscript) and isinstance(n.ctx, ast.Store) and isinstance(n.value, ast.Name):
            out.add(n.value.id)
    return out


def _mentions(text, name):
    return re.search(r'(?<![\w.])' + re.escape(name) + r'(?![\w])', text) is not None


class Interp:
    """symbolic reading of a constructor body: scalar locals are inlined (mode 'num'), matrix locals become Lean
    terms built from M22.zero / set / smul / add / mul and calls of the generated rotation table.

    SOUND w.r.t. re-binding: a name re-bound by something the translator cannot read (untranslatable right-hand side,
    augmented assignment, any assignment inside if/for/while/with/try, a mutating method call) is POISONED together with
    every environment key / matrix / angle that mentions it, so a later use raises Untranslatable (the item falls back and
    the correspondence is widened) instead of silently seeing the stale value.  One exception, which is sound: an ANGLE
    name (a name `x` for which `np.cos(x)`, `np.sin(x)` are parameters) may be re-bound arbitrarily as long as neither
    `np.cos(x)` nor `np.sin(x)` has been evaluated before — the parameters then stand for cos / sin of the new value, and
    the theorems quantify over every pair with c² + s² = 1 (this is how `theta = theta * charge` is read)."""

    def __init__(self, scalar_env, angles, slots=(), module=None):
        self.env = dict(scalar_env)      # python text -> Lean scalar term
        self.mats = {}                   # python name -> Lean M22 term
        self.angles = dict(angles)       # python text of an angle expression -> (cos term, sin term)
        self.rebound_angles = []
        # free (cos, sin) parameter pairs: the first expression X whose np.cos(X) / np.sin(X) is met takes the next pair,
        # whatever the local is called (sound: the theorems hold for every pair with c^2 + s^2 = 1, and both functions
        # are then taken of the same X; re-binding a name inside X afterwards poisons the pair)
        self.slots = list(slots)
        self.module = module
        self.depth = 0

    def bind_trig(self, node):
        for c in ast.walk(node):
            if isinstance(c, ast.Call) and ast.unparse(c.func) in ('np.cos', 'np.sin') and len(c.args) == 1 and not c.keywords:
                x = ast.unparse(c.args[0])
                if f'np.cos({x})' in self.env or f'np.sin({x})' in self.env:
                    continue
                try:
                    self.tr().expr(c.args[0])
                    continue                   # an ordinary translatable argument would need cos/sin as functions: not supported
                except Untranslatable:
                    pass
                if self.slots:
                    cterm, sterm = self.slots.pop(0)
                    self.env[f'np.cos({x})'] = cterm
                    self.env[f'np.sin({x})'] = sterm

    def scalar(self, node):
        self.bind_trig(node)
        return self.tr().expr(node)

    def tr(self):
        return Tr(self.env, 'num')

    def poison(self, name):
        for k in [k for k in self.env if _mentions(k, name)]:
            del self.env[k]
        for k in [k for k in self.angles if _mentions(k, name)]:
            del self.angles[k]
        self.mats.pop(name, None)

    def _angle_rebind_ok(self, name, earlier):
        keys = [f'np.cos({name})', f'np.sin({name})']
        if not any(k in self.env for k in keys) and not any(_mentions(k, name) for k in self.angles):
            return False
        used = any(k in ast.unparse(st) for st in earlier for k in keys) or \
            any(ast.unparse(c.func) == ROTFN and any(_mentions(ast.unparse(a), name) for a in c.args)
                for st in earlier for c in ast.walk(st) if isinstance(c, ast.Call))
        return not used

    def mat(self, e):
        if isinstance(e, ast.Name) and e.id in self.mats:
            return self.mats[e.id]
        if isinstance(e, ast.Call) and ast.unparse(e.func) == ROTFN:
            # jones_rotation_matrix(angle[, shape]) : the shape only repeats the matrix over the batch
            if not (1 <= len(e.args) <= 2) or any(k.arg != 'shape' for k in e.keywords):
                raise Untranslatable(f'rotation call with unexpected arguments: {ast.unparse(e)}')
            key = ast.unparse(e.args[0])
            if key not in self.angles:
                raise Untranslatable(f'rotation by unknown angle {key}')
            c, s = self.angles[key]
            return f'(rotTable {c} {s})'
        if isinstance(e, ast.Call) and ast.unparse(e.func) == '_empty_jones':
            return 'M22.zero'
        if isinstance(e, ast.Call) and isinstance(e.func, ast.Name) and self.module is not None and self.depth < 3:
            return self.inline(e)
        if isinstance(e, ast.BinOp) and isinstance(e.op, ast.MatMult):
            return f'(M22.mul {self.mat(e.left)} {self.mat(e.right)})'
        if isinstance(e, ast.BinOp) and isinstance(e.op, ast.Add):
            return f'(M22.add {self.mat(e.left)} {self.mat(e.right)})'
        raise Untranslatable(f'matrix expression {ast.unparse(e)[:60]}')

    def inline(self, call):
        """a call of a same-module helper that is a straight-line function returning a matrix: interpret its body with
        the parameters bound to what the arguments mean here (matrix / angle / scalar)"""
        h = get_def(self.module, call.func.id)
        params = [a.arg for a in h.args.args]
        if any(isinstance(a, ast.Starred) for a in call.args) or any(k.arg is None or k.arg not in params for k in call.keywords):
            raise Untranslatable(f'call {ast.unparse(call)[:50]}')
        bound = dict(zip(params, call.args))
        bound.update({k.arg: k.value for k in call.keywords})
        sub = Interp({k: v for k, v in self.env.items() if k in ('1j', '-1j')}, {}, module=self.module)
        sub.depth = self.depth + 1
        for pname, arg in bound.items():
            text = ast.unparse(arg)
            try:
                sub.mats[pname] = self.mat(arg)
                continue
            except Untranslatable:
                pass
            if text in self.angles and ('-' + text) in self.angles:
                sub.angles[pname] = self.angles[text]
                sub.angles['-' + pname] = self.angles['-' + text]
                continue
            try:
                sub.env[pname] = self.scalar(arg)
            except Untranslatable:
                pass                       # e.g. `shape`: unbound, any use that matters fails inside
        term = sub.run(h.body)
        if term is None:
            raise Untranslatable(f'helper {call.func.id} does not return a matrix')
        return term

    def run(self, stmts):
        """returns the Lean term of the returned matrix (or None if no return was met)"""
        for idx, st in enumerate(stmts):
            if isinstance(st, ast.Expr) and isinstance(st.value, ast.Constant):
                continue
            if isinstance(st, (ast.Assert, ast.Pass)):
                continue
            if isinstance(st, ast.Return):
                return self.mat(st.value)
            if isinstance(st, ast.Assign) and len(st.targets) == 1:
                t = st.targets[0]
                ent = _entry_target(t)
                if ent is not None:
                    name, i, j = ent
                    if name not in self.mats:
                        raise Untranslatable(f'entry write to unknown matrix {name}')
                    self.mats[name] = f'(M22.set {self.mats[name]} {i} {j} {self.scalar(st.value)})'
                    continue
                if isinstance(t, ast.Name):
                    try:
                        term = self.mat(st.value)
                        self.poison(t.id)
                        self.mats[t.id] = term
                        continue
                    except Untranslatable:
                        pass
                    try:
                        term = self.scalar(st.value)
                        self.poison(t.id)
                        self.env[t.id] = term
                        continue
                    except Untranslatable:
                        pass
                    if self._angle_rebind_ok(t.id, stmts[:idx]):
                        self.rebound_angles.append(ast.unparse(st))
                        continue
                    self.poison(t.id)
                    continue
            if isinstance(st, ast.AugAssign) and isinstance(st.target, ast.Name):
                nm = st.target.id
                if nm in self.mats and isinstance(st.op, ast.Mult):
                    self.mats[nm] = f'(M22.smul {self.scalar(st.value)} {self.mats[nm]})'
                    continue
                if self._angle_rebind_ok(nm, stmts[:idx]):
                    self.rebound_angles.append(ast.unparse(st))
                    continue
                self.poison(nm)
                continue
            # anything else (if / for / while / with / try / bare calls / subscript stores ...)
            for nm in _stored_names(st):
                self.poison(nm)
            for c in ast.walk(st):
                if isinstance(c, ast.Call) and isinstance(c.func, ast.Attribute) and isinstance(c.func.value, ast.Name):
                    if c.func.value.id in self.mats:
                        self.poison(c.func.value.id)      # e.g. jones.fill(...)
        return None


def inline_simple_locals(fn):
    """body of fn with every local that is bound exactly once, at top level, to a call-free arithmetic expression of names that are
    never (re)bound in fn, substituted into the later statements (e.g. `half = retardance / 2` ... `np.cos(half)` ->
    `np.cos(retardance / 2)`).  Value-preserving: neither the local nor what it is made of can change in between."""
    stores = {}
    for n in ast.walk(fn):
        if isinstance(n, ast.Name) and isinstance(n.ctx, (ast.Store, ast.Del)):
            stores[n.id] = stores.get(n.id, 0) + 1
        elif isinstance(n, ast.AugAssign) and isinstance(n.target, ast.Name):
            stores[n.target.id] = stores.get(n.target.id, 0) + 2
    out, mapping = [], {}
    for st in fn.body:
        if mapping:
            st = substitute(st, mapping) if not isinstance(st, ast.Assign) else \
                ast.fix_missing_locations(ast.Assign(targets=st.targets, value=substitute(st.value, mapping), lineno=st.lineno))
        if isinstance(st, ast.Assign) and len(st.targets) == 1 and isinstance(st.targets[0], ast.Name) \
                and stores.get(st.targets[0].id) == 1 and isinstance(st.value, (ast.BinOp, ast.UnaryOp)) \
                and not any(isinstance(x, (ast.Call, ast.Subscript, ast.Attribute)) for x in ast.walk(st.value)) \
                and all(stores.get(x.id, 0) == 0 for x in ast.walk(st.value) if isinstance(x, ast.Name)):
            mapping[st.targets[0].id] = st.value
            continue
        out.append(st)
    return out


def default_of(fn, name):
    args = fn.args.args
    defs = fn.args.defaults
    pos = [a.arg for a in args].index(name) - (len(args) - len(defs))
    if pos < 0:
        raise Untranslatable(f'{name} has no default')
    return defs[pos]


def generate(repo):
    g = Gen('C20', imports=['PrysmVerif.Model.C20'], opens=['Model.C20'],
            header='set_option linter.unusedVariables false\nvariable {K : Type} [Num K]')
    po, _ = load(repo, 'prysm/x/polarization.py')

    # ------------------------------------------------------------------ _empty_jones is all zeros
    def empty_zero():
        fn = get_def(po, '_empty_jones')
        (ret,) = find_returns(fn)
        if not isinstance(ret, ast.Call):
            return None
        f = ast.unparse(ret.func)
        if f in ('np.zeros', 'numpy.zeros'):
            return True
        if f in ('np.ones', 'np.empty', 'np.full', 'numpy.ones', 'numpy.empty', 'numpy.full'):
            return False        # recognised, and wrong: the constructors only write some entries
        return None
    g.fact('emptyJonesIsZeros', 'prysm/x/polarization.py:_empty_jones', empty_zero)

    # ------------------------------------------------------------------ rotation matrix
    def rot():
        fn = get_def(po, ROTFN)
        it = Interp({}, {}, slots=[('c', 's')], module=po)
        term = it.run(fn.body)
        if term is None:
            raise Untranslatable('no return')
        return f'def rotTable (c s : K) : M22 K := {term}'
    g.item(ROTFN, f'prysm/x/polarization.py:{ROTFN}', lambda: get_def(po, ROTFN), rot,
           f'def rotTable (c s : K) : M22 K := {M}.rot c s')

    ANG = {'theta': ('c', 's'), '-theta': ('c', '(-s)')}

    # ------------------------------------------------------------------ retarder / diattenuator
    def retarder():
        fn = get_def(po, 'linear_retarder')
        it = Interp({'np.exp(1j * retardance)': 'u'}, ANG, module=po)
        term = it.run(fn.body)
        if term is None:
            raise Untranslatable('no return')
        return f'def retarder (u c s : K) : M22 K := {term}'
    g.item('linear_retarder', 'prysm/x/polarization.py:linear_retarder', lambda: get_def(po, 'linear_retarder'), retarder,
           f'def retarder (u c s : K) : M22 K := {M}.retarder u c s')

    def diatt():
        fn = get_def(po, 'linear_diattenuator')
        it = Interp({'alpha': 'α'}, ANG, module=po)
        term = it.run(fn.body)
        if term is None:
            raise Untranslatable('no return')
        return f'def diattenuator (α c s : K) : M22 K := {term}'
    g.item('linear_diattenuator', 'prysm/x/polarization.py:linear_diattenuator', lambda: get_def(po, 'linear_diattenuator'),
           diatt, f'def diattenuator (α c s : K) : M22 K := {M}.diattenuator α c s')

    # ------------------------------------------------------------------ wrappers
    def wrapper(pyname, callee, leanname, fallback):
        def build():
            fn = get_def(po, pyname)
            (ret,) = find_returns(fn)
            if not (isinstance(ret, ast.Call) and ast.unparse(ret.func) == callee and len(ret.args) == 1):
                raise Untranslatable(f'{pyname} does not return {callee}(x, ...)')
            kws = {k.arg: ast.unparse(k.value) for k in ret.keywords}
            if kws != {'theta': 'theta', 'shape': 'shape'}:
                raise Untranslatable(f'{pyname} keyword arguments: {kws}')
            return f'def {leanname} (pi : K) : K := {Tr({"np.pi": "pi"}, "num").expr(ret.args[0])}'
        g.item(pyname, f'prysm/x/polarization.py:{pyname}', lambda: get_def(po, pyname), build,
               f'def {leanname} (pi : K) : K := {fallback}')
    wrapper('half_wave_plate', 'linear_retarder', 'hwpRetardance', 'pi')
    wrapper('quarter_wave_plate', 'linear_retarder', 'qwpRetardance', 'pi / Num.ofInt 2')
    wrapper('linear_polarizer', 'linear_diattenuator', 'polarizerAlpha', 'Num.ofInt 0')

    # ------------------------------------------------------------------ vector vortex retarder
    def vortex():
        fn = get_def(po, 'vector_vortex_retarder')
        it = Interp({'np.cos(retardance / 2)': 'ch', 'np.sin(retardance / 2)': 'sh', '-1j': 'mI', '1j': '(-mI)'},
                    {'rotate': ('cr', 'sr'), '-rotate': ('cr', '(-sr)')}, slots=[('c', 's')], module=po)
        term = it.run(inline_simple_locals(fn))
        if term is None:
            raise Untranslatable('no return')
        if len(it.rebound_angles) > 1:
            raise Untranslatable(f'angle re-bound more than once: {it.rebound_angles}')
        return f'def vortex (mI ch sh c s cr sr : K) : M22 K := {term}'
    g.item('vector_vortex_retarder', 'prysm/x/polarization.py:vector_vortex_retarder',
           lambda: get_def(po, 'vector_vortex_retarder'), vortex,
           f'def vortex (mI ch sh c s cr sr : K) : M22 K := {M}.vortex mI ch sh c s cr sr')

    # ------------------------------------------------------------------ jones_to_mueller
    def mueller_u():
        fn = get_def(po, 'jones_to_mueller')
        val = [st.value for st in fn.body if isinstance(st, ast.Assign) and ast.unparse(st.targets[0]) == 'U'][0]
        if not (isinstance(val, ast.Call) and ast.unparse(val.func) in ('np.array', 'np.asarray')):
            raise Untranslatable('U is not an array literal')
        rows = val.args[0]
        if not (isinstance(rows, ast.List) and len(rows.elts) == 4 and all(isinstance(r, ast.List) and len(r.elts) == 4 for r in rows.elts)):
            raise Untranslatable('U is not 4x4')
        tr = Tr({'1j': 'I', '-1j': '(-I)'}, 'num')
        arms = []
        for i, r in enumerate(rows.elts):
            for j, e in enumerate(r.elts):
                arms.append(f'  | {i}, {j} => {tr.expr(e)}')
        return 'def muellerU (I : K) : Nat → Nat → K := fun r c =>\n  match r, c with\n' + '\n'.join(arms) + \
            '\n  | _, _ => (Num.ofInt (0))'
    g.item('jones_to_mueller.U', 'prysm/x/polarization.py:jones_to_mueller', lambda: get_def(po, 'jones_to_mueller'),
           mueller_u, f'def muellerU (I : K) : Nat → Nat → K := {M}.muellerU I')

    def _is_conj_of(node, name):
        t = ast.unparse(node).replace(' ', '')
        return t in (f'np.conj({name})', f'np.conjugate({name})', f'{name}.conj()', f'{name}.conjugate()')

    def mueller_form():
        """True: every branch forms kron(conj J, J) and the result is real(U @ jprod @ U^-1); False: a branch is recognised
        as something else (operands swapped, no conjugate, U on the wrong side); None: shape not recognised"""
        fn = get_def(po, 'jones_to_mueller')
        verdict = True
        prods = [st.value for st in ast.walk(fn) if isinstance(st, ast.Assign) and ast.unparse(st.targets[0]) == 'jprod']
        if not prods:
            return None
        for v in prods:
            if not (isinstance(v, ast.Call) and ast.unparse(v.func) in ('broadcast_kron', 'np.kron') and len(v.args) == 2 and not v.keywords):
                return None
            a, b = v.args
            if _is_conj_of(a, 'jones') and ast.unparse(b) == 'jones':
                continue
            if (ast.unparse(a) == 'jones' and (_is_conj_of(b, 'jones') or ast.unparse(b) == 'jones')) or \
                    (_is_conj_of(a, 'jones') and _is_conj_of(b, 'jones')):
                verdict = False
                continue
            return None
        scaled = any(isinstance(st, ast.AugAssign) and ast.unparse(st.target) == 'U' and isinstance(st.op, ast.Div)
                     and ast.unparse(st.value).replace(' ', '') in ('np.sqrt(2)', '2**0.5', 'np.sqrt(2.0)') for st in ast.walk(fn))
        ms = [st.value for st in ast.walk(fn) if isinstance(st, ast.Assign) and ast.unparse(st.targets[0]) == 'M']
        if len(ms) != 1 or [ast.unparse(r) for r in find_returns(fn)] != ['M']:
            return None
        m = ms[0]
        if not (isinstance(m, ast.Call) and ast.unparse(m.func) in ('np.real',) and len(m.args) == 1):
            return None
        e = m.args[0]
        if not (isinstance(e, ast.BinOp) and isinstance(e.op, ast.MatMult) and isinstance(e.left, ast.BinOp)
                and isinstance(e.left.op, ast.MatMult)):
            return None
        left, mid, right = ast.unparse(e.left.left), ast.unparse(e.left.right), ast.unparse(e.right).replace(' ', '')
        inv_ok = right in ('np.linalg.inv(U)', 'inv(U)') or \
            (scaled and right in ('np.conj(U.T)', 'U.conj().T', 'np.conj(U).T', 'U.T.conj()', 'np.conjugate(U.T)'))
        if left == 'U' and mid == 'jprod' and inv_ok:
            return verdict
        if mid == 'jprod' and left.replace(' ', '') in ('np.linalg.inv(U)', 'inv(U)') and right == 'U':
            return False        # U^-1 (.) U : the inverse on the wrong side
        return None
    g.fact('muellerIsRealOfUKronConjJJUinv', 'prysm/x/polarization.py:jones_to_mueller', mueller_form)

    def kron_form():
        """broadcast_kron(a, b)[..., (r_a, r_b), (c_a, c_b)] = a[..., r_a, c_a] * b[..., r_b, c_b]  (NumPy's kron ordering)"""
        fn = get_def(po, 'broadcast_kron')
        calls = [c for c in ast.walk(fn) if isinstance(c, ast.Call) and ast.unparse(c.func) == 'np.einsum']
        if len(calls) != 1 or len(calls[0].args) != 3 or not isinstance(calls[0].args[0], ast.Constant):
            return None
        if [ast.unparse(a) for a in calls[0].args[1:]] != ['a', 'b']:
            return None
        sub = calls[0].args[0].value.replace(' ', '')
        m = re.fullmatch(r'\.\.\.([a-zA-Z])([a-zA-Z]),\.\.\.([a-zA-Z])([a-zA-Z])(?:->\.\.\.([a-zA-Z]{4}))?', sub)
        if not m or len({m.group(1), m.group(2), m.group(3), m.group(4)}) != 4:
            return None
        ra, ca, rb, cb = m.group(1), m.group(2), m.group(3), m.group(4)
        out = m.group(5) or ''.join(sorted([ra, ca, rb, cb]))
        (ret,) = find_returns(fn)
        want = '.reshape([*a.shape[:-2],a.shape[-2]*b.shape[-2],a.shape[-1]*b.shape[-1]])'
        if not ast.unparse(inline_locals(fn, ret)).replace(' ', '').endswith(want):
            return None
        return out == ra + rb + ca + cb
    g.fact('broadcastKronIsKronecker', 'prysm/x/polarization.py:broadcast_kron', kron_form)

    # ------------------------------------------------------------------ Pauli matrices and coefficients
    def pauli_tables():
        fn = get_def(po, 'pauli_spin_matrix')
        chain = [st for st in fn.body if isinstance(st, ast.If)]
        if len(chain) != 1:
            raise Untranslatable('expected one if/elif chain')
        first = [st for st in fn.body if isinstance(st, ast.Assign)]
        if [ast.unparse(s) for s in first] != ['jones = _empty_jones(shape=shape)']:
            raise Untranslatable('jones is not initialised by _empty_jones')
        tabs = {}
        node = chain[0]
        while True:
            if not (isinstance(node.test, ast.Compare) and ast.unparse(node.test.left) == 'index' and
                    isinstance(node.test.ops[0], ast.Eq)):
                raise Untranslatable('branch test is not index == k')
            k = ast.literal_eval(node.test.comparators[0])
            it = Interp({'1j': 'I', '-1j': '(-I)'}, {})
            it.mats['jones'] = 'M22.zero'
            it.run(node.body)
            tabs[k] = it.mats['jones']
            if len(node.orelse) == 1 and isinstance(node.orelse[0], ast.If):
                node = node.orelse[0]
            elif not node.orelse:
                break
            else:
                raise Untranslatable('else branch')
        if sorted(tabs) != [0, 1, 2, 3]:
            raise Untranslatable(f'pauli indices {sorted(tabs)}')
        return ('def pauliTable (I : K) : Nat → M22 K\n' + ''.join(f'  | {k} => {tabs[k]}\n' for k in (0, 1, 2)) +
                f'  | _ => {tabs[3]}')
    g.item('pauli_spin_matrix', 'prysm/x/polarization.py:pauli_spin_matrix', lambda: get_def(po, 'pauli_spin_matrix'),
           pauli_tables, f'def pauliTable (I : K) : Nat → M22 K := {M}.pauli I')

    def pauli_coeffs():
        fn = get_def(po, 'pauli_coefficients')
        env = {f'jones[..., {i}, {j}]': f'J.{"abcd"[2 * i + j]}' for i in (0, 1) for j in (0, 1)}
        env.update({'1j': 'I', '-1j': '(-I)'})
        env = straight_env(fn.body, env)
        (ret,) = find_returns(fn)
        if not (isinstance(ret, ast.Tuple) and len(ret.elts) == 4):
            raise Untranslatable(f'return {ast.unparse(ret)}')
        vals = [Tr(env, 'num').expr(e) for e in ret.elts]
        return ('def pauliCoeff (I : K) (J : M22 K) : Nat → K\n' + ''.join(f'  | {k} => {vals[k]}\n' for k in (0, 1, 2)) +
                f'  | _ => {vals[3]}')
    g.item('pauli_coefficients', 'prysm/x/polarization.py:pauli_coefficients', lambda: get_def(po, 'pauli_coefficients'),
           pauli_coeffs, f'def pauliCoeff (I : K) (J : M22 K) : Nat → K := {M}.pauliCoeff I J')

    # ------------------------------------------------------------------ jones_adapter
    def adapter():
        fn = get_def(po, 'jones_adapter')
        wr = [n for n in fn.body if isinstance(n, ast.FunctionDef) and n.name == 'wrapper'][0]
        names = {}
        for st in wr.body:
            if isinstance(st, ast.Assign) and isinstance(st.targets[0], ast.Name):
                ent = _entry_target(st.value) if isinstance(st.value, ast.Subscript) else None
                if ent and ent[0] == 'wavefunction':
                    names[st.targets[0].id] = (ent[1], ent[2])

        def is_prop_call(node, lv):
            return isinstance(node, ast.Call) and ast.unparse(node.func) == 'prop_func' and node.args \
                and ast.unparse(node.args[0]) == lv

        reads = None
        slot_of = {}            # python text of "result k" -> k
        loops = [st for st in wr.body if isinstance(st, ast.For)]
        if len(loops) == 1 and isinstance(loops[0].iter, (ast.List, ast.Tuple)):
            # form (a): for E in [J00, ...]: ret = prop_func(E, ...); tmp.append(ret)
            lv = ast.unparse(loops[0].target)
            body = loops[0].body
            if len(body) == 2 and isinstance(body[0], ast.Assign) and is_prop_call(body[0].value, lv) \
                    and ast.unparse(body[1]).replace(' ', '') == f'tmp.append({ast.unparse(body[0].targets[0])})':
                pass
            elif len(body) == 1 and isinstance(body[0], ast.Expr) and isinstance(body[0].value, ast.Call) \
                    and ast.unparse(body[0].value.func) == 'tmp.append' and is_prop_call(body[0].value.args[0], lv):
                pass
            else:
                raise Untranslatable(f'loop body {[ast.unparse(b)[:40] for b in body]}')
            reads = [names[ast.unparse(e)] for e in loops[0].iter.elts]
            slot_of = {f'tmp[{k}]': k for k in range(len(reads))}
        elif not loops:
            # form (b): R0, R1, R2, R3 = [prop_func(E, ...) for E in (J00, ...)]   (or tmp = [...])
            for st in wr.body:
                if isinstance(st, ast.Assign) and isinstance(st.value, (ast.ListComp, ast.GeneratorExp)) \
                        and len(st.value.generators) == 1 and not st.value.generators[0].ifs \
                        and isinstance(st.value.generators[0].iter, (ast.List, ast.Tuple)) \
                        and is_prop_call(st.value.elt, ast.unparse(st.value.generators[0].target)):
                    reads = [names[ast.unparse(e)] for e in st.value.generators[0].iter.elts]
                    t = st.targets[0]
                    if isinstance(t, (ast.Tuple, ast.List)) and len(t.elts) == len(reads):
                        slot_of = {ast.unparse(e): k for k, e in enumerate(t.elts)}
                    elif isinstance(t, ast.Name):
                        slot_of = {f'{t.id}[{k}]': k for k in range(len(reads))}
        if reads is None:
            # form (c): idx = [(0, 0), ...]; comps = [wavefunction[..., i, j] for i, j in idx]; outs = [prop_func(E, ...) for E in comps];
            #           for (i, j), E in zip(idx2, outs): out[..., i, j] = E
            lits = {}
            for st in wr.body:
                if isinstance(st, ast.Assign) and len(st.targets) == 1 and isinstance(st.targets[0], ast.Name):
                    try:
                        v = ast.literal_eval(st.value)
                    except (ValueError, SyntaxError):
                        continue
                    if isinstance(v, (list, tuple)) and v and all(isinstance(p, tuple) and len(p) == 2 and all(q in (0, 1) and not isinstance(q, bool) for q in p) for p in v):
                        lits[st.targets[0].id] = [tuple(p) for p in v]
            comps = props = None
            for st in wr.body:
                if isinstance(st, ast.Assign) and len(st.targets) == 1 and isinstance(st.targets[0], ast.Name) \
                        and isinstance(st.value, ast.ListComp) and len(st.value.generators) == 1 and not st.value.generators[0].ifs:
                    gen_ = st.value.generators[0]
                    it_ = ast.unparse(gen_.iter)
                    tg = ast.unparse(gen_.target).replace(' ', '').strip('()')
                    if it_ in lits and ast.unparse(st.value.elt).replace(' ', '') == 'wavefunction[...,%s]' % tg and ',' in tg:
                        comps = (st.targets[0].id, lits[it_])
                    elif comps and it_ == comps[0] and is_prop_call(st.value.elt, ast.unparse(gen_.target)):
                        props = st.targets[0].id
            loops_c = [st for st in wr.body if isinstance(st, ast.For)]
            if comps and props and len(loops_c) == 1 and len(loops_c[0].body) == 1 and isinstance(loops_c[0].body[0], ast.Assign):
                lp = loops_c[0]
                z = lp.iter
                if isinstance(z, ast.Call) and ast.unparse(z.func) == 'zip' and len(z.args) == 2 and not z.keywords \
                        and ast.unparse(z.args[0]) in lits and ast.unparse(z.args[1]) == props \
                        and isinstance(lp.target, ast.Tuple) and len(lp.target.elts) == 2 and isinstance(lp.target.elts[0], ast.Tuple):
                    ij = [ast.unparse(e) for e in lp.target.elts[0].elts]
                    ev = ast.unparse(lp.target.elts[1])
                    a = lp.body[0]
                    if len(ij) == 2 and ast.unparse(a.targets[0]).replace(' ', '') == f'out[...,{ij[0]},{ij[1]}]' and ast.unparse(a.value) == ev:
                        wl = lits[ast.unparse(z.args[0])]
                        if len(wl) == len(comps[1]):
                            fmt = lambda ps: '[' + ', '.join(f'({i}, {j})' for i, j in ps) + ']'
                            return (f'def adapterReads : List (Nat × Nat) := {fmt(comps[1])}\n'
                                    f'def adapterWrites : List (Nat × Nat) := {fmt(wl)}')
        if reads is None or not slot_of:
            raise Untranslatable('component propagation not recognised (neither a loop nor a comprehension over the components)')
        writes = {}
        for st in wr.body:
            if isinstance(st, ast.Assign):
                ent = _entry_target(st.targets[0])
                if ent and ent[0] == 'out':
                    v = ast.unparse(st.value)
                    if v not in slot_of:
                        raise Untranslatable(f'write {ast.unparse(st)}')
                    writes[slot_of[v]] = (ent[1], ent[2])
        if sorted(writes) != list(range(len(reads))):
            raise Untranslatable(f'write slots {sorted(writes)}')
        fmt = lambda ps: '[' + ', '.join(f'({i}, {j})' for i, j in ps) + ']'
        return (f'def adapterReads : List (Nat × Nat) := {fmt(reads)}\n'
                f'def adapterWrites : List (Nat × Nat) := {fmt([writes[k] for k in sorted(writes)])}')
    g.item('jones_adapter', 'prysm/x/polarization.py:jones_adapter', lambda: get_def(po, 'jones_adapter'), adapter,
           'def adapterReads : List (Nat × Nat) := [(0, 0), (0, 1), (1, 0), (1, 1)]\n'
           'def adapterWrites : List (Nat × Nat) := [(0, 0), (0, 1), (1, 0), (1, 1)]')

    def adapter_passthrough():
        fn = get_def(po, 'jones_adapter')
        wr = [n for n in fn.body if isinstance(n, ast.FunctionDef) and n.name == 'wrapper'][0]
        ifs = [st for st in wr.body if isinstance(st, ast.If) and ast.unparse(st.test).replace(' ', '') in
               ('wavefunction.ndim==2', 'np.ndim(wavefunction)==2', 'args[0].ndim==2')]
        if len(ifs) != 1 or len(ifs[0].body) != 1 or not isinstance(ifs[0].body[0], ast.Return):
            return None
        r = ast.unparse(ifs[0].body[0].value).replace(' ', '')
        if r in ('prop_func(*args,**kwargs)', 'prop_func(wavefunction,*other_args,**kwargs)'):
            return True
        return None
    g.fact('adapterScalarPassThrough', 'prysm/x/polarization.py:jones_adapter', adapter_passthrough)

    # ------------------------------------------------------------------ Jones vectors (Session 3)
    def _vec_target(t, name, batched):
        """`v[i]` (scalar branch) / `v[..., i, 0]` (array branch) / `v[..., i]` -> i, else None"""
        if not (isinstance(t, ast.Subscript) and isinstance(t.value, ast.Name) and t.value.id == name):
            return None
        sl = t.slice.elts if isinstance(t.slice, ast.Tuple) else [t.slice]
        vals = [e.value if isinstance(e, ast.Constant) else None for e in sl]
        if batched == 'col' and len(vals) == 3 and vals[0] is Ellipsis and vals[1] in (0, 1) and vals[2] == 0:
            return vals[1]
        if batched == 'last' and len(vals) == 2 and vals[0] is Ellipsis and vals[1] in (0, 1):
            return vals[1]
        if batched == 'plain' and len(vals) == 1 and vals[0] in (0, 1) and not isinstance(vals[0], bool):
            return vals[0]
        return None

    def _vec_chain(stmts, name, batched, tr):
        term, seen = 'V2.zero', False
        for st in stmts:
            if isinstance(st, ast.Assign) and len(st.targets) == 1:
                if isinstance(st.targets[0], ast.Name) and st.targets[0].id == name:
                    if not (isinstance(st.value, ast.Call) and ast.unparse(st.value.func) == '_empty_pol_vector'):
                        raise Untranslatable(f'{name} is not created by _empty_pol_vector')
                    term, seen = 'V2.zero', True
                    continue
                i = _vec_target(st.targets[0], name, batched)
                if i is not None:
                    if not seen:
                        raise Untranslatable('component write before the vector exists')
                    term = f'(V2.set {term} {i} {tr.expr(st.value)})'
                    continue
                if name in _stored_names(st):
                    raise Untranslatable(f'unrecognised write to {name}: {ast.unparse(st)[:50]}')
            elif name in _stored_names(st):
                raise Untranslatable(f'unrecognised write to {name}: {ast.unparse(st)[:50]}')
        if not seen:
            raise Untranslatable(f'{name} never created')
        return term

    def linpol():
        fn = get_def(po, 'linear_pol_vector')
        if [a.arg for a in fn.args.args] != ['angle', 'degrees']:
            raise Untranslatable('signature of linear_pol_vector')
        top = [st for st in fn.body if not (isinstance(st, ast.Expr) and isinstance(st.value, ast.Constant))]
        ifs = [st for st in top if isinstance(st, ast.If)]
        if len(ifs) != 2 or ast.unparse(ifs[0].test) != 'degrees' or ifs[0].orelse or len(ifs[0].body) != 1 \
                or not isinstance(ifs[0].body[0], ast.Assign) or ast.unparse(ifs[0].body[0].targets[0]) != 'angle':
            raise Untranslatable('`if degrees:` does not just convert angle')
        conv = Tr({'angle': 'angle', 'np.pi': 'pi'}, 'num').expr(ifs[0].body[0].value)
        env = straight_env([st for st in top if isinstance(st, ast.Assign)], {'np.cos(angle)': 'c', 'np.sin(angle)': 's'})
        for st in top:      # the trigonometric functions are taken AFTER the conversion
            if isinstance(st, ast.Assign) and ('np.cos(angle)' in ast.unparse(st) or 'np.sin(angle)' in ast.unparse(st)) \
                    and top.index(st) < top.index(ifs[0]):
                raise Untranslatable('cos / sin taken before the degree conversion')
        tr = Tr(env, 'num')
        br = ifs[1]
        if ast.unparse(br.test).replace(' ', '').replace('"', "'") != "hasattr(angle,'ndim')" or not br.orelse:
            raise Untranslatable('array / scalar branch not recognised')
        arr = _vec_chain(br.body, 'pol_vector', 'col', tr)
        sca = _vec_chain(br.orelse, 'pol_vector', 'plain', tr)
        if [ast.unparse(r) for r in find_returns(fn)] != ['pol_vector']:
            raise Untranslatable('return')
        dflt = ast.literal_eval(default_of(fn, 'degrees'))
        return (f'def linPolAngleFromDegrees (pi angle : K) : K := {conv}\n'
                f'def linPolDegreesDefault : Bool := {"true" if dflt else "false"}\n'
                f'def linPolArray (c s : K) : V2 K := {arr}\n'
                f'def linPolScalar (c s : K) : V2 K := {sca}')
    g.item('linear_pol_vector', 'prysm/x/polarization.py:linear_pol_vector', lambda: get_def(po, 'linear_pol_vector'), linpol,
           'def linPolAngleFromDegrees (pi angle : K) : K := angle * pi / Num.ofInt 180\ndef linPolDegreesDefault : Bool := true\n'
           f'def linPolArray (c s : K) : V2 K := {M}.linPol c s\ndef linPolScalar (c s : K) : V2 K := {M}.linPol c s')

    def circpol():
        fn = get_def(po, 'circular_pol_vector')
        if [a.arg for a in fn.args.args] != ['handedness', 'shape']:
            raise Untranslatable('signature of circular_pol_vector')
        tr = Tr({'np.sqrt(2)': 'r2', '1j': 'I', '-1j': '(-I)'}, 'num')
        top = [st for st in fn.body if not (isinstance(st, ast.Expr) and isinstance(st.value, ast.Constant))]
        ifs = [st for st in top if isinstance(st, ast.If)]
        if len(ifs) != 1:
            raise Untranslatable('expected one handedness chain')
        common = [st for st in top if st is not ifs[0] and not isinstance(st, ast.Return)]
        arms = {}
        node = ifs[0]
        raises = False
        while True:
            if not (isinstance(node.test, ast.Compare) and ast.unparse(node.test.left) == 'handedness' and isinstance(node.test.ops[0], ast.Eq)):
                raise Untranslatable('handedness test')
            arms[ast.literal_eval(node.test.comparators[0])] = _vec_chain(common + node.body, 'pol_vector', 'last', tr)
            if len(node.orelse) == 1 and isinstance(node.orelse[0], ast.If):
                node = node.orelse[0]
            else:
                raises = len(node.orelse) == 1 and isinstance(node.orelse[0], ast.Raise)
                if node.orelse and not raises:
                    raise Untranslatable('else branch')
                break
        if sorted(arms) != ['left', 'right']:
            raise Untranslatable(f'handedness values {sorted(arms)}')
        dflt = ast.literal_eval(default_of(fn, 'handedness'))
        if dflt not in arms:
            raise Untranslatable('default handedness')
        return (f'def circPol (I r2 : K) (left : Bool) : V2 K := if left then {arms["left"]} else {arms["right"]}\n'
                f'def circDefaultLeft : Bool := {"true" if dflt == "left" else "false"}\n'
                f'def circUnknownHandednessRaises : Bool := {"true" if raises else "false"}')
    g.item('circular_pol_vector', 'prysm/x/polarization.py:circular_pol_vector', lambda: get_def(po, 'circular_pol_vector'), circpol,
           f'def circPol (I r2 : K) (left : Bool) : V2 K := {M}.circPol I r2 left\ndef circDefaultLeft : Bool := true\n'
           'def circUnknownHandednessRaises : Bool := true')

    # ------------------------------------------------------------------ second pass: index maps / wiring of the remaining helpers
    def kron_map():
        """broadcast_kron as an index map: einsum subscripts (implicit output = sorted letters, or the explicit one) followed by the
        reshape that merges the first two and the last two output axes (all of size 2): row r -> (r / 2, r % 2), column c likewise"""
        fn = get_def(po, 'broadcast_kron')
        calls = [c for c in ast.walk(fn) if isinstance(c, ast.Call) and ast.unparse(c.func) == 'np.einsum']
        if len(calls) != 1 or len(calls[0].args) != 3 or not isinstance(calls[0].args[0], ast.Constant) or calls[0].keywords:
            raise Untranslatable('einsum call')
        ops = [ast.unparse(a) for a in calls[0].args[1:]]
        if sorted(ops) != ['a', 'b']:
            raise Untranslatable(f'einsum operands {ops}')
        sub = calls[0].args[0].value.replace(' ', '')
        m = re.fullmatch(r'\.\.\.([a-zA-Z])([a-zA-Z]),\.\.\.([a-zA-Z])([a-zA-Z])(?:->\.\.\.([a-zA-Z]{4}))?', sub)
        if not m or len({m.group(1), m.group(2), m.group(3), m.group(4)}) != 4:
            raise Untranslatable(f'einsum subscripts {sub}')
        first, second = (m.group(1), m.group(2)), (m.group(3), m.group(4))
        out = m.group(5) or ''.join(sorted(first + second))
        if sorted(out) != sorted(first + second):
            raise Untranslatable('einsum output letters')
        (ret,) = find_returns(fn)
        want = '.reshape([*a.shape[:-2],a.shape[-2]*b.shape[-2],a.shape[-1]*b.shape[-1]])'
        if not ast.unparse(inline_locals(fn, ret)).replace(' ', '').endswith(want):
            raise Untranslatable('reshape of the einsum result')
        pos = {out[0]: '(r / 2)', out[1]: '(r % 2)', out[2]: '(c / 2)', out[3]: '(c % 2)'}
        lhs = {ops[0]: first, ops[1]: second}
        return ('def kronEntry (a b : M22 K) (r c : Nat) : K := '
                f'a.get {pos[lhs["a"][0]]} {pos[lhs["a"][1]]} * b.get {pos[lhs["b"][0]]} {pos[lhs["b"][1]]}')
    g.item('broadcast_kron', 'prysm/x/polarization.py:broadcast_kron', lambda: get_def(po, 'broadcast_kron'), kron_map,
           f'def kronEntry (a b : M22 K) (r c : Nat) : K := {M}.kron a b r c')

    def apply_optic():
        fn = get_def(po, 'apply_polarization_optic')
        if [a.arg for a in fn.args.args] != ['field', 'pol_optic']:
            raise Untranslatable('signature of apply_polarization_optic')
        top = [st for st in fn.body if not (isinstance(st, ast.Expr) and isinstance(st.value, ast.Constant))]
        if len(top) != 3 or not isinstance(top[0], ast.If) or top[0].orelse or len(top[0].body) != 1:
            raise Untranslatable('body shape')
        if ast.unparse(top[0].test).replace(' ', '') not in ('field.ndim==2', 'np.ndim(field)==2'):
            raise Untranslatable('ndim test')
        ex = ast.unparse(top[0].body[0]).replace(' ', '').replace('None', 'np.newaxis')
        if ex != 'field=field[...,np.newaxis,np.newaxis]':
            raise Untranslatable(f'expansion of the field: {ex}')
        st = top[1]
        if not (isinstance(st, ast.Assign) and isinstance(st.value, ast.BinOp) and isinstance(st.targets[0], ast.Name)):
            raise Untranslatable('product statement')
        opn = {ast.Mult: '*', ast.Add: '+', ast.Sub: '-', ast.Div: '/'}.get(type(st.value.op))
        l, r = ast.unparse(st.value.left), ast.unparse(st.value.right)
        if opn is None or sorted([l, r]) != ['field', 'pol_optic']:
            raise Untranslatable(f'product {ast.unparse(st.value)}')
        if not (isinstance(top[2], ast.Return) and ast.unparse(top[2].value) == st.targets[0].id):
            raise Untranslatable('return')
        ent = lambda e: f'(J.{e} {opn} f)' if l == 'pol_optic' else f'(f {opn} J.{e})'
        return 'def applyOptic (f : K) (J : M22 K) : M22 K := ⟨' + ', '.join(ent(e) for e in 'abcd') + '⟩'
    g.item('apply_polarization_optic', 'prysm/x/polarization.py:apply_polarization_optic', lambda: get_def(po, 'apply_polarization_optic'),
           apply_optic, 'def applyOptic (f : K) (J : M22 K) : M22 K := M22.smul f J')

    def adapter_forwards():
        """every component call is prop_func(E, *other_args, **kwargs) with other_args = args[1:] (or () when there is none), and the
        result container appends (2, 2) to the shape of a component result"""
        fn = get_def(po, 'jones_adapter')
        wr = [n for n in fn.body if isinstance(n, ast.FunctionDef) and n.name == 'wrapper'][0]
        if not (wr.args.vararg and wr.args.vararg.arg == 'args' and wr.args.kwarg and wr.args.kwarg.arg == 'kwargs' and not wr.args.args):
            return None
        oth = [ast.unparse(st.value).replace(' ', '') for st in ast.walk(wr) if isinstance(st, ast.Assign) and ast.unparse(st.targets[0]) == 'other_args']
        if not oth or any(o not in ('args[1:]', '()', 'tuple()') for o in oth) or 'args[1:]' not in oth:
            # recognised and wrong only for a plain slice other than [1:] (e.g. args[2:], args[:1]); anything else: not understood
            return False if any(re.fullmatch(r'args\[-?\d*:-?\d*\]', o) and o != 'args[1:]' for o in oth) else None
        calls = [c for c in ast.walk(wr) if isinstance(c, ast.Call) and ast.unparse(c.func) == 'prop_func']
        comp = [c for c in calls if ast.unparse(c).replace(' ', '') != 'prop_func(*args,**kwargs)']
        if not comp:
            return None
        for c in comp:
            a = [ast.unparse(x).replace(' ', '') for x in c.args]
            k = [(x.arg, ast.unparse(x.value)) for x in c.keywords]
            if len(a) == 2 and a[1] == '*other_args' and k == [(None, 'kwargs')]:
                continue
            if len(a) >= 1 and (a[1:] in ([], ['*other_args'])) and k in ([], [(None, 'kwargs')]):
                return False           # recognised: extra positional or keyword arguments are dropped
            return None
        outs = [ast.unparse(st.value).replace(' ', '') for st in wr.body if isinstance(st, ast.Assign) and ast.unparse(st.targets[0]) == 'out']
        if len(outs) != 1:
            return None
        if re.fullmatch(r'np\.(empty|zeros)\([\[\(]\*(\w+)\.shape,2,2[\]\)],dtype=\2\.dtype\)', outs[0]):
            return True
        if re.fullmatch(r'np\.(empty|zeros)\([\[\(]2,2,\*(\w+)\.shape[\]\)],dtype=\2\.dtype\)', outs[0]):
            return False               # recognised: the matrix axes in front instead of behind
        return None
    g.fact('adapterForwardsArgumentsAndShape', 'prysm/x/polarization.py:jones_adapter', adapter_forwards)

    def add_jones():
        """add_jones_propagation replaces propagation.<name> by jones_adapter(propagation.<name>) for exactly the listed names;
        the default list is supported_propagation_funcs"""
        fn = get_def(po, 'add_jones_propagation')
        dflt = default_of(fn, 'funcs_to_change')
        if ast.unparse(dflt) != 'supported_propagation_funcs':
            return False if isinstance(dflt, (ast.List, ast.Tuple)) else None      # a literal other list is wrong; None-then-fill etc.: not understood
        loops = [st for st in fn.body if isinstance(st, ast.For)]
        if len(loops) != 1 or ast.unparse(loops[0].iter).replace(' ', '') != 'vars(propagation).items()' \
                or ast.unparse(loops[0].target).replace(' ', '') not in ('name,func', '(name,func)'):
            return None
        body = loops[0].body
        if len(body) != 1 or not isinstance(body[0], ast.If) or body[0].orelse:
            return None
        test = ast.unparse(body[0].test).replace(' ', '')
        if test != 'nameinfuncs_to_change':
            return False if test in ('namenotinfuncs_to_change',) else None
        sets = [ast.unparse(x).replace(' ', '') for x in body[0].body]
        if sets == ['setattr(propagation,name,jones_adapter(func))']:
            return True
        if sets in (['setattr(propagation,name,func)'], ['setattr(propagation,name,jones_adapter)']):
            return False               # recognised: the function is put back unwrapped / the decorator itself is stored
        return None
    g.fact('addJonesWrapsEachListedFunctionInPlace', 'prysm/x/polarization.py:add_jones_propagation', add_jones)

    # ------------------------------------------------------------------ documented default arguments
    def defaults():
        tr = Tr({'np.pi': 'pi'}, 'num')
        out = []
        for leanname, fname, arg in (('retarderThetaDefault', 'linear_retarder', 'theta'),
                                     ('diattenuatorThetaDefault', 'linear_diattenuator', 'theta'),
                                     ('hwpThetaDefault', 'half_wave_plate', 'theta'), ('qwpThetaDefault', 'quarter_wave_plate', 'theta'),
                                     ('polarizerThetaDefault', 'linear_polarizer', 'theta'),
                                     ('vortexRetardanceDefault', 'vector_vortex_retarder', 'retardance'),
                                     ('vortexRotateDefault', 'vector_vortex_retarder', 'rotate')):
            out.append(f'def {leanname} (pi : K) : K := {tr.expr(default_of(get_def(po, fname), arg))}')
        b = ast.literal_eval(default_of(get_def(po, 'jones_to_mueller'), 'broadcast'))
        out.append(f'def muellerBroadcastDefault : Bool := {"true" if b else "false"}')
        return '\n'.join(out)
    g.item('defaults', 'prysm/x/polarization.py:(default arguments)', None, defaults,
           '\n'.join(f'def {n} (pi : K) : K := Num.ofInt 0' for n in ('retarderThetaDefault', 'diattenuatorThetaDefault',
                                                                      'hwpThetaDefault', 'qwpThetaDefault', 'polarizerThetaDefault',
                                                                      'vortexRotateDefault'))
           + '\ndef vortexRetardanceDefault (pi : K) : K := pi\ndef muellerBroadcastDefault : Bool := true')

    def supported():
        tab = ast.literal_eval(get_const(po, 'supported_propagation_funcs'))
        return 'def supportedFuncs : List String := [' + ', '.join(f'"{s}"' for s in tab) + ']'
    g.item('supported_propagation_funcs', 'prysm/x/polarization.py:supported_propagation_funcs',
           lambda: get_const(po, 'supported_propagation_funcs'), supported,
           'def supportedFuncs : List String := ["focus", "unfocus", "focus_fixed_sampling", "unfocus_fixed_sampling", "angular_spectrum"]')

    return g.finish()


if __name__ == '__main__':
    import sys
    text, items = generate(sys.argv[1] if len(sys.argv) > 1 else '/repo')
    print(text)
    for it in items:
        print('--', it)
