"""translator items for C02 (energy conservation / inverses): everything of tools/gen_c01.py re-emitted into
`Generated.C02` (so that `./run C02` never relies on a stale `Generated/C01.lean`), plus the angular-spectrum
transfer function and operator of prysm/propagation.py."""
import ast
import gen_c01
from gen_c01 import u, imag_sign, resolve, local_env, seq_env, flatten_mul, strip_i_pi, Subst
from pyexpr2lean import Tr, Untranslatable, get_def, find_assign, find_assigns, find_returns, find_calls, call_arg

M2 = 'Model.C02'


def asp_items(g, ft, pr):
    def tf():
        fn = get_def(pr, 'angular_spectrum_transfer_function')
        params = [a.arg for a in fn.args.args]
        if params != ['samples', 'wvl', 'dx', 'z']:
            raise Untranslatable(f'parameters {params}')
        # the frequency vectors: names unpacked from a generator over `samples` (any names, either order)
        gen = [n for n in ast.walk(fn) if isinstance(n, ast.Assign) and isinstance(n.targets[0], ast.Tuple)
               and isinstance(n.value, ast.GeneratorExp)]
        if len(gen) != 1:
            raise Untranslatable('frequency vectors are not built by one generator expression')
        names = [u(t) for t in gen[0].targets[0].elts]
        ge = gen[0].value
        lv = u(ge.generators[0].target)
        if u(ge.generators[0].iter) != 'samples' or not u(ge.elt).replace(' ', '').startswith(f'fft.fftfreq({lv},dx)'):
            raise Untranslatable(f'frequency vectors: {u(ge)}')
        # every local followed symbolically (renamed locals, `wvl = wvl / 1e3` re-assigning the parameter, hoisted prefactor ...)
        env = seq_env(fn.body)
        (ret,) = find_returns(fn)
        r = Subst(env).visit(ast.parse(u(ret), mode='eval').body)
        r = ast.parse(u(r), mode='eval').body
        if not (isinstance(r, ast.Call) and u(r.func).endswith('outer') and len(r.args) == 2):
            raise Untranslatable(f'return value {u(r)[:80]}')
        # is the exponential applied to EVERY frequency sample?  Any element-wise overwrite of an array that flows into the
        # result (subscript store, in-place op), or a masking / clipping call, says no.
        flow, todo = set(), [x.id for x in ast.walk(ret) if isinstance(x, ast.Name)]
        assigns = {}
        for node in ast.walk(fn):
            if isinstance(node, ast.Assign) and len(node.targets) == 1 and isinstance(node.targets[0], ast.Name):
                assigns.setdefault(node.targets[0].id, []).append(node.value)
        while todo:
            nm = todo.pop()
            if nm in flow or nm in params or nm in names:
                continue
            flow.add(nm)
            for v in assigns.get(nm, []):
                todo += [x.id for x in ast.walk(v) if isinstance(x, ast.Name)]
        masked = []
        for node in ast.walk(fn):
            tgts = node.targets if isinstance(node, ast.Assign) else [node.target] if isinstance(node, ast.AugAssign) else []
            for t in tgts:
                if isinstance(t, ast.Subscript) and isinstance(t.value, ast.Name) and t.value.id in flow:
                    masked.append(u(node))
                if isinstance(node, ast.AugAssign) and isinstance(t, ast.Name) and t.id in flow:
                    masked.append(u(node))
            if isinstance(node, ast.Call) and u(node.func).split('.')[-1] in (
                    'where', 'clip', 'putmask', 'copyto', 'place', 'select', 'piecewise', 'nan_to_num', 'minimum', 'maximum'):
                masked.append(u(node))
        out = []
        for ex in r.args:          # rows factor, columns factor
            if not (isinstance(ex, ast.Call) and u(ex.func).endswith('exp') and len(ex.args) == 1):
                raise Untranslatable(f'a factor of the outer product is not an exponential: {u(ex)[:80]}')
            fac = flatten_mul(ex.args[0])
            ks = [x for x in fac if isinstance(x, ast.Name) and x.id in names]
            if len(ks) != 2 or ks[0].id != ks[1].id:
                raise Untranslatable(f'exponent is not coefficient * k * k: {u(ex.args[0])[:80]}')
            rest = [x for x in fac if not (isinstance(x, ast.Name) and x.id in names)]
            if not rest:
                raise Untranslatable('exponent has no coefficient')
            coef = rest[0]
            for x in rest[1:]:
                coef = ast.BinOp(left=coef, op=ast.Mult(), right=x)
            sgn, mag = imag_sign(coef, {})
            if mag != 1.0 or 'np.pi' not in u(coef):
                raise Untranslatable(f'coefficient is not +-i*pi*...: {u(coef)[:80]}')
            term = Tr({'wvl': 'wvl', 'z': 'z'}, mode='num').expr(strip_i_pi(coef))
            out.append((sgn, term, names.index(ks[0].id)))
        if out[0][1] != out[1][1]:
            raise Untranslatable('row and column exponents differ')
        return (f'/-- `exp(sign·iπ·aspCoef·k²)`: the coefficient of `k²` (times π) in the exponent, wavelength rescaled to mm -/\n'
                f'def aspCoef {{K : Type}} [Num K] (wvl z : K) : K := {out[0][1]}\n'
                f'def aspSignRows : Int := {out[0][0]}\ndef aspSignCols : Int := {out[1][0]}\n'
                f'/-- which component of `samples` gives the frequency vector of the rows / columns of `outer(tfy, tfx)` -/\n'
                f'def aspRowsSamplesIdx : Nat := {out[0][2]}\ndef aspColsSamplesIdx : Nat := {out[1][2]}\n'
                f'/-- the returned array is `outer(exp(..), exp(..))` untouched: no sample is overwritten, masked or clipped'
                f'{" -- found: " + "; ".join(masked)[:200] if masked else ""} -/\n'
                f'def aspTfAppliedToEverySample : Bool := {"false" if masked else "true"}')
    g.item('asp.tf', 'prysm/propagation.py:angular_spectrum_transfer_function',
           lambda: get_def(pr, 'angular_spectrum_transfer_function'), tf,
           'def aspCoef {K : Type} [Num K] (wvl z : K) : K := (wvl / Num.ofInt 1000) * z\n'
           'def aspSignRows : Int := -1\ndef aspSignCols : Int := -1\n'
           'def aspRowsSamplesIdx : Nat := 0\ndef aspColsSamplesIdx : Nat := 1\n'
           'def aspTfAppliedToEverySample : Bool := true')

    def op():
        fn = get_def(pr, 'angular_spectrum')
        TFCALL = 'angular_spectrum_transfer_function(field.shape,wvl,dx,z)'

        def flags(r):
            """ifft2(fft2(field) * <tf>) -> (fwd ortho?, inv ortho?, text of the transfer-function factor)"""
            if not (isinstance(r, ast.Call) and u(r.func).split('.')[-1] == 'ifft2' and len(r.args) == 1):
                raise Untranslatable(f'not an ifft2 call: {u(r)[:70]}')
            kw_i = {k.arg: k.value for k in r.keywords}
            fac = flatten_mul(r.args[0])
            ff = [x for x in fac if isinstance(x, ast.Call) and u(x.func).split('.')[-1] == 'fft2']
            if len(fac) != 2 or len(ff) != 1 or len(ff[0].args) != 1 or u(ff[0].args[0]) != 'field':
                raise Untranslatable(f'ifft2 argument is not fft2(field) * tf: {u(r.args[0])[:70]}')
            other = [x for x in fac if x is not ff[0]][0]
            kw_f = {k.arg: k.value for k in ff[0].keywords}

            def ortho(kw):
                if set(kw) - {'norm'}:
                    raise Untranslatable(f'extra keywords {sorted(kw)}')
                if 'norm' not in kw:
                    return False
                if not isinstance(kw['norm'], ast.Constant) or kw['norm'].value not in (None, 'backward', 'ortho'):
                    raise Untranslatable('norm keyword not recognised')
                return kw['norm'].value == 'ortho'
            return ortho(kw_f), ortho(kw_i), u(other).replace(' ', '')

        def is_test(t, which):
            t = u(t).replace(' ', '')
            return t in {'given': ('tfisnotNone', 'not(tfisNone)', 'nottfisNone'), 'absent': ('tfisNone',),
                         'pad': ('Q!=1', '1!=Q', 'not(Q==1)', 'notQ==1')}[which]

        def pad_only(body):
            return len(body) == 1 and isinstance(body[0], ast.If) and is_test(body[0].test, 'pad') and not body[0].orelse and \
                [u(x).replace(' ', '') for x in body[0].body] in (['field=pad2d(field,Q=Q)'], ['field=pad2d(field,Q)'])
        body = [x for x in fn.body if not (isinstance(x, ast.Expr) and isinstance(x.value, ast.Constant))]
        rets = sorted((n for n in ast.walk(fn) if isinstance(n, ast.Return) and n.value is not None), key=lambda n: n.lineno)
        if len(rets) == 2 and isinstance(body[0], ast.If) and is_test(body[0].test, 'given') and not body[0].orelse \
                and body[0].body == [rets[0]] and pad_only(body[1:2]):
            # shape A: early return for a given tf; then pad (if Q != 1), build the tf, transform
            f_tf = flags(rets[0].value)
            tail = body[2:]
            env = seq_env([x for x in tail if not isinstance(x, ast.Return)], stop={'field'})
            f_z = flags(ast.parse(u(Subst(env).visit(ast.parse(u(rets[1].value), mode='eval').body)), mode='eval').body)
            if f_tf[2] != 'tf' or f_z[2] != TFCALL:
                raise Untranslatable(f'transfer-function factors {f_tf[2][:40]} / {f_z[2][:40]}')
        elif len(rets) == 1 and isinstance(body[0], ast.If) and is_test(body[0].test, 'absent') and not body[0].orelse \
                and pad_only(body[0].body[:1]) and len(body[0].body) == 2 \
                and u(body[0].body[1]).replace(' ', '') == 'tf=' + TFCALL:
            # shape B: the tf is built (after padding) only when none is given; both paths share one transform
            env = seq_env([x for x in body[1:] if not isinstance(x, ast.Return)], stop={'field', 'tf'})
            f_one = flags(ast.parse(u(Subst(env).visit(ast.parse(u(rets[0].value), mode='eval').body)), mode='eval').body)
            if f_one[2] != 'tf':
                raise Untranslatable(f'transfer-function factor {f_one[2][:40]}')
            f_tf = f_z = f_one
        else:
            raise Untranslatable('control flow of angular_spectrum not recognised')
        b = lambda x: 'true' if x else 'false'
        return (f'def aspOpFlagsTf : AspOpFlags := {{ fwdOrtho := {b(f_tf[0])}, invOrtho := {b(f_tf[1])} }}\n'
                f'def aspOpFlagsZ : AspOpFlags := {{ fwdOrtho := {b(f_z[0])}, invOrtho := {b(f_z[1])} }}')
    g.item('asp.operator', 'prysm/propagation.py:angular_spectrum', lambda: get_def(pr, 'angular_spectrum'), op,
           f'def aspOpFlagsTf : AspOpFlags := {M2}.aspOpFlagsRef\ndef aspOpFlagsZ : AspOpFlags := {M2}.aspOpFlagsRef')

    def fs():
        f_ = get_def(pr, 'Wavefront.free_space')
        (c,) = find_calls(f_, 'angular_spectrum')
        params = ['field', 'wvl', 'dx', 'z', 'Q', 'tf']
        d = {}
        for i, a in enumerate(c.args):
            d[params[i]] = u(a)
        for k in c.keywords:
            d[k.arg] = u(k.value)
        if set(d) - set(params):
            return None
        want = {'field': 'self.data', 'wvl': 'self.wavelength', 'dx': 'self.dx', 'z': 'dz', 'Q': 'Q', 'tf': 'tf'}
        return all(d.get(k) == v for k, v in want.items())
    g.fact('freeSpaceDelegates', 'prysm/propagation.py:Wavefront.free_space', fs)


def generate(repo):
    # C02 needs the glue of the routes it speaks about (pad, focus/unfocus, both engines); the cache and dispatch items
    # belong to C01 only (re-proving them here would only double the alarm surface)
    return gen_c01.generate(repo, pid='C02', extra_imports=['PrysmVerif.Model.C02'], extra_opens=['Model.C02'],
                            extra=asp_items, skip=('czt.cache', 'mdft.cache', 'focus_fixed_sampling.dispatch',
                                                   'unfocus_fixed_sampling.dispatch'))


if __name__ == '__main__':
    import sys
    if '--fallbacks' in sys.argv:
        sys.argv.remove('--fallbacks')
        gen_c01.force_fallbacks()
    text, items = generate(sys.argv[1] if len(sys.argv) > 1 else '/repo')
    print(text)
    for it in items:
        print('--', it)
