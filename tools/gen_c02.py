"""translator items for C02 (energy conservation / inverses): everything of tools/gen_c01.py re-emitted into
`Generated.C02` (so that `./run C02` never relies on a stale `Generated/C01.lean`), plus the angular-spectrum
transfer function and operator of prysm/propagation.py."""
import ast
import gen_c01
from gen_c01 import u, imag_sign, resolve, local_env
from pyexpr2lean import Tr, Untranslatable, get_def, find_assign, find_assigns, find_returns, find_calls, call_arg

M2 = 'Model.C02'


def asp_items(g, ft, pr):
    def tf():
        fn = get_def(pr, 'angular_spectrum_transfer_function')
        params = [a.arg for a in fn.args.args]
        if params != ['samples', 'wvl', 'dx', 'z']:
            raise Untranslatable(f'parameters {params}')
        wv = find_assigns(fn, 'wvl')
        if len(wv) != 1:
            raise Untranslatable('wvl is not rescaled exactly once')
        wexpr = Tr({'wvl': 'wvl'}, mode='num').expr(wv[0])
        # ky, kx = (fft.fftfreq(s, dx)... for s in samples)
        gen = [n for n in ast.walk(fn) if isinstance(n, ast.Assign) and isinstance(n.targets[0], ast.Tuple)
               and isinstance(n.value, ast.GeneratorExp)]
        if len(gen) != 1:
            raise Untranslatable('frequency vectors are not built by one generator expression')
        names = [u(t) for t in gen[0].targets[0].elts]
        ge = gen[0].value
        if u(ge.generators[0].iter) != 'samples' or not u(ge.elt).startswith('fft.fftfreq(s, dx)'):
            raise Untranslatable(f'frequency vectors: {u(ge)}')
        env = local_env(fn)
        (ret,) = find_returns(fn)
        ret_name = None
        if isinstance(ret, ast.Name) and ret.id in env:
            ret_name, ret = ret.id, env[ret.id]
        if not (isinstance(ret, ast.Call) and u(ret.func).endswith('outer') and len(ret.args) == 2):
            raise Untranslatable(f'return value {u(ret)}')
        rows, cols = u(ret.args[0]), u(ret.args[1])
        # is the exponential applied to EVERY frequency sample?  Any element-wise overwrite of the returned array or of
        # its two factors (subscript store, in-place op on a subscript), or a masking / clipping call, says no.
        watched = {x for x in (ret_name, rows, cols) if x}
        masked = []
        for node in ast.walk(fn):
            tgts = []
            if isinstance(node, ast.Assign):
                tgts = node.targets
            elif isinstance(node, ast.AugAssign):
                tgts = [node.target]
            for t in tgts:
                if isinstance(t, ast.Subscript) and isinstance(t.value, ast.Name) and t.value.id in watched:
                    masked.append(u(node))
                if isinstance(node, ast.AugAssign) and isinstance(t, ast.Name) and t.id in watched:
                    masked.append(u(node))
            if isinstance(node, ast.Call) and u(node.func).split('.')[-1] in (
                    'where', 'clip', 'putmask', 'copyto', 'place', 'select', 'piecewise', 'nan_to_num', 'minimum', 'maximum'):
                masked.append(u(node))
        out = {}
        for nm in (rows, cols):
            ex = env[nm]
            if not (isinstance(ex, ast.Call) and u(ex.func).endswith('exp')):
                raise Untranslatable(f'{nm} is not an exponential')
            arg = ex.args[0]
            if not (isinstance(arg, ast.BinOp) and isinstance(arg.op, ast.Mult) and isinstance(arg.right, ast.Name)):
                raise Untranslatable(f'exponent of {nm}: {u(arg)}')
            sq = env[arg.right.id]          # kxx = kx * kx
            if not (isinstance(sq, ast.BinOp) and isinstance(sq.op, ast.Mult) and u(sq.left) == u(sq.right)
                    and u(sq.left) in names):
                raise Untranslatable(f'{arg.right.id} is not a squared frequency vector')
            sgn, mag = imag_sign(arg.left, {'prefix': env['prefix']})
            pre = resolve(arg.left, {'prefix': env['prefix']})
            if mag != 1.0 or 'np.pi' not in u(pre):
                raise Untranslatable(f'prefix is not +-i*pi*...: {u(pre)}')

            class Strip(ast.NodeTransformer):
                def visit_Constant(self, node):
                    return ast.Constant(value=1) if isinstance(node.value, complex) else node

                def visit_UnaryOp(self, node):
                    self.generic_visit(node)
                    if isinstance(node.op, ast.USub) and isinstance(node.operand, ast.Constant) and node.operand.value == 1:
                        return ast.Constant(value=1)
                    return node

                def visit_Attribute(self, node):
                    return ast.Constant(value=1) if u(node) == 'np.pi' else node
            scale = Strip().visit(ast.parse(u(pre), mode='eval').body)
            term = Tr({'wvl': f'({wexpr})', 'z': 'z'}, mode='num').expr(scale)
            out[nm] = (sgn, term, names.index(u(sq.left)))
        if out[rows][1] != out[cols][1]:
            raise Untranslatable('row and column exponents differ')
        return (f'/-- `exp(sign·iπ·aspCoef·k²)`: the coefficient of `k²` (times π) in the exponent, wavelength rescaled to mm -/\n'
                f'def aspCoef {{K : Type}} [Num K] (wvl z : K) : K := {out[rows][1]}\n'
                f'def aspSignRows : Int := {out[rows][0]}\ndef aspSignCols : Int := {out[cols][0]}\n'
                f'/-- which component of `samples` gives the frequency vector of the rows / columns of `outer(tfy, tfx)` -/\n'
                f'def aspRowsSamplesIdx : Nat := {out[rows][2]}\ndef aspColsSamplesIdx : Nat := {out[cols][2]}\n'
                f'/-- the returned array is `outer(exp(..), exp(..))` untouched: no sample is overwritten, masked or clipped'
                f'{" -- found: " + "; ".join(masked)[:200] if masked else ""} -/\n'
                f'def aspTfAppliedToEverySample : Bool := {"false" if masked else "true"}')
    g.item('asp.tf', 'prysm/propagation.py:angular_spectrum_transfer_function',
           lambda: get_def(pr, 'angular_spectrum_transfer_function'), tf,
           'def aspCoef {K : Type} [Num K] (wvl z : K) : K := (wvl / Num.ofInt 1000) * z\n'
           'def aspSignRows : Int := -1\ndef aspSignCols : Int := -1\n'
           'def aspRowsSamplesIdx : Nat := 0\ndef aspColsSamplesIdx : Nat := 1\n'
           'def aspTfAppliedToEverySample : Bool := true')

    def op():
        fn = get_def(pr, 'angular_spectrum')
        rets = sorted((n for n in ast.walk(fn) if isinstance(n, ast.Return) and n.value is not None), key=lambda n: n.lineno)
        rets = [n.value for n in rets]
        if len(rets) != 2:
            raise Untranslatable(f'angular_spectrum has {len(rets)} return statements')
        env = local_env(fn)

        def flags(r, want_tf):
            """ifft2(fft2(field) * <tf>) -> (fwd ortho?, inv ortho?)"""
            r = resolve(r, env)
            if not (isinstance(r, ast.Call) and u(r.func).split('.')[-1] == 'ifft2' and len(r.args) == 1):
                raise Untranslatable(f'not an ifft2 call: {u(r)[:70]}')
            kw_i = {k.arg: k.value for k in r.keywords}
            prod = r.args[0]
            if not (isinstance(prod, ast.BinOp) and isinstance(prod.op, ast.Mult)):
                raise Untranslatable(f'ifft2 argument is not a product: {u(prod)[:70]}')
            a, b = prod.left, prod.right
            if not (isinstance(a, ast.Call) and u(a.func).split('.')[-1] == 'fft2'):
                a, b = b, a
            if not (isinstance(a, ast.Call) and u(a.func).split('.')[-1] == 'fft2' and len(a.args) == 1 and u(a.args[0]) == 'field'):
                raise Untranslatable(f'no fft2(field) factor: {u(prod)[:70]}')
            kw_f = {k.arg: k.value for k in a.keywords}
            if u(b).replace(' ', '') != want_tf:
                raise Untranslatable(f'transfer-function factor is {u(b)[:70]}')

            def ortho(kw):
                if set(kw) - {'norm'}:
                    raise Untranslatable(f'extra keywords {sorted(kw)}')
                if 'norm' not in kw:
                    return False
                if not isinstance(kw['norm'], ast.Constant) or kw['norm'].value not in (None, 'backward', 'ortho'):
                    raise Untranslatable('norm keyword not recognised')
                return kw['norm'].value == 'ortho'
            return ortho(kw_f), ortho(kw_i)
        f_tf = flags(rets[0], 'tf')
        f_z = flags(rets[1], 'angular_spectrum_transfer_function(field.shape,wvl,dx,z)')
        # the precomputed-tf branch comes first and is guarded by `tf is not None`; padding by `Q != 1` only on the z branch
        ifs = [n for n in fn.body if isinstance(n, ast.If)]
        if len(ifs) != 2 or u(ifs[0].test).replace(' ', '') != 'tfisnotNone' or u(ifs[1].test).replace(' ', '') != 'Q!=1' \
                or [u(x).replace(' ', '') for x in ifs[1].body] not in (['field=pad2d(field,Q=Q)'], ['field=pad2d(field,Q)']):
            raise Untranslatable('guards of angular_spectrum not recognised')
        b = lambda x: 'true' if x else 'false'
        return (f'def aspOpFlagsTf : AspOpFlags := {{ fwdOrtho := {b(f_tf[0])}, invOrtho := {b(f_tf[1])} }}\n'
                f'def aspOpFlagsZ : AspOpFlags := {{ fwdOrtho := {b(f_z[0])}, invOrtho := {b(f_z[1])} }}')
    g.item('asp.operator', 'prysm/propagation.py:angular_spectrum', lambda: get_def(pr, 'angular_spectrum'), op,
           f'def aspOpFlagsTf : AspOpFlags := {M2}.aspOpFlagsRef\ndef aspOpFlagsZ : AspOpFlags := {M2}.aspOpFlagsRef')

    def fs():
        f_ = get_def(pr, 'Wavefront.free_space')
        (c,) = find_calls(f_, 'angular_spectrum')
        params = ['field', 'wvl', 'dx', 'z', 'Q', 'tf']
        d = {}
        for i, a in enumerate(c.args):
            d[params[i]] = u(a)
        for k in c.keywords:
            d[k.arg] = u(k.value)
        if set(d) - set(params):
            return None
        want = {'field': 'self.data', 'wvl': 'self.wavelength', 'dx': 'self.dx', 'z': 'dz', 'Q': 'Q', 'tf': 'tf'}
        return all(d.get(k) == v for k, v in want.items())
    g.fact('freeSpaceDelegates', 'prysm/propagation.py:Wavefront.free_space', fs)


def generate(repo):
    # C02 needs the glue of the routes it speaks about (pad, focus/unfocus, both engines); the cache and dispatch items
    # belong to C01 only (re-proving them here would only double the alarm surface)
    return gen_c01.generate(repo, pid='C02', extra_imports=['PrysmVerif.Model.C02'], extra_opens=['Model.C02'],
                            extra=asp_items, skip=('czt.cache', 'mdft.cache', 'focus_fixed_sampling.dispatch',
                                                   'unfocus_fixed_sampling.dispatch'))


if __name__ == '__main__':
    import sys
    if '--fallbacks' in sys.argv:
        sys.argv.remove('--fallbacks')
        gen_c01.force_fallbacks()
    text, items = generate(sys.argv[1] if len(sys.argv) > 1 else '/repo')
    print(text)
    for it in items:
        print('--', it)
