"""translator items for C02 (energy conservation / inverses): everything of tools/gen_c01.py re-emitted into
`Generated.C02` (so that `./run C02` never relies on a stale `Generated/C01.lean`), plus the angular-spectrum
transfer function and operator of prysm/propagation.py."""
import ast
import gen_c01
from gen_c01 import u, imag_sign, resolve, local_env
from pyexpr2lean import Tr, Untranslatable, get_def, find_assign, find_assigns, find_returns, find_calls, call_arg

M2 = 'Model.C02'


def asp_items(g, ft, pr):
    def tf():
        fn = get_def(pr, 'angular_spectrum_transfer_function')
        params = [a.arg for a in fn.args.args]
        if params != ['samples', 'wvl', 'dx', 'z']:
            raise Untranslatable(f'parameters {params}')
        wv = find_assigns(fn, 'wvl')
        if len(wv) != 1:
            raise Untranslatable('wvl is not rescaled exactly once')
        wexpr = Tr({'wvl': 'wvl'}, mode='num').expr(wv[0])
        # ky, kx = (fft.fftfreq(s, dx)... for s in samples)
        gen = [n for n in ast.walk(fn) if isinstance(n, ast.Assign) and isinstance(n.targets[0], ast.Tuple)
               and isinstance(n.value, ast.GeneratorExp)]
        if len(gen) != 1:
            raise Untranslatable('frequency vectors are not built by one generator expression')
        names = [u(t) for t in gen[0].targets[0].elts]
        ge = gen[0].value
        if u(ge.generators[0].iter) != 'samples' or not u(ge.elt).startswith('fft.fftfreq(s, dx)'):
            raise Untranslatable(f'frequency vectors: {u(ge)}')
        env = local_env(fn)
        (ret,) = find_returns(fn)
        ret_name = None
        if isinstance(ret, ast.Name) and ret.id in env:
            ret_name, ret = ret.id, env[ret.id]
        if not (isinstance(ret, ast.Call) and u(ret.func).endswith('outer') and len(ret.args) == 2):
            raise Untranslatable(f'return value {u(ret)}')
        rows, cols = u(ret.args[0]), u(ret.args[1])
        # is the exponential applied to EVERY frequency sample?  Any element-wise overwrite of the returned array or of
        # its two factors (subscript store, in-place op on a subscript), or a masking / clipping call, says no.
        watched = {x for x in (ret_name, rows, cols) if x}
        masked = []
        for node in ast.walk(fn):
            tgts = []
            if isinstance(node, ast.Assign):
                tgts = node.targets
            elif isinstance(node, ast.AugAssign):
                tgts = [node.target]
            for t in tgts:
                if isinstance(t, ast.Subscript) and isinstance(t.value, ast.Name) and t.value.id in watched:
                    masked.append(u(node))
                if isinstance(node, ast.AugAssign) and isinstance(t, ast.Name) and t.id in watched:
                    masked.append(u(node))
            if isinstance(node, ast.Call) and u(node.func).split('.')[-1] in (
                    'where', 'clip', 'putmask', 'copyto', 'place', 'select', 'piecewise', 'nan_to_num', 'minimum', 'maximum'):
                masked.append(u(node))
        out = {}
        for nm in (rows, cols):
            ex = env[nm]
            if not (isinstance(ex, ast.Call) and u(ex.func).endswith('exp')):
                raise Untranslatable(f'{nm} is not an exponential')
            arg = ex.args[0]
            if not (isinstance(arg, ast.BinOp) and isinstance(arg.op, ast.Mult) and isinstance(arg.right, ast.Name)):
                raise Untranslatable(f'exponent of {nm}: {u(arg)}')
            sq = env[arg.right.id]          # kxx = kx * kx
            if not (isinstance(sq, ast.BinOp) and isinstance(sq.op, ast.Mult) and u(sq.left) == u(sq.right)
                    and u(sq.left) in names):
                raise Untranslatable(f'{arg.right.id} is not a squared frequency vector')
            sgn, mag = imag_sign(arg.left, {'prefix': env['prefix']})
            pre = resolve(arg.left, {'prefix': env['prefix']})
            if mag != 1.0 or 'np.pi' not in u(pre):
                raise Untranslatable(f'prefix is not +-i*pi*...: {u(pre)}')

            class Strip(ast.NodeTransformer):
                def visit_Constant(self, node):
                    return ast.Constant(value=1) if isinstance(node.value, complex) else node

                def visit_UnaryOp(self, node):
                    self.generic_visit(node)
                    if isinstance(node.op, ast.USub) and isinstance(node.operand, ast.Constant) and node.operand.value == 1:
                        return ast.Constant(value=1)
                    return node

                def visit_Attribute(self, node):
                    return ast.Constant(value=1) if u(node) == 'np.pi' else node
            scale = Strip().visit(ast.parse(u(pre), mode='eval').body)
            term = Tr({'wvl': f'({wexpr})', 'z': 'z'}, mode='num').expr(scale)
            out[nm] = (sgn, term, names.index(u(sq.left)))
        if out[rows][1] != out[cols][1]:
            raise Untranslatable('row and column exponents differ')
        return (f'/-- `exp(sign·iπ·aspCoef·k²)`: the coefficient of `k²` (times π) in the exponent, wavelength rescaled to mm -/\n'
                f'def aspCoef {{K : Type}} [Num K] (wvl z : K) : K := {out[rows][1]}\n'
                f'def aspSignRows : Int := {out[rows][0]}\ndef aspSignCols : Int := {out[cols][0]}\n'
                f'/-- which component of `samples` gives the frequency vector of the rows / columns of `outer(tfy, tfx)` -/\n'
                f'def aspRowsSamplesIdx : Nat := {out[rows][2]}\ndef aspColsSamplesIdx : Nat := {out[cols][2]}\n'
                f'/-- the returned array is `outer(exp(..), exp(..))` untouched: no sample is overwritten, masked or clipped'
                f'{" -- found: " + "; ".join(masked)[:200] if masked else ""} -/\n'
                f'def aspTfAppliedToEverySample : Bool := {"false" if masked else "true"}')
    g.item('asp.tf', 'prysm/propagation.py:angular_spectrum_transfer_function',
           lambda: get_def(pr, 'angular_spectrum_transfer_function'), tf,
           'def aspCoef {K : Type} [Num K] (wvl z : K) : K := (wvl / Num.ofInt 1000) * z\n'
           'def aspSignRows : Int := -1\ndef aspSignCols : Int := -1\n'
           'def aspRowsSamplesIdx : Nat := 0\ndef aspColsSamplesIdx : Nat := 1\n'
           'def aspTfAppliedToEverySample : Bool := true')

    def op():
        fn = get_def(pr, 'angular_spectrum')
        body = [s for s in fn.body if not (isinstance(s, ast.Expr) and isinstance(s.value, ast.Constant))]
        txt = [u(s) for s in body]
        want = ['if tf is not None:\n    return fft.ifft2(fft.fft2(field) * tf)',
                'if Q != 1:\n    field = pad2d(field, Q=Q)',
                'transfer_function = angular_spectrum_transfer_function(field.shape, wvl, dx, z)',
                'forward = fft.fft2(field)',
                'return fft.ifft2(forward * transfer_function)']
        ok = txt == want
        if not ok:
            # accept any body that still ends in ifft2(fft2(field) * transfer_function(field.shape, wvl, dx, z))
            (r1, r2) = find_returns(fn) if len(find_returns(fn)) == 2 else (None, None)
            env = local_env(fn)
            if r2 is None:
                raise Untranslatable(f'angular_spectrum body: {txt}')
            r = u(resolve(r2, env))
            if r != 'fft.ifft2(fft.fft2(field) * angular_spectrum_transfer_function(field.shape, wvl, dx, z))':
                raise Untranslatable(f'angular_spectrum returns {r}')
            ok = True
        fs = get_def(pr, 'Wavefront.free_space')
        (c,) = find_calls(fs, 'angular_spectrum')
        args = {k.arg: u(k.value) for k in c.keywords}
        ok2 = u(c.args[0]) == 'self.data' and args == {'wvl': 'self.wavelength', 'dx': 'self.dx', 'z': 'dz', 'Q': 'Q', 'tf': 'tf'}
        if not ok2:
            raise Untranslatable(f'free_space call not recognised: {u(c)}')
        return (f'def aspIsIfft2OfFft2TimesTf : Bool := {"true" if ok else "false"}\n'
                f'def freeSpaceDelegates : Bool := {"true" if ok2 else "false"}')
    g.item('asp.operator', 'prysm/propagation.py:angular_spectrum', lambda: get_def(pr, 'angular_spectrum'), op,
           'def aspIsIfft2OfFft2TimesTf : Bool := true\ndef freeSpaceDelegates : Bool := true')


def generate(repo):
    return gen_c01.generate(repo, pid='C02', extra_imports=['PrysmVerif.Model.C02'], extra_opens=['Model.C02'],
                            extra=asp_items)


if __name__ == '__main__':
    import sys
    if '--fallbacks' in sys.argv:
        sys.argv.remove('--fallbacks')
        gen_c01.force_fallbacks()
    text, items = generate(sys.argv[1] if len(sys.argv) > 1 else '/repo')
    print(text)
    for it in items:
        print('--', it)
