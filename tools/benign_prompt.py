#!/usr/bin/env python3
"""prompt for an independent agent that writes BEHAVIOUR-PRESERVING refactors (negative controls for false alarms)"""
import json, sys
pid, wt, k = sys.argv[1], sys.argv[2], (sys.argv[3] if len(sys.argv) > 3 else '4')
p = [json.loads(l) for l in open('/verif/properties.jsonl') if json.loads(l)['id'] == pid][0]
print(f"""You are producing NEGATIVE CONTROLS for a verification effort: realistic refactors of a Python library that do NOT change
behaviour.  You have your own scratch git worktree of the library prysm (numerical optics) at {wt} .  Work ONLY inside {wt}
(do not read or write /verif or /repo; do not look for any verification machinery; NEVER use `git stash` — save diffs to files and
use `git apply` / `git checkout -- .`).  Python is /venv/bin/python; run things with `cd {wt} && /venv/bin/python ...` and make sure
`import prysm` picks up your worktree (insert os.getcwd() at the front of sys.path in scripts; check `prysm.__file__`).

The code of interest is the code behind this semantic property (you must NOT break it):

id: {p['id']}
title: {p['title']}
statement: {p['statement']}
anchors (where the mechanism lives): {json.dumps(p['anchors'].get('mechanism', []))}

Task: produce {k} DIFFERENT refactors of the anchored source code, each of which is the kind of clean-up a maintainer really makes and
is strictly behaviour-preserving for every input (same values bit-for-bit or to the last ulp where float re-association is involved —
prefer exact ones; same exceptions; same dtypes and shapes; no new state): e.g. renaming local variables, extracting a local helper
or inlining one, reordering independent statements, rewriting an expression in an algebraically identical form that is exact in
floating point (a*b -> b*a, x - y -> -(y - x), i//2 spelled as (i - i % 2)//2, `np.abs` for `abs`, keyword vs positional arguments,
a comprehension instead of a loop, tuple unpacking instead of indexing, f-strings, early return instead of else), adding type hints,
comments or docstring edits, replacing a deprecated alias by its modern name.  Make them touch the lines that implement the mechanism
(not unrelated files), be different in kind from one another, and each 3-40 changed lines.

For each refactor i = 1..{k} deliver, under {wt}_out/ (create it):
  b<i>.diff      `git diff` against HEAD (one refactor per diff; reset with `git checkout -- .` between them)
  b<i>_demo.py   a standalone program that evaluates the touched public functions on a broad set of inputs (shapes of every parity,
                 non-square, several dtypes, parameter values, call sequences) and prints a SHA-256 digest of all results
                 (np.ndarray.tobytes of each, plus shapes/dtypes/exception types); it must print THE SAME digest on the untouched
                 tree and with the refactor applied (verify this yourself and record the digest)
  b<i>.json      {{"property": "{pid}", "what": "<one sentence>", "kind": "<rename|reorder|inline|extract|equivalent-expression|...>",
                   "files": [...], "digest": "<sha256>"}}
Also run the test suite before and after (`/venv/bin/python -m pytest -q -p no:cacheprovider --timeout=900 --continue-on-collection-errors tests prysm 2>&1 | tail -3`
— 29 tests fail on the untouched tree for lack of network; the failing set must be identical).  Leave the worktree clean.
Final message: one line per refactor.""")
