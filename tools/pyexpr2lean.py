"""pyexpr2lean — the shared core of the translator (Python `ast` -> Lean 4 terms).

The per-property generators (tools/gen_cXX.py) use this module to pull the *glue* of the current
/repo working tree (offsets, slice bounds, index maps, recurrence coefficients, unit conversions,
tables, attribute-write effects) into `lean/PrysmVerif/Generated/CXX.lean`, so that the theorems in
`Props/CXX.lean` are re-checked by the kernel against what the source says now.

Three target arithmetics:
  mode='int'  Python ints -> Lean `Int`   (`//` -> Int.fdiv, `%` -> Int.fmod, ceil(a/b) -> pyCeilDiv, omega-friendly)
  mode='rat'  exact rationals -> Lean `Rat` (float literals are read as exact decimals: .5 -> 1/2)
  mode='num'  generic scalar `K` with `[Num K]` (runs on Float and Rat, reasoned about over a Field)

Anything outside the supported subset raises `Untranslatable(reason)`; the caller records the item
as untranslatable (the check then falls back to the hand model + widened correspondence, never to
silence).
"""
import ast
import hashlib
import os
from fractions import Fraction


class Untranslatable(Exception):
    pass


# ------------------------------------------------------------------------------------------------
# source access
# ------------------------------------------------------------------------------------------------
_cache = {}


def load(repo, rel):
    """parse <repo>/<rel>; returns (module_ast, source_text)"""
    path = os.path.join(repo, rel)
    key = (path, os.path.getmtime(path))
    if key not in _cache:
        src = open(path).read()
        _cache[key] = (ast.parse(src), src)
    return _cache[key]


def get_def(mod, dotted):
    """'func' or 'Class.method' -> FunctionDef node"""
    parts = dotted.split('.')
    body = mod.body
    node = None
    for i, p in enumerate(parts):
        found = None
        for n in body:
            if isinstance(n, (ast.FunctionDef, ast.ClassDef)) and n.name == p:
                found = n
        if found is None:
            raise Untranslatable(f'definition {dotted} not found')
        node = found
        body = found.body
    return node


def get_const(mod, name):
    """module-level `name = <expr>` -> expr node"""
    for n in mod.body:
        if isinstance(n, ast.Assign) and any(isinstance(t, ast.Name) and t.id == name for t in n.targets):
            return n.value
    raise Untranslatable(f'module constant {name} not found')


def node_sha(node):
    """sha256 of the normalised (comment/format-free) source of a node"""
    return hashlib.sha256(ast.unparse(node).encode()).hexdigest()[:16]


def find_assigns(fn, name):
    """all `name = value` (in source order) inside fn; value nodes"""
    out = []
    for n in ast.walk(fn):
        if isinstance(n, ast.Assign):
            for t in n.targets:
                if isinstance(t, ast.Name) and t.id == name:
                    out.append((n.lineno, n.value))
                if isinstance(t, ast.Tuple):
                    for k, el in enumerate(t.elts):
                        if isinstance(el, ast.Name) and el.id == name and isinstance(n.value, ast.Tuple):
                            out.append((n.lineno, n.value.elts[k]))
    out.sort(key=lambda p: p[0])
    return [v for _, v in out]


def find_assign(fn, name, which=0):
    vs = find_assigns(fn, name)
    if not vs:
        raise Untranslatable(f'no assignment to {name} in {getattr(fn, "name", "?")}')
    return vs[which]


def find_returns(fn):
    return [n.value for n in ast.walk(fn) if isinstance(n, ast.Return) and n.value is not None]


def find_calls(node, fname):
    """all Call nodes inside `node` whose func unparses to `fname` (e.g. 'mdft.dft2', 'self._setup_bases')"""
    out = [n for n in ast.walk(node) if isinstance(n, ast.Call) and ast.unparse(n.func) == fname]
    out.sort(key=lambda n: (n.lineno, n.col_offset))
    return out


def call_arg(call, pos, kw):
    """positional-or-keyword argument of a Call node (None if absent)"""
    if pos is not None and pos < len(call.args):
        return call.args[pos]
    for k in call.keywords:
        if k.arg == kw:
            return k.value
    return None


# ------------------------------------------------------------------------------------------------
# expressions
# ------------------------------------------------------------------------------------------------
_CEIL = ('math.ceil', 'np.ceil', 'numpy.ceil', 'ceil')
_FLOOR = ('math.floor', 'np.floor', 'numpy.floor', 'floor')


def _pos_literal(e):
    return isinstance(e, ast.Constant) and isinstance(e.value, int) and not isinstance(e.value, bool) and e.value > 0


def lean_int(k):
    return f'({k} : Int)' if k >= 0 else f'(-{-k} : Int)'


def lean_rat(fr):
    fr = Fraction(fr)
    if fr.denominator == 1:
        return f'({fr.numerator} : Rat)' if fr >= 0 else f'(-{-fr.numerator} : Rat)'
    s = f'(({abs(fr.numerator)} : Rat) / {fr.denominator})'
    return s if fr >= 0 else f'(-{s})'


def lean_num(fr):
    fr = Fraction(fr)
    if fr.denominator == 1:
        return f'(Num.ofInt ({fr.numerator}))'
    return f'(Num.ofFrac ({fr.numerator}) {fr.denominator})'


class Tr:
    """expression translator.

    env   : dict  python-source-text -> Lean term.  Looked up by `ast.unparse(e)` first, so entries
            such as 'shape[0]', 'self.dx', 'len(ns)' work as well as plain names.
    funcs : dict  python callee text -> Lean function name (applied curried to translated args),
            or -> python callable(list_of_lean_args) -> str
    mode  : 'int' | 'rat' | 'num'
    """

    def __init__(self, env, mode='int', funcs=None):
        self.env = dict(env)
        self.mode = mode
        self.funcs = dict(funcs or {})

    # -- literals
    def const(self, v):
        if isinstance(v, bool):
            raise Untranslatable(f'bool literal {v}')
        if isinstance(v, int):
            return {'int': lean_int, 'rat': lean_rat, 'num': lean_num}[self.mode](v)
        if isinstance(v, float):
            if self.mode == 'int':
                if v == int(v):
                    return lean_int(int(v))
                raise Untranslatable(f'float literal {v} in integer context')
            fr = Fraction(repr(v))
            return lean_rat(fr) if self.mode == 'rat' else lean_num(fr)
        raise Untranslatable(f'literal {v!r}')

    def expr(self, e):
        key = ast.unparse(e)
        if key in self.env:
            return self.env[key]
        if isinstance(e, ast.Constant):
            return self.const(e.value)
        if isinstance(e, ast.Name):
            raise Untranslatable(f'free name {e.id}')
        if isinstance(e, ast.UnaryOp):
            if isinstance(e.op, ast.USub):
                if isinstance(e.operand, ast.Constant) and isinstance(e.operand.value, (int, float)):
                    return self.const(-e.operand.value)
                return f'(-{self.expr(e.operand)})'
            if isinstance(e.op, ast.UAdd):
                return self.expr(e.operand)
        if isinstance(e, ast.BinOp):
            return self.binop(e)
        if isinstance(e, ast.IfExp):
            return f'(if {self.cond(e.test)} then {self.expr(e.body)} else {self.expr(e.orelse)})'
        if isinstance(e, ast.Call):
            return self.call(e)
        raise Untranslatable(f'expression {key}')

    def binop(self, e):
        op = type(e.op)
        if op in (ast.Add, ast.Sub, ast.Mult):
            sym = {ast.Add: '+', ast.Sub: '-', ast.Mult: '*'}[op]
            return f'({self.expr(e.left)} {sym} {self.expr(e.right)})'
        if op is ast.Div:
            if self.mode == 'int':
                raise Untranslatable(f'true division in integer context: {ast.unparse(e)}')
            return f'({self.expr(e.left)} / {self.expr(e.right)})'
        if op is ast.FloorDiv:
            a, b = self.expr(e.left), self.expr(e.right)
            if self.mode == 'int':
                # Lean's Int `/` is Euclidean division = Python floor division for a positive divisor
                return f'({a} / {b})' if _pos_literal(e.right) else f'(Int.fdiv {a} {b})'
            if self.mode == 'rat':
                return f'((Rat.floor ({a} / {b}) : Int) : Rat)'
            raise Untranslatable('// in generic scalar context')
        if op is ast.Mod:
            if self.mode == 'int':
                a, b = self.expr(e.left), self.expr(e.right)
                return f'({a} % {b})' if _pos_literal(e.right) else f'(Int.fmod {a} {b})'
            raise Untranslatable('% outside integer context')
        if op is ast.Pow:
            if isinstance(e.right, ast.Constant) and isinstance(e.right.value, int) and e.right.value >= 0:
                k = e.right.value
                if self.mode == 'num':
                    return f'(Num.npow {self.expr(e.left)} {k})'
                return f'({self.expr(e.left)} ^ {k})'
            if self.mode == 'int':
                # integer base, natural exponent given as an expression: only `2 ** bits`-style
                return f'({self.expr(e.left)} ^ (Int.toNat {self.expr(e.right)}))'
            raise Untranslatable(f'power {ast.unparse(e)}')
        raise Untranslatable(f'operator {ast.unparse(e)}')

    def call(self, e):
        f = ast.unparse(e.func)
        if f in self.funcs:
            tgt = self.funcs[f]
            args = [self.expr(a) for a in e.args]
            if callable(tgt):
                return tgt(args)
            return '(' + ' '.join([tgt] + args) + ')'
        if f in _CEIL or f in _FLOOR:
            (a,) = e.args
            up = f in _CEIL
            if self.mode == 'int':
                if isinstance(a, ast.BinOp) and isinstance(a.op, ast.Div):
                    n, d = self.expr(a.left), self.expr(a.right)
                    if up:
                        return f'(pyCeilDiv {n} {d})'
                    return f'({n} / {d})' if _pos_literal(a.right) else f'(Int.fdiv {n} {d})'
                return self.expr(a)
            if self.mode == 'rat':
                fn = 'Rat.ceil' if up else 'Rat.floor'
                return f'(({fn} {self.expr(a)} : Int) : Rat)'
            raise Untranslatable(f'{f} in generic scalar context')
        if f == 'int':
            (a,) = e.args
            if self.mode == 'int':
                if isinstance(a, ast.BinOp) and isinstance(a.op, ast.Div):
                    return f'(Int.tdiv {self.expr(a.left)} {self.expr(a.right)})'
                return self.expr(a)
            if self.mode == 'rat':
                x = self.expr(a)
                return f'(pyTruncRat {x})'
            raise Untranslatable('int() in generic scalar context')
        if f == 'float':
            (a,) = e.args
            return self.expr(a)
        if f == 'abs':
            (a,) = e.args
            x = self.expr(a)
            if self.mode == 'num':
                raise Untranslatable('abs in generic scalar context')
            return f'(if {x} < 0 then -{x} else {x})'
        if f in ('min', 'max') and len(e.args) == 2 and self.mode != 'num':
            return f'({f} {self.expr(e.args[0])} {self.expr(e.args[1])})'
        raise Untranslatable(f'call {ast.unparse(e)}')

    # -- booleans (as decidable Props)
    def cond(self, e):
        key = ast.unparse(e)
        if key in self.env:
            return self.env[key]
        if isinstance(e, ast.BoolOp):
            sym = ' ∧ ' if isinstance(e.op, ast.And) else ' ∨ '
            return '(' + sym.join(self.cond(v) for v in e.values) + ')'
        if isinstance(e, ast.UnaryOp) and isinstance(e.op, ast.Not):
            return f'(¬ {self.cond(e.operand)})'
        if isinstance(e, ast.Compare):
            parts = []
            left = e.left
            for op, right in zip(e.ops, e.comparators):
                sym = {ast.Lt: '<', ast.LtE: '≤', ast.Gt: '>', ast.GtE: '≥', ast.Eq: '=', ast.NotEq: '≠'}.get(type(op))
                if sym is None:
                    raise Untranslatable(f'comparison {key}')
                parts.append(f'({self.expr(left)} {sym} {self.expr(right)})')
                left = right
            return parts[0] if len(parts) == 1 else '(' + ' ∧ '.join(parts) + ')'
        raise Untranslatable(f'condition {key}')


# ------------------------------------------------------------------------------------------------
# straight-line function bodies
# ------------------------------------------------------------------------------------------------
def body_to_lean(stmts, tr, indent='  '):
    """statements -> a Lean term.  Supports: `x = e`, `x += e` (etc.), `return e`,
    `if c: <returns> [elif/else]`, docstrings, `pass`.  The last statement executed must return."""
    if not stmts:
        raise Untranslatable('fell off the end of the function without return')
    s, rest = stmts[0], stmts[1:]
    if isinstance(s, ast.Expr) and isinstance(s.value, ast.Constant) and isinstance(s.value.value, str):
        return body_to_lean(rest, tr, indent)
    if isinstance(s, ast.Pass):
        return body_to_lean(rest, tr, indent)
    if isinstance(s, ast.Return):
        if s.value is None:
            raise Untranslatable('bare return')
        if isinstance(s.value, ast.Tuple):
            return '(' + ', '.join(tr.expr(x) for x in s.value.elts) + ')'
        return tr.expr(s.value)
    if isinstance(s, ast.Assign) and len(s.targets) == 1 and isinstance(s.targets[0], ast.Name):
        name = s.targets[0].id
        val = tr.expr(s.value)
        ln = _fresh(name)
        tr2 = Tr({**tr.env, name: ln}, tr.mode, tr.funcs)
        return f'let {ln} := {val}\n{indent}{body_to_lean(rest, tr2, indent)}'
    if isinstance(s, ast.Assign) and len(s.targets) == 1 and isinstance(s.targets[0], ast.Tuple) \
            and isinstance(s.value, ast.Tuple) and len(s.value.elts) == len(s.targets[0].elts) \
            and all(isinstance(t, ast.Name) for t in s.targets[0].elts):
        vals = [tr.expr(v) for v in s.value.elts]      # all RHS evaluated in the old environment
        env = dict(tr.env)
        lets = []
        for t, v in zip(s.targets[0].elts, vals):
            ln = _fresh(t.id)
            env[t.id] = ln
            lets.append(f'let {ln} := {v}\n{indent}')
        return ''.join(lets) + body_to_lean(rest, Tr(env, tr.mode, tr.funcs), indent)
    if isinstance(s, ast.AugAssign) and isinstance(s.target, ast.Name):
        fake = ast.Assign(targets=[ast.Name(id=s.target.id, ctx=ast.Store())],
                          value=ast.BinOp(left=ast.Name(id=s.target.id, ctx=ast.Load()), op=s.op, right=s.value))
        return body_to_lean([fake] + rest, tr, indent)
    if isinstance(s, ast.If):
        c = tr.cond(s.test)
        then = body_to_lean(s.body + rest, tr, indent + '  ') if not _always_returns(s.body) \
            else body_to_lean(s.body, tr, indent + '  ')
        els = body_to_lean((s.orelse or []) + rest, tr, indent + '  ') if not _always_returns(s.orelse or [None]) \
            else body_to_lean(s.orelse, tr, indent + '  ')
        return f'if {c} then\n{indent}  {then}\n{indent}else\n{indent}  {els}'
    if isinstance(s, ast.Raise):
        raise Untranslatable('raise reached (use a guard in the caller)')
    raise Untranslatable(f'statement {ast.unparse(s)[:60]}')


_counter = [0]


def _fresh(name):
    return f'{name}_'


def _always_returns(stmts):
    if not stmts or stmts == [None]:
        return False
    last = stmts[-1]
    if isinstance(last, ast.Return):
        return True
    if isinstance(last, ast.If):
        return _always_returns(last.body) and _always_returns(last.orelse or [None])
    return False


def fn_to_lean(fn, lean_name, params, ret_type, mode='int', env=None, funcs=None, ty=None):
    """translate a whole straight-line function.

    params : list of python parameter names to keep (in order); each becomes a Lean binder of type
             `ty` (default: Int / Rat / K by mode).
    """
    ty = ty or {'int': 'Int', 'rat': 'Rat', 'num': 'K'}[mode]
    e = dict(env or {})
    for p in params:
        e.setdefault(p, p)
    body = body_to_lean(fn.body, Tr(e, mode, funcs))
    binders = ' '.join(f'({p} : {ty})' for p in params)
    return f'def {lean_name} {binders} : {ret_type} :=\n  {body}\n'


def table_literal(node):
    """python literal dict/list/tuple of numbers & strings -> python object (via ast.literal_eval)"""
    try:
        return ast.literal_eval(node)
    except Exception as ex:  # noqa
        raise Untranslatable(f'not a literal table: {ex}')




# ------------------------------------------------------------------------------------------------
# element-wise reading of list comprehensions / generator expressions over per-axis lists
# ------------------------------------------------------------------------------------------------
def comp_parts(node):
    """`[elt for a, b in zip(X, Y)]` / `(elt for d in X)` / `tuple(<genexp>)` -> (elt, {a: 'X', b: 'Y'})"""
    if isinstance(node, ast.Call) and ast.unparse(node.func) in ('tuple', 'list') and len(node.args) == 1:
        node = node.args[0]
    if not isinstance(node, (ast.ListComp, ast.GeneratorExp)) or len(node.generators) != 1:
        raise Untranslatable(f'not a single-generator comprehension: {ast.unparse(node)[:60]}')
    g = node.generators[0]
    if g.ifs:
        raise Untranslatable('comprehension with a filter')
    if isinstance(g.target, ast.Name):
        return node.elt, {g.target.id: ast.unparse(g.iter)}
    if isinstance(g.target, ast.Tuple) and isinstance(g.iter, ast.Call) and ast.unparse(g.iter.func) == 'zip' \
            and len(g.iter.args) == len(g.target.elts) and all(isinstance(t, ast.Name) for t in g.target.elts):
        return node.elt, {t.id: ast.unparse(a) for t, a in zip(g.target.elts, g.iter.args)}
    raise Untranslatable(f'comprehension shape: {ast.unparse(node)[:60]}')


def elementwise(node, elem_env, mode='int', funcs=None, scalars=None):
    """Lean term of the per-axis element of a comprehension.

    elem_env : dict  python text of a per-axis list (e.g. 'in_shape', 'img.shape') -> Lean term of its element
    scalars  : dict  names that are the same for every axis
    """
    elt, binds = comp_parts(node)
    env = dict(scalars or {})
    for name, src in binds.items():
        if src not in elem_env:
            raise Untranslatable(f'comprehension iterates over unknown list {src}')
        env[name] = elem_env[src]
    return Tr(env, mode, funcs).expr(elt)


class Gen:
    """accumulates the items of one Generated/<pid>.lean file"""

    def __init__(self, pid, imports=(), opens=(), header=''):
        self.pid = pid
        self.imports = list(imports)
        self.opens = list(opens)
        self.header = header
        self.chunks = []
        self.items = []

    def item(self, name, source, node_fn, build, fallback):
        """build() -> Lean text of the definition(s); on Untranslatable use `fallback` (Lean text that
        defers to the hand model) and record the reason.  node_fn() -> ast node whose hash is recorded."""
        rec = {'name': name, 'source': source}
        try:
            node = node_fn() if node_fn else None
            rec['sha'] = node_sha(node) if node is not None else None
            text = build()
            rec['status'] = 'ok'
        except Untranslatable as ex:
            text = fallback
            rec['status'] = 'untranslatable'
            rec['reason'] = str(ex)
        except (KeyError, IndexError, AttributeError, AssertionError, ValueError, TypeError) as ex:
            text = fallback
            rec['status'] = 'untranslatable'
            rec['reason'] = f'{type(ex).__name__}: {ex}'
        self.chunks.append(text.rstrip() + '\n')
        self.items.append(rec)

    def fact(self, name, source, check):
        """a structural (AST) fact, three-valued.  check() -> True  (recognised and right)   -> `def <name> : Bool := true`
                                                            False (recognised and WRONG)     -> `... := false` (the theorem fails)
                                                            None / raises Untranslatable or a lookup error (source shape not
                                                            recognised) -> `... := true`, item recorded as `untranslatable`
                                                            (tie degraded: the check widens its correspondence sweep)."""
        rec = {'name': name, 'source': source}
        try:
            ok = check()
            if ok is None:
                raise Untranslatable('shape not recognised')
            ok = bool(ok)
            rec['status'] = 'ok'
            rec['value'] = ok
        except (Untranslatable, KeyError, IndexError, AttributeError, AssertionError, ValueError, TypeError) as ex:
            ok = True
            rec['status'] = 'untranslatable'
            rec['value'] = None
            rec['reason'] = f'{type(ex).__name__}: {ex}'
        self.chunks.append(f'def {name} : Bool := {"true" if ok else "false"}\n')
        self.items.append(rec)

    def finish(self):
        out = ['-- GENERATED by tools/gen_%s.py from the current /repo working tree.  Do not edit.\n' % self.pid.lower()]
        for i in self.imports:
            out.append(f'import {i}\n')
        out.append(f'\nnamespace Generated.{self.pid}\n')
        for o in self.opens:
            out.append(f'open {o}\n')
        if self.header:
            out.append(self.header.rstrip() + '\n')
        out.append('\n')
        out.append('\n'.join(self.chunks))
        out.append(f'\nend Generated.{self.pid}\n')
        return ''.join(out), self.items
