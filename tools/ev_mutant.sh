#!/bin/bash
# usage: tools/ev_mutant.sh <Cxx> <diff> <demo.py> [tier]
# like try_mutant.sh, but in the evaluation worktree pair $EV/{verif,repo} (default /tmp/ev) so that /verif and /repo stay untouched:
# applies a seeded change to $EV/repo, runs the demo, the baseline suite and the check of $EV/verif with PRYSM_REPO=$EV/repo, then undoes it.
EV=${EV:-/tmp/ev}
pid=$1; diff=$(readlink -f "$2"); demo=$(readlink -f "$3"); tier=${4:-quick}
cd $EV/repo || exit 2
if [ -n "$(git status --porcelain)" ]; then echo "$EV/repo not clean"; exit 2; fi
( cd $EV/repo && PYTHONPATH=$EV/repo /venv/bin/python "$demo" >/dev/null 2>&1 ); echo "demo on clean tree: exit $?"
git apply "$diff" || { echo "patch does not apply"; exit 2; }
cd $EV/repo; PYTHONPATH=$EV/repo /venv/bin/python "$demo" > $EV/verif/.work/demo_$pid.log 2>&1; rc=$?; tail -3 $EV/verif/.work/demo_$pid.log; echo "demo with change: exit $rc"
if [ -z "$SKIP_BASELINE" ]; then /verif/tools/baseline.py $EV/repo | head -3; fi
cd $EV/verif; PRYSM_REPO=$EV/repo ./run "$pid" "$tier" > .work/mut_$pid.log 2>&1; rc=$?; tail -4 .work/mut_$pid.log; echo "check exit: $rc"
grep -h '^VIOLATION' .work/mut_$pid.log | head -1 | while read -r _ _ rp rest; do f=${rp#replay=}; [ -f "$f" ] && PRYSM_REPO=$EV/repo ./run --replay "$f" > .work/replay_$pid.log 2>&1; echo "replay on changed tree: exit $?"; done
git -C $EV/repo checkout -- . ; git -C $EV/repo status --porcelain
git -C $EV/verif checkout -- lean/PrysmVerif/Generated lean/PrysmVerif/Audit evidence 2>/dev/null
