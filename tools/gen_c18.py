"""translator items for C18 (segmented apertures, mask primitives): segmented.hex_dirs / add_hex / hex_dir /
hex_ring / hex_to_xy / _local_window / _composite_hexagonal_aperture (radii, ids, centre index, samples per
segment, union) / compose_opd (structure), geometry.circle / annulus / rectangle / rotated_ellipse / spider /
offset_circle / _generate_vertices.

Integer glue goes to Lean `Int` (omega-friendly, via pyexpr2lean.Tr); real-valued glue goes to a generic scalar
`K` with `w` standing for sqrt(3) and `c s` for cos/sin (via the typed translator of gen_c19); inequalities become
`Prop`s over `[LE K] [LT K]`.
"""
import ast
from fractions import Fraction
from pyexpr2lean import Gen, Tr, Untranslatable, load, get_def, get_const, find_returns, find_calls
from gen_c19 import VTr, run_block, lean_def, has, _n, prune, inline_helpers, symexec, subst, _body

M = 'Model.C18'
HEADER = ('set_option linter.unusedVariables false\nopen Model.C18\n')
KVARS = '{K : Type} [Add K] [Sub K] [Mul K] [Div K] [Neg K] [OfNat K 0] [OfNat K 1] [OfNat K 2] [OfNat K 3]'
PVARS = '{K : Type} [LE K] [LT K] [Add K] [Sub K] [Mul K] [Div K] [Neg K] [OfNat K 0] [OfNat K 1] [OfNat K 2]'


def hex_literal(call, tr=None):
    """`Hex(a, b, c)` -> `⟨a, b, c⟩`"""
    if not (isinstance(call, ast.Call) and ast.unparse(call.func) == 'Hex' and len(call.args) == 3):
        raise Untranslatable(f'not a Hex(...) literal: {ast.unparse(call)}')
    tr = tr or Tr({})
    return '⟨' + ', '.join(tr.expr(a) for a in call.args) + '⟩'


def prop(tr, e):
    """boolean array expression -> Prop over K"""
    key = ast.unparse(e)
    if key in tr.env and tr.env[key][1] == 'p':
        return tr.env[key][0]
    if isinstance(e, ast.BinOp) and isinstance(e.op, (ast.BitAnd, ast.BitOr)):
        sym = '∧' if isinstance(e.op, ast.BitAnd) else '∨'
        return f'({prop(tr, e.left)} {sym} {prop(tr, e.right)})'
    if isinstance(e, ast.UnaryOp) and isinstance(e.op, ast.Invert):
        return f'(¬ {prop(tr, e.operand)})'
    if isinstance(e, ast.Compare) and len(e.ops) == 1:
        sym = {ast.Lt: '<', ast.LtE: '≤', ast.Gt: '>', ast.GtE: '≥'}.get(type(e.ops[0]))
        if sym is None:
            raise Untranslatable(f'comparison {key}')
        (a, ta), (b, tb) = tr.expr(e.left), tr.expr(e.comparators[0])
        if ta == tb == 's':
            return f'({a} {sym} {b})'
    raise Untranslatable(f'boolean expression {key}')


class _Gen(Gen):
    """`VERIF_FORCE_FALLBACK=name1,name2|all` makes the named items untranslatable (testing aid for the fallback texts)"""

    def item(self, name, source, node_fn, build, fallback):
        import os
        forced = os.environ.get('VERIF_FORCE_FALLBACK', '').split(',')
        if name in forced or 'all' in forced:
            def build():      # noqa: F811
                raise Untranslatable('forced by VERIF_FORCE_FALLBACK')
        return super().item(name, source, node_fn, build, fallback)


def generate(repo):
    g = _Gen('C18', imports=['PrysmVerif.PyPrelude', 'PrysmVerif.Model.C18'], header=HEADER)
    sg, _ = load(repo, 'prysm/segmented.py')
    ge, _ = load(repo, 'prysm/geometry.py')

    # ---------------------------------------------------------------- hex_dirs, add_hex, hex_dir, hex_neighbor
    def dirs():
        lst = get_const(sg, 'hex_dirs')
        assert isinstance(lst, ast.List)
        return 'def hexDirs : List Hex := [' + ', '.join(hex_literal(c) for c in lst.elts) + ']'
    g.item('hex_dirs', 'prysm/segmented.py:hex_dirs', lambda: get_const(sg, 'hex_dirs'), dirs,
           f'def hexDirs : List Hex := {M}.hexDirs')

    def add_hex():
        fn = get_def(sg, 'add_hex')
        b = _body(fn)
        env = symexec(b[:-1])
        ret = subst(b[-1].value, env)
        assert isinstance(ret, ast.Call) and ast.unparse(ret.func) == 'Hex' and len(ret.args) == 3
        tr = Tr({f'{h}.{c}': f'{h}.{c}' for h in ('h1', 'h2') for c in 'qrs'})
        q, r, s_ = [tr.expr(a) for a in ret.args]
        return f'def hexAdd (h1 h2 : Hex) : Hex := ⟨{q}, {r}, {s_}⟩'
    g.item('add_hex', 'prysm/segmented.py:add_hex', lambda: get_def(sg, 'add_hex'), add_hex,
           f'def hexAdd (h1 h2 : Hex) : Hex := {M}.Hex.add h1 h2')

    def hex_dir():
        fn = get_def(sg, 'hex_dir')
        (ret,) = find_returns(fn)
        assert isinstance(ret, ast.Subscript) and ast.unparse(ret.value) == 'hex_dirs'
        idx = Tr({'i': 'i'}).expr(ret.slice)
        fn2 = get_def(sg, 'hex_neighbor')
        (r2,) = find_returns(fn2)
        assert ast.unparse(r2) == 'add_hex(h, hex_dir(direction))'
        return f'def hexDirIndex (i : Int) : Int := {idx}'
    g.item('hex_dir', 'prysm/segmented.py:hex_dir,hex_neighbor',
           lambda: ast.Module(body=[get_def(sg, 'hex_dir'), get_def(sg, 'hex_neighbor')], type_ignores=[]), hex_dir,
           'def hexDirIndex (i : Int) : Int := i % 6')

    # ---------------------------------------------------------------- hex_ring
    def hex_ring():
        fn = get_def(sg, 'hex_ring')
        body = _body(fn)
        loops = [st for st in body if isinstance(st, ast.For)]
        outer = loops[0]
        pre = symexec(body[:body.index(outer)])
        start = hex_literal(pre['tile'], Tr({'radius': 'radius'}))
        assert ast.unparse(pre['results']) == '[]'
        assert ast.unparse(outer.iter.func) == 'range' and len(outer.iter.args) == 1
        sides = outer.iter.args[0]
        assert isinstance(sides, ast.Constant) and isinstance(sides.value, int)
        ivar = outer.target.id
        (inner,) = outer.body
        assert isinstance(inner, ast.For) and ast.unparse(inner.iter.func) == 'range' and len(inner.iter.args) == 1
        inner_n = Tr({'radius': 'radius'}).expr(inner.iter.args[0])
        assert [ast.unparse(s_) for s_ in inner.body] == ['results.append(tile)', f'tile = hex_neighbor(tile, {ivar})']
        (ret,) = find_returns(fn)
        if len(loops) == 2:
            rollloop = loops[1]          # for _ in range(k): results.append(results.pop(0))
            assert ast.unparse(rollloop.iter.func) == 'range' and [ast.unparse(s_) for s_ in rollloop.body] == ['results.append(results.pop(0))']
            assert ast.unparse(ret) == 'results'
            roll_e = rollloop.iter.args[0]
        else:                            # results[k:] + results[:k]
            assert len(loops) == 1
            post = symexec(body[body.index(outer) + 1:-1])
            r_ = subst(ret, post)
            assert isinstance(r_, ast.BinOp) and isinstance(r_.op, ast.Add)
            lo, hi = r_.left, r_.right
            assert ast.unparse(lo.value) == 'results' and ast.unparse(hi.value) == 'results' and isinstance(lo.slice, ast.Slice) \
                and isinstance(hi.slice, ast.Slice) and lo.slice.upper is None and hi.slice.lower is None and lo.slice.step is None \
                and hi.slice.step is None and ast.dump(lo.slice.lower) == ast.dump(hi.slice.upper)
            roll_e = lo.slice.lower
        roll_n = Tr({'radius': 'radius'}).expr(roll_e)
        return (f'def hexRingStart (radius : Int) : Hex := {start}\n'
                f'def hexRingSides : Nat := {sides.value}\n'
                f'def hexRingSideLen (radius : Int) : Int := {inner_n}\n'
                f'def hexRingRoll (radius : Int) : Int := {roll_n}\n'
                'def hexRingDirs : List Hex := (List.range hexRingSides).map fun (i : Nat) => hexDirs.getD (hexDirIndex (i : Int)).toNat ⟨0, 0, 0⟩\n'
                'def hexRing (radius : Nat) : List Hex :=\n'
                '  roll (hexRingRoll (radius : Int)).toNat\n'
                '    (walkRing hexAdd hexRingDirs (hexRingSideLen (radius : Int)).toNat (hexRingStart (radius : Int)))')
    g.item('hex_ring', 'prysm/segmented.py:hex_ring', lambda: get_def(sg, 'hex_ring'), hex_ring,
           ('def hexRingStart (radius : Int) : Hex := ⟨-radius, radius, 0⟩\ndef hexRingSides : Nat := 6\n'
            'def hexRingSideLen (radius : Int) : Int := radius\ndef hexRingRoll (radius : Int) : Int := radius\n'
            f'def hexRingDirs : List Hex := {M}.hexDirs\n'
            f'def hexRing (radius : Nat) : List Hex := {M}.hexRing radius'))

    # ---------------------------------------------------------------- hex_to_xy
    def consts_env():
        f2v = get_const(sg, 'FLAT_TO_FLAT_TO_VERTEX_TO_VERTEX')
        v2f = get_const(sg, 'VERTEX_TO_VERTEX_TO_FLAT_TO_FLAT')
        tr = VTr({'truenp.sqrt(3)': ('w', 's')})
        a, _ = tr.expr(f2v)
        tr.env['FLAT_TO_FLAT_TO_VERTEX_TO_VERTEX'] = (a, 's')
        b, _ = tr.expr(v2f)
        return {'truenp.sqrt(3)': ('w', 's'), 'FLAT_TO_FLAT_TO_VERTEX_TO_VERTEX': (a, 's'),
                'VERTEX_TO_VERTEX_TO_FLAT_TO_FLAT': (b, 's')}

    def hex_to_xy():
        fn = get_def(sg, 'hex_to_xy')
        branch = [s for s in fn.body if isinstance(s, ast.If)][0]
        assert ast.unparse(branch.test) == 'rot == 90'
        (ret,) = find_returns(fn)
        out = []
        for name, stmts in (('center90', branch.body), ('center0', branch.orelse)):
            tr = VTr({**consts_env(), 'h.q': ('q', 's'), 'h.r': ('r', 's'), 'radius': ('radius', 's')})
            lets, _ = run_block(stmts, tr)
            assert isinstance(ret, ast.Tuple) and len(ret.elts) == 2
            x, y = tr.expr(ret.elts[0])[0], tr.expr(ret.elts[1])[0]
            out.append(lean_def(name, '(w radius q r : K)', 'K × K', lets, f'({x}, {y})', extra=KVARS + ' '))
        return '\n'.join(out)
    g.item('hex_to_xy', 'prysm/segmented.py:hex_to_xy', lambda: get_def(sg, 'hex_to_xy'), hex_to_xy,
           (f'def center90 {KVARS} (w radius q r : K) : K × K := {M}.center90 w radius q r\n'
            f'def center0 {KVARS} (w radius q r : K) : K × K := {M}.center0 w radius q r'))

    # ---------------------------------------------------------------- _local_window
    def local_window():
        fn = inline_helpers(get_def(sg, '_local_window'), sg)
        (ret,) = find_returns(fn)
        assert has(ast.unparse(ret), 'slice(offset_y, upper_y), slice(offset_x, upper_x)')
        out = []
        for ax, (cname, k, shp) in (('X', ('cx', 0, 'x.shape[1]')), ('Y', ('cy', 1, 'y.shape[0]'))):
            env = {cname: 'c', f'int(center[{k}] / dx)': 'ic', f'samples_per_seg[{k}]': 's', shp: 'n'}
            names = {f'offset_{ax.lower()}', f'upper_{ax.lower()}'}
            tr = Tr(env)
            lets = []
            for st in fn.body:
                if isinstance(st, ast.Assign) and isinstance(st.targets[0], ast.Name) and st.targets[0].id in names:
                    nm = st.targets[0].id
                    lets.append(f'let {nm}_ := {tr.expr(st.value)}')
                    tr.env[nm] = nm + '_'
                elif isinstance(st, ast.If) and not st.orelse and len(st.body) == 1 and isinstance(st.body[0], ast.Assign) \
                        and isinstance(st.body[0].targets[0], ast.Name) and st.body[0].targets[0].id in names:
                    nm = st.body[0].targets[0].id
                    if nm not in tr.env:
                        raise Untranslatable(f'{nm} clamped before it is assigned')
                    lets.append(f'let {nm}_ := if {tr.cond(st.test)} then {tr.expr(st.body[0].value)} else {nm}_')
                elif isinstance(st, ast.Assign) and len(st.targets) == 1 and isinstance(st.targets[0], ast.Name):
                    # a local alias (`ncols = x.shape[1]`): inlined where it is used; the clamp itself is emitted AS WRITTEN
                    # (`min(max(v, 0), n)` or the two ifs) and proved equal to the model clamp for all integers in gen_window
                    try:
                        tr.env[st.targets[0].id] = tr.expr(st.value)
                    except Untranslatable:
                        pass
            for nm, res in ((f'windowLo{ax}', f'offset_{ax.lower()}_'), (f'windowHi{ax}', f'upper_{ax.lower()}_')):
                out.append(lean_def(nm, '(c ic s n : Int)', 'Int', lets, res))
        # every other statement of the body must be the int -> tuple promotion of samples_per_seg
        rest = [s for s in fn.body if isinstance(s, ast.If) and ast.unparse(s.test) == 'isinstance(samples_per_seg, int)']
        assert len(rest) == 1 and ast.unparse(rest[0].body[0]) == 'samples_per_seg = (samples_per_seg, samples_per_seg)'
        return '\n'.join(out)
    g.item('_local_window', 'prysm/segmented.py:_local_window', lambda: get_def(sg, '_local_window'), local_window,
           '\n'.join(f'def window{lh}{ax} (c ic s n : Int) : Int := {M}.window{lh} c ic s n' for ax in 'XY' for lh in ('Lo', 'Hi')))

    # ---------------------------------------------------------------- _composite_hexagonal_aperture: radii, ids, indices
    def aperture():
        fn = get_def(sg, '_composite_hexagonal_aperture')
        src = ast.unparse(fn)
        tr = VTr({**consts_env(), 'segment_diameter': ('diameter', 's'), 'segment_separation': ('gap', 's')})
        want = ('segment_vtov', 'segment_separation', 'rseg')
        stmts = [s for s in fn.body if isinstance(s, ast.Assign) and isinstance(s.targets[0], ast.Name) and s.targets[0].id in want]
        assert [s.targets[0].id for s in stmts] == list(want)
        lets, _ = run_block(stmts, tr)
        (ch,) = find_calls(fn, 'hex_to_xy')
        assert ast.unparse(ch.args[0]) == 'h' and ast.unparse(ch.keywords[0].value) == 'segment_angle' and ch.keywords[0].arg == 'rot'
        pitch = tr.expr(ch.args[1])[0]
        polys = find_calls(fn, 'regular_polygon')
        assert len(polys) == 2 and all(ast.unparse(p.args[0]) == '6' and ast.unparse(p.args[1]) == 'rseg' for p in polys)
        assert has(ast.unparse(polys[1]), 'regular_polygon(6, rseg, xx, yy, center=center, rotation=segment_angle)')
        assert has(ast.unparse(polys[0]), 'regular_polygon(6, rseg, xx, yy, center=(0, 0), rotation=segment_angle)')
        out = [lean_def('circumradius', '(w diameter gap : K)', 'K', lets, tr.env['rseg'][0], extra=KVARS + ' '),
               lean_def('pitch', '(w diameter gap : K)', 'K', lets, pitch, extra=KVARS + ' ')]
        # samples per segment: int(rseg/dx + 1)
        assert has(src, 'samples_per_seg = rseg / dx', 'dx = x[0, 1] - x[0, 0]')
        sps = [s_ for s_ in fn.body if isinstance(s_, ast.Assign) and ast.unparse(s_.targets[0]) == 'samples_per_seg']
        assert len(sps) == 2 and ast.unparse(sps[0].value) == 'rseg / dx'
        out.append(f"def samplesPerSeg (rsegByDx : Rat) : Rat := {Tr({'samples_per_seg': 'rsegByDx'}, mode='rat').expr(sps[1].value)}")
        # centre index
        cxs = [s for s in fn.body if isinstance(s, ast.Assign) and ast.unparse(s.targets[0]) in ('cx', 'cy')]
        tx = Tr({'x.shape[1]': 'n', 'y.shape[0]': 'n'})
        cx, cy = tx.expr(cxs[0].value), tx.expr(cxs[1].value)
        assert ast.unparse(cxs[0].targets[0]) == 'cx' and 'x.shape[1]' in ast.unparse(cxs[0].value) and 'y.shape[0]' in ast.unparse(cxs[1].value)
        out.append(f'def centreIndexX (n : Int) : Int := {cx}')
        out.append(f'def centreIndexY (n : Int) : Int := {cy}')
        # ids
        loop = [s for s in fn.body if isinstance(s, ast.For)][0]
        assert ast.unparse(loop.iter) == 'range(1, rings + 1)' and ast.unparse(loop.body[0]) == f'hexes = hex_ring({loop.target.id})'
        ids = [s for s in loop.body if isinstance(s, ast.Assign) and ast.unparse(s.targets[0]) == 'ids'][0].value
        assert ast.unparse(ids.func) == 'np.arange'
        ti = Tr({'segment_id': 'prev', 'len(centers)': 'len'})
        out.append(f'def idsLo (prev len : Int) : Int := {ti.expr(ids.args[0])}')
        out.append(f'def idsHi (prev len : Int) : Int := {ti.expr(ids.args[1])}')
        assert ast.unparse(loop.body[-1]) == 'segment_id = ids[-1]' and has(src, 'segment_id = 0')
        return '\n'.join(out)
    g.item('_composite_hexagonal_aperture', 'prysm/segmented.py:_composite_hexagonal_aperture',
           lambda: get_def(sg, '_composite_hexagonal_aperture'), aperture,
           (f'def circumradius {KVARS} (w diameter gap : K) : K := {M}.circumradius w diameter\n'
            f'def pitch {KVARS} (w diameter gap : K) : K := {M}.pitch w diameter gap\n'
            'def samplesPerSeg (rsegByDx : Rat) : Rat := pyTruncRat (rsegByDx + (Model.C18.spsOffset : Rat))\n'
            'def centreIndexX (n : Int) : Int := pyCeilDiv n 2\ndef centreIndexY (n : Int) : Int := pyCeilDiv n 2\n'
            'def idsLo (prev len : Int) : Int := prev + 1\ndef idsHi (prev len : Int) : Int := prev + 1 + len'))

    def aperture_structure():
        fn = get_def(sg, '_composite_hexagonal_aperture')
        src = ast.unparse(fn)
        return True if has(src, 'mask = np.zeros(x.shape, dtype=bool)', 'mask[center_segment_window] |= center_mask',
                   'mask[local_window] |= local_mask', 'local_masks.append(local_mask)', 'windows.append(local_window)',
                   'local_window = _local_window(cy, cx, center, dx, samples_per_seg, x, y)',
                   'id_mask = ~np.isin(ids, exclude, assume_unique=True)', 'valid_ids = ids[id_mask]',
                   'centers = centers[id_mask]', 'for segment_id, center in zip(valid_ids, centers)',
                   'if 0 not in exclude', 'local_coords.append((xx - center[0], yy - center[1]))',
                   'return segment_vtov, all_centers, windows, local_coords, local_masks, segment_ids, mask') else None
    g.fact('hexMaskIsUnionOfLocalMasks', 'prysm/segmented.py:_composite_hexagonal_aperture', aperture_structure)

    def claim_step():
        """the tail of the per-segment loop, per sample: what is stored as the segment's local mask and what the aperture mask
        becomes, as Boolean functions of (aperture mask so far, polygon mask of this segment)"""
        fn = get_def(sg, '_composite_hexagonal_aperture')
        ring_loop = [s_ for s_ in fn.body if isinstance(s_, ast.For)][0]
        seg_loop = [s_ for s_ in ring_loop.body if isinstance(s_, ast.For)][0]
        body = list(seg_loop.body)
        k0 = [i for i, s_ in enumerate(body) if isinstance(s_, ast.Assign) and ast.unparse(s_.targets[0]) == 'local_mask'
              and 'regular_polygon' in ast.unparse(s_.value)][0]
        st8 = {'local_mask': 'm', 'mask[local_window]': 'prev'}
        stored = None

        def b(e):
            key = ast.unparse(e)
            if key in st8:
                return st8[key]
            if isinstance(e, ast.UnaryOp) and isinstance(e.op, ast.Invert):
                return f'(!{b(e.operand)})'
            if isinstance(e, ast.BinOp) and isinstance(e.op, (ast.BitAnd, ast.BitOr, ast.BitXor)):
                sym = {ast.BitAnd: '&&', ast.BitOr: '||', ast.BitXor: '!='}[type(e.op)]
                return f'({b(e.left)} {sym} {b(e.right)})'
            if isinstance(e, ast.Call) and ast.unparse(e.func) in ('np.logical_not',) and len(e.args) == 1:
                return f'(!{b(e.args[0])})'
            raise Untranslatable(f'mask expression {key}')
        for st in body[k0 + 1:]:
            txt = ast.unparse(st)
            if isinstance(st, ast.AugAssign) and ast.unparse(st.target) in st8 and isinstance(st.op, (ast.BitAnd, ast.BitOr)):
                sym = '&&' if isinstance(st.op, ast.BitAnd) else '||'
                st8[ast.unparse(st.target)] = f'({st8[ast.unparse(st.target)]} {sym} {b(st.value)})'
            elif isinstance(st, ast.Assign) and ast.unparse(st.targets[0]) in st8:
                st8[ast.unparse(st.targets[0])] = b(st.value)
            elif isinstance(st, ast.Expr) and txt.startswith('local_masks.append('):
                stored = b(st.value.args[0])
            elif 'local_mask' in txt.replace('local_masks', '') or 'mask[' in txt:
                raise Untranslatable(f'claim step: {txt}')
        if stored is None:
            raise Untranslatable('local mask never stored')
        return f"def claimStep (prev m : Bool) : Bool × Bool := ({stored}, {st8['mask[local_window]']})"
    g.item('hex_claim', 'prysm/segmented.py:_composite_hexagonal_aperture (local_mask / mask update)',
           lambda: get_def(sg, '_composite_hexagonal_aperture'), claim_step,
           f'def claimStep (prev m : Bool) : Bool × Bool := {M}.claimStep prev m')

    def compose_structure():
        ok = True
        for cls in ('CompositeHexagonalAperture', 'CompositeKeystoneAperture'):
            fn = get_def(sg, f'{cls}.compose_opd')
            loops = [s for s in fn.body if isinstance(s, ast.For)]
            returns_out = has(ast.unparse(fn), 'return out')
            if not loops:
                # the accumulation loop extracted into a module-level helper `return helper(out, windows, masks, bases, coefs)`:
                # bind the helper's parameters to the call's arguments and read the loop there
                ret = [s for s in fn.body if isinstance(s, ast.Return) and isinstance(s.value, ast.Call) and isinstance(s.value.func, ast.Name)][-1]
                helper = get_def(sg, ret.value.func.id)
                params = [a.arg for a in helper.args.args]
                mapping = dict(zip(params, ret.value.args))
                mapping.update({k.arg: k.value for k in ret.value.keywords})
                hb = [subst(s, mapping) for s in _body(helper)]
                loops = [s for s in hb if isinstance(s, ast.For)]
                returns_out = isinstance(hb[-1], ast.Return) and ast.unparse(hb[-1].value) == 'out' and ast.unparse(mapping['out']) == 'out' \
                    and all(isinstance(s, (ast.For, ast.Return)) for s in hb)
            loop = loops[0]
            ok = ok and [ast.unparse(s) for s in loop.body] == ['tile = sum_of_2d_modes(base, c)', 'tile *= mask', 'out[win] += tile']
            ok = ok and has(ast.unparse(fn), 'if out is None:\n    out = np.zeros_like(self.x)') and returns_out
            it = ast.unparse(loop.iter)
            ok = ok and (has(it, 'zip(self.windows, self.local_masks, self.opd_bases, coefs)')
                         or has(it, 'zip(self.segment_windows, self.segment_masks, self.opd_bases[1:], segment_coefs)'))
        fn = get_def(sg, 'CompositeKeystoneAperture.compose_opd')
        ok = ok and has(ast.unparse(fn), 'tile = sum_of_2d_modes(self.opd_bases[0], center_coefs)',
                        'out[self.center_window] += tile * self.center_mask')
        return True if ok else None
    g.fact('composeAccumulatesMaskedTiles', 'prysm/segmented.py:compose_opd', compose_structure)

    # ---------------------------------------------------------------- geometry primitives
    def prims():
        out = []
        fn = get_def(ge, 'circle')
        (ret,) = find_returns(fn)
        tr = VTr({'radius': ('radius', 's'), 'r': ('r', 's')})
        out.append(f'def circle {PVARS} (radius r : K) : Prop := {prop(tr, ret)}')
        fn = get_def(ge, 'annulus')
        tr = VTr({'rin': ('rin', 's'), 'rout': ('rout', 's'), 'r': ('r', 's')})
        b = _body(fn)
        ret = subst(b[-1].value, symexec(b[:-1]))
        out.append(f'def annulus {PVARS} (rin rout r : K) : Prop := {prop(tr, ret)}')
        fn = get_def(ge, 'rectangle')
        tr = VTr({'width': ('width', 's'), 'height': ('height', 's'), 'x': ('x', 's'), 'y': ('y', 's')})
        for st in fn.body:
            if isinstance(st, ast.Assign) and isinstance(st.targets[0], ast.Name) and st.targets[0].id in ('w_mask', 'h_mask'):
                tr.env[st.targets[0].id] = (prop(tr, st.value), 'p')
        (ret,) = find_returns(fn)
        out.append(f'def rectangle {PVARS} (width height x y : K) : Prop := {prop(tr, ret)}')
        fn = get_def(ge, 'rotated_ellipse')
        src = ast.unparse(fn)
        assert has(src, 'arr = np.ones_like(x)', 'A = np.radians(-major_axis_angle)', 'a, b = width_major, width_minor', 'return arr')
        tr = VTr({'a': ('a', 's'), 'b': ('b', 's'), 'np.cos(A)': ('c', 's'), 'np.sin(A)': ('s', 's'), 'x': ('x', 's'), 'y': ('y', 's')})
        stmts = [s for s in fn.body if isinstance(s, ast.Assign) and isinstance(s.targets[0], ast.Name)
                 and s.targets[0].id in ('major_axis_term', 'minor_axis_term')]
        lets, _ = run_block(stmts, tr)
        zero = [s for s in fn.body if isinstance(s, ast.Assign) and isinstance(s.targets[0], ast.Subscript)][0]
        assert ast.unparse(zero.targets[0].value) == 'arr' and ast.unparse(zero.value) == '0'
        outside = prop(tr, zero.targets[0].slice)
        out.append(lean_def('ellipse', '(a b c s x y : K)', 'Prop', lets, f'(¬ {outside})', extra=PVARS + ' '))
        fn = get_def(ge, 'spider')
        src = ast.unparse(fn)
        assert has(src, 'width = width / 2', 'rotation = np.radians(360 / vanes)', 'for multiple in range(vanes)',
                   'offset = rotation * multiple', 'xxx, yyy = polar_to_cart(r, pp)', 'return ~mask',
                   'r, p = cart_to_polar(x - x0, y - y0)', 'p = p - rotation')
        tr = VTr({'width': ('width', 's'), 'xxx': ('x', 's'), 'yyy': ('y', 's')})
        wst = [s for s in fn.body if isinstance(s, ast.Assign) and ast.unparse(s.targets[0]) == 'width'][0]
        lets, _ = run_block([wst], tr)
        loop = [s for s in fn.body if isinstance(s, ast.For)][0]
        # what is OR-ed into `mask` per vane, whether through a temporary or directly
        acc = symexec(loop.body).get('mask')
        assert isinstance(acc, ast.BinOp) and isinstance(acc.op, ast.BitOr) and ast.unparse(acc.left) == 'mask'
        vane_ast = acc.right
        out.append(lean_def('vane', '(absK : K → K) (width x y : K)', 'Prop', lets, prop(tr, vane_ast), extra=PVARS + ' '))
        return '\n'.join(out)
    g.item('geometry.primitives', 'prysm/geometry.py:circle,annulus,rectangle,rotated_ellipse,spider',
           lambda: ast.Module(body=[get_def(ge, n) for n in ('circle', 'annulus', 'rectangle', 'rotated_ellipse', 'spider')], type_ignores=[]),
           prims,
           (f'def circle {PVARS} (radius r : K) : Prop := {M}.circle radius r\n'
            f'def annulus {PVARS} (rin rout r : K) : Prop := {M}.annulus rin rout r\n'
            f'def rectangle {PVARS} (width height x y : K) : Prop := {M}.rectangle width height x y\n'
            f'def ellipse {PVARS} (a b c s x y : K) : Prop := {M}.ellipse a b c s x y\n'
            f'def vane {PVARS} (absK : K → K) (width x y : K) : Prop := {M}.vane absK width x y'))

    def keystone():
        fn = get_def(sg, '_composite_keystone_aperture')
        src = ast.unparse(fn)
        assert has(src, 'center_radius = center_circle_diameter / 2', 'center_mask = circle(center_radius, center_rr)',
                   'outer_radius = center_radius', 'arc_per_seg = 360 / nsegments',
                   'segment_angles = np.arange(nsegments, dtype=float) * arc_per_seg + rotation',
                   'inner_include = circle(inner_radius, rr)', 'outer_exclude = circle(outer_radius, rr)',
                   'mask = arc & ang_mask', 'primary_mask[window] |= mask', 'lo = angle',
                   'primary_mask &= ~all_spiders')
        loop = [s_ for s_ in fn.body if isinstance(s_, ast.For)][0]
        rad = [s_ for s_ in loop.body if isinstance(s_, ast.Assign) and ast.unparse(s_.targets[0]) in ('inner_radius', 'outer_radius')]
        assert [ast.unparse(s_.targets[0]) for s_ in rad] == ['inner_radius', 'outer_radius']
        tr = VTr({'outer_radius': ('outerPrev', 's'), 'gap': ('gap', 's')})
        inner = tr.expr(rad[0].value)[0]
        tr = VTr({'inner_radius': ('inner', 's'), 'local_radius': ('width', 's')})
        outer = tr.expr(rad[1].value)[0]
        inner_loop = [s_ for s_ in loop.body if isinstance(s_, ast.For)][0]
        arc = [s_ for s_ in inner_loop.body if isinstance(s_, ast.Assign) and ast.unparse(s_.targets[0]) == 'arc'][0].value
        assert isinstance(arc, ast.BinOp) and isinstance(arc.op, ast.BitXor)
        env = {'inner_include': ('(r ≤ rin)', 'p'), 'outer_exclude': ('(r ≤ rout)', 'p')}
        a, b = env[ast.unparse(arc.left)][0], env[ast.unparse(arc.right)][0]
        xor = f'(({a} ∧ ¬ {b}) ∨ (¬ {a} ∧ {b}))'
        ang = [s_ for s_ in inner_loop.body if isinstance(s_, ast.Assign) and ast.unparse(s_.targets[0]) == 'ang_mask'][0].value
        trp = VTr({'tt': ('t', 's'), 'lo': ('lo', 's'), 'hi': ('hi', 's')})
        angp = prop(trp, ang)
        # the wrap-around branches that follow `ang_mask = ...`:  if c1: ang_mask |= X  elif c2: <assignments>; ang_mask = Y
        # (constants hoisted to the top of the function -- two_pi = 2*np.pi -- are inlined first)
        consts = {}
        for st in fn.body:
            if isinstance(st, ast.Assign) and len(st.targets) == 1 and isinstance(st.targets[0], ast.Name):
                v = subst(st.value, consts)
                if all(isinstance(n_, (ast.Constant, ast.BinOp, ast.UnaryOp, ast.operator, ast.unaryop, ast.Load, ast.Attribute, ast.Name))
                       and (not isinstance(n_, ast.Name) or n_.id in ('np', 'math')) and (not isinstance(n_, ast.Attribute) or n_.attr == 'pi')
                       for n_ in ast.walk(v)):
                    consts[st.targets[0].id] = v
        body = [subst(s_, consts) for s_ in inner_loop.body]
        k_ang = [i for i, s_ in enumerate(body) if isinstance(s_, ast.Assign) and ast.unparse(s_.targets[0]) == 'ang_mask'][0]
        k_msk = [i for i, s_ in enumerate(body) if isinstance(s_, ast.Assign) and ast.unparse(s_.targets[0]) == 'mask'][0]
        between = body[k_ang + 1:k_msk]
        trw = VTr({'tt': ('t', 's'), 'lo': ('lo', 's'), 'hi': ('hi', 's'), 'np.pi': ('pi', 's'), 'math.pi': ('pi', 's')})

        def branch(stmts):
            """ang_mask after a straight-line branch body, as a Prop in (lo, hi, t, pi)"""
            names, cur = {}, None
            for st in stmts:
                if isinstance(st, ast.AugAssign) and ast.unparse(st.target) == 'ang_mask' and isinstance(st.op, (ast.BitOr, ast.BitAnd)):
                    sym = '∨' if isinstance(st.op, ast.BitOr) else '∧'
                    cur = f'({cur or angp} {sym} {prop(trw, subst(st.value, names))})'
                elif isinstance(st, ast.Assign) and ast.unparse(st.targets[0]) == 'ang_mask':
                    cur = prop(trw, subst(st.value, names))
                elif isinstance(st, ast.Assign) and isinstance(st.targets[0], ast.Name):
                    names[st.targets[0].id] = subst(st.value, names)
                elif isinstance(st, ast.Assign) and ast.unparse(st.targets[0]) in ('lo, hi', '(lo, hi)'):
                    pass      # rebinding AFTER the mask is formed: only feeds the edge coordinates stored for the OPD bases
                else:
                    raise Untranslatable(f'keystone wrap branch: {ast.unparse(st)}')
                if cur is None and isinstance(st, ast.Assign) and ast.unparse(st.targets[0]) in ('lo, hi', '(lo, hi)'):
                    raise Untranslatable('lo, hi rebound before the angular mask of the branch')
            return cur or angp

        def chain(stmts):
            if not stmts:
                return angp
            if len(stmts) != 1 or not isinstance(stmts[0], ast.If):
                raise Untranslatable('keystone wrap: expected one if/elif chain between ang_mask and mask')
            node = stmts[0]
            c = prop(trw, node.test)
            return f'(({c} ∧ {branch(node.body)}) ∨ (¬ {c} ∧ {chain(node.orelse)}))'
        wrap = chain(between)
        # where the arc starts: `lo = angle`, whole turns taken off / added by while loops, then `hi = lo + arc_rad`
        pre = body[:k_ang]
        down = up = None
        hi_expr, hi_touched, lo_seen = None, False, False
        trl = VTr({'lo': ('lo', 's'), 'np.pi': ('pi', 's'), 'math.pi': ('pi', 's'), 'angle': ('angle', 's'), 'arc_rad': ('arc', 's')})
        for st in pre:
            txt = ast.unparse(st)
            if isinstance(st, ast.Assign) and txt == 'lo = angle':
                lo_seen = True
            elif isinstance(st, ast.While) and lo_seen and 'lo' in {n_.id for n_ in ast.walk(st.test) if isinstance(n_, ast.Name)} \
                    and 'hi' not in {n_.id for n_ in ast.walk(st) if isinstance(n_, ast.Name)}:
                if len(st.body) != 1 or not isinstance(st.body[0], (ast.Assign, ast.AugAssign)):
                    raise Untranslatable(f'keystone start loop: {txt}')
                b0 = st.body[0]
                val = b0.value if isinstance(b0, ast.Assign) else ast.BinOp(left=ast.Name(id='lo', ctx=ast.Load()), op=b0.op, right=b0.value)
                tgt = ast.unparse(b0.targets[0] if isinstance(b0, ast.Assign) else b0.target)
                if tgt != 'lo':
                    raise Untranslatable(f'keystone start loop: {txt}')
                if hi_expr is not None:
                    hi_touched = True     # lo moves after hi was formed
                    continue
                pair = (prop(trl, st.test), trl.expr(ast.fix_missing_locations(val))[0])
                if isinstance(val, ast.BinOp) and isinstance(val.op, ast.Sub) and down is None:
                    down = pair
                elif isinstance(val, ast.BinOp) and isinstance(val.op, ast.Add) and up is None:
                    up = pair
                else:
                    raise Untranslatable(f'keystone start loop: {txt}')
            elif isinstance(st, ast.Assign) and ast.unparse(st.targets[0]) == 'hi' and hi_expr is None:
                hi_expr = trl.expr(st.value)[0]
            elif lo_seen and {n_.id for n_ in ast.walk(st) if isinstance(n_, ast.Name) and isinstance(n_.ctx, ast.Store)} & {'lo', 'hi'}:
                hi_touched = True        # a loop, a swap or a reassignment that moves hi away from lo + arc
        if hi_expr is None or not lo_seen:
            raise Untranslatable('keystone: lo / hi assignments not found')
        down = down or ('False', 'lo')
        up = up or ('False', 'lo')
        KV = '{K : Type} [Add K] [Sub K] [Mul K] [Div K] [Neg K] [OfNat K 0] [OfNat K 1] [OfNat K 2]'
        start = (f'def keyLoDownCond {PVARS} (pi lo : K) : Prop := {down[0]}\n'
                 f'def keyLoDownStep {KV} (pi lo : K) : K := {down[1]}\n'
                 f'def keyLoUpCond {PVARS} (pi lo : K) : Prop := {up[0]}\n'
                 f'def keyLoUpStep {KV} (pi lo : K) : K := {up[1]}\n'
                 f'def keyHi {KV} (angle lo arc : K) : K := {hi_expr}\n'
                 f'def keyHiUntouched : Bool := {"false" if hi_touched else "true"}')
        # the start angle of keystone k of a ring and the arc, from the statements of the ring loop in front of the segment loop:
        # arc_per_seg = 360 / nsegments; arc_rad = np.radians(arc_per_seg); [rotation = arc_per_seg if None];
        # segment_angles = np.arange(nsegments) * arc_per_seg + rotation; segment_angles = np.radians(segment_angles) - np.pi
        rad_f = {nm: (lambda a, kw: (f'(rad {a[0][0]})', 's')) for nm in ('np.radians', 'np.deg2rad', 'truenp.radians', 'math.radians')}
        tra = VTr({'nsegments': ('nseg', 's'), 'rotation': ('rot', 's'), 'np.pi': ('pi', 's'), 'math.pi': ('pi', 's')}, funcs=rad_f)
        tra.env['deg360__'] = ('(360 : K)', 's')

        class _C360(ast.NodeTransformer):
            def visit_Constant(self, node):
                return ast.copy_location(ast.Name(id='deg360__', ctx=ast.Load()), node) if node.value == 360 and not isinstance(node.value, bool) else node
        default_rot = None
        k_inner = [i for i, s_ in enumerate(loop.body) if s_ is inner_loop][0]
        if ast.unparse(inner_loop.iter) != 'segment_angles' or ast.unparse(inner_loop.target) != 'angle':
            raise Untranslatable('keystone: segment loop does not run over segment_angles')
        for st in [ast.fix_missing_locations(_C360().visit(subst(s_, consts))) for s_ in loop.body[:k_inner]]:
            txt = ast.unparse(st)
            if isinstance(st, ast.If) and _n(ast.unparse(st.test)) == _n('rotation is None') and len(st.body) == 1 and not st.orelse \
                    and isinstance(st.body[0], ast.Assign) and ast.unparse(st.body[0].targets[0]) == 'rotation':
                default_rot = VTr(dict(tra.env), funcs=rad_f).expr(st.body[0].value)[0]
            elif isinstance(st, ast.Assign) and len(st.targets) == 1 and isinstance(st.targets[0], ast.Name):
                nm = st.targets[0].id
                if nm in ('inner_radius', 'outer_radius'):
                    continue
                val = st.value
                # np.arange(nsegments, dtype=float) is the index k of the keystone, per element
                val = ast.parse(ast.unparse(val).replace('np.arange(nsegments, dtype=float)', 'k__').replace('np.arange(nsegments)', 'k__'), mode='eval').body
                tra.env['k__'] = ('k', 's')
                tra.env[nm] = tra.expr(val)
            else:
                raise Untranslatable(f'keystone ring loop: {txt[:60]}')
        if default_rot is None or 'segment_angles' not in tra.env or 'arc_rad' not in tra.env:
            raise Untranslatable('keystone: start angles / arc / default rotation not found')
        KV2 = '{K : Type} [Add K] [Sub K] [Mul K] [Div K] [Neg K] [OfNat K 0] [OfNat K 1] [OfNat K 2]'
        lit360 = lambda t: t      # noqa: E731
        angles = (f'def keyAngle {KV2} [OfNat K 360] (rad : K → K) (pi k nseg rot : K) : K := {tra.env["segment_angles"][0]}\n'
                  f'def keyArc {KV2} [OfNat K 360] (rad : K → K) (nseg : K) : K := {tra.env["arc_rad"][0]}\n'
                  f'def keyDefaultRot {KV2} [OfNat K 360] (nseg : K) : K := {default_rot}')
        return (f'def keyInner {{K : Type}} [Add K] (outerPrev gap : K) : K := {inner}\n'
                f'def keyOuter {{K : Type}} [Add K] (inner width : K) : K := {outer}\n'
                f'def keySector {PVARS} (rin rout lo hi r t : K) : Prop := ({xor} ∧ {angp})\n'
                f'def keyAng {PVARS} (pi lo hi t : K) : Prop := {wrap}\n' + start + '\n' + angles)
    g.item('keystone', 'prysm/segmented.py:_composite_keystone_aperture',
           lambda: get_def(sg, '_composite_keystone_aperture'), keystone,
           (f'def keyInner {{K : Type}} [Add K] (outerPrev gap : K) : K := {M}.keyInner outerPrev gap\n'
            f'def keyOuter {{K : Type}} [Add K] (inner width : K) : K := {M}.keyOuter inner width\n'
            f'def keySector {PVARS} (rin rout lo hi r t : K) : Prop := {M}.keySector rin rout lo hi r t\n'
            f'def keyAng {PVARS} (pi lo hi t : K) : Prop := {M}.keyAng pi lo hi t\n'
            f'def keyLoDownCond {PVARS} (pi lo : K) : Prop := lo > pi\n'
            'def keyLoDownStep {K : Type} [Add K] [Sub K] [Mul K] [Div K] [Neg K] [OfNat K 0] [OfNat K 1] [OfNat K 2] (pi lo : K) : K := lo - 2 * pi\n'
            f'def keyLoUpCond {PVARS} (pi lo : K) : Prop := lo < -pi\n'
            'def keyLoUpStep {K : Type} [Add K] [Sub K] [Mul K] [Div K] [Neg K] [OfNat K 0] [OfNat K 1] [OfNat K 2] (pi lo : K) : K := lo + 2 * pi\n'
            'def keyHi {K : Type} [Add K] [Sub K] [Mul K] [Div K] [Neg K] [OfNat K 0] [OfNat K 1] [OfNat K 2] (angle lo arc : K) : K := lo + arc\n'
            'def keyHiUntouched : Bool := true\n'
            'def keyAngle {K : Type} [Add K] [Sub K] [Mul K] [Div K] [Neg K] [OfNat K 0] [OfNat K 1] [OfNat K 2] [OfNat K 360] (rad : K → K) (pi k nseg rot : K) : K := Model.C18.keyAngle rad pi k nseg rot\n'
            'def keyArc {K : Type} [Add K] [Sub K] [Mul K] [Div K] [Neg K] [OfNat K 0] [OfNat K 1] [OfNat K 2] [OfNat K 360] (rad : K → K) (nseg : K) : K := Model.C18.keyArc rad nseg\n'
            'def keyDefaultRot {K : Type} [Add K] [Sub K] [Mul K] [Div K] [Neg K] [OfNat K 0] [OfNat K 1] [OfNat K 2] [OfNat K 360] (nseg : K) : K := Model.C18.keyDefaultRot nseg'))

    def rect_branches():
        fn = get_def(ge, 'rectangle')
        src = ast.unparse(fn)
        if not has(src, 'if angle != 0:\n    if angle == 90:\n        x, y = y, x', 'if height is None:\n    height = width',
                   'x, y = polar_to_cart(r, p)'):
            return None
        if has(src, 'p -= p_adj'):
            return False
        return True if (has(src, 'p += p_adj') and (has(src, 'p_adj = np.radians(angle)') or has(src, 'p_adj = np.deg2rad(angle)'))) else None
    g.fact('rectangleRotatesCoordinates', 'prysm/geometry.py:rectangle', rect_branches)

    def offset_circle():
        fn = get_def(ge, 'offset_circle')
        return True if has(ast.unparse(fn), 'x = x - center[0]', 'y = y - center[1]', 'r = np.hypot(x, y)', 'return circle(radius, r)') else None
    g.fact('offsetCircleIsCircleOfShiftedRadius', 'prysm/geometry.py:offset_circle', offset_circle)

    # ---------------------------------------------------------------- polygon vertices of the hexagon, both orientations
    def vertices():
        fn = get_def(ge, '_generate_vertices')
        b = _body(fn)
        env = symexec(b[:-1])
        ret = subst(b[-1].value, env)
        assert isinstance(ret, ast.Call) and ast.unparse(ret.func) in ('truenp.stack', 'np.stack') and _n(ast.unparse(ret.keywords[0].value)) == '1'
        vx, vy = ret.args[0].elts
        ang = 'truenp.arange(sides, dtype=config.precision) * (2 * truenp.pi / sides) + truenp.radians(rotation)'
        assert _n(ast.unparse(vx)) == _n(f'radius * truenp.sin({ang}) + x0') and _n(ast.unparse(vy)) == _n(f'radius * truenp.cos({ang}) + y0')
        assert has(ast.unparse(fn), 'x0, y0 = center')
        fn2 = get_def(ge, 'regular_polygon')
        assert has(ast.unparse(fn2), 'verts = _generate_vertices(sides, radius, center, rotation)', 'return _generate_mask(verts, x, y)')
        # exact sin / cos at multiples of 30 degrees, in Q(w), w = sqrt 3
        cos30 = ['(1 : K)', '(w / 2)', '((1 : K) / 2)', '(0 : K)', '(-((1 : K) / 2))', '(-(w / 2))',
                 '(-(1 : K))', '(-(w / 2))', '(-((1 : K) / 2))', '(0 : K)', '((1 : K) / 2)', '(w / 2)']
        out = []
        for rot in (90, 0):
            cells = []
            for k in range(6):
                m = ((k * 60 + rot) // 30) % 12
                s_, c_ = cos30[(m - 3) % 12], cos30[m]
                cells.append(f'(radius * {s_} + x0, radius * {c_} + y0)')
            out.append(f'def hexVertices{rot} {KVARS} (w radius x0 y0 : K) : List (K × K) :=\n  [' + ',\n   '.join(cells) + ']')
        return '\n'.join(out)
    g.item('_generate_vertices', 'prysm/geometry.py:_generate_vertices,regular_polygon',
           lambda: ast.Module(body=[get_def(ge, '_generate_vertices'), get_def(ge, 'regular_polygon')], type_ignores=[]),
           vertices,
           (f'def hexVertices90 {KVARS} (w radius x0 y0 : K) : List (K × K) := {M}.hexVertices90 w radius x0 y0\n'
            f'def hexVertices0 {KVARS} (w radius x0 y0 : K) : List (K × K) := {M}.hexVertices0 w radius x0 y0'))

    return g.finish()


if __name__ == '__main__':
    import sys
    text, items = generate(sys.argv[1] if len(sys.argv) > 1 else '/repo')
    print(text)
    for it in items:
        print('--', it)
