#!/bin/bash
# apply every kept seeded change to /repo in turn, run its property's quick check, expect exit 1; restore
cd /verif
if [ -n "$(git -C /repo status --porcelain)" ]; then echo "/repo not clean"; exit 2; fi
for d in seeded/*/; do
  id=$(basename $d); pid=$(python3 -c "import json; print(json.load(open('$d/meta.json'))['property'])")
  [ -n "$1" ] && [[ "$id" != $1* ]] && continue
  if python3 -c "import json,sys; sys.exit(0 if json.load(open('$d/meta.json')).get('retired') else 1)"; then echo "$id: retired (see meta.json)"; continue; fi
  git -C /repo apply /verif/$d/patch.diff 2>/dev/null || { echo "$id: patch does not apply (source moved on)"; continue; }
  ./run $pid quick > .work/seed_$id.log 2>&1; rc=$?
  git -C /repo checkout -- .
  echo "$id ($pid): check exit $rc $(grep '^VIOLATION' .work/seed_$id.log | head -1)"
done
# the runs above rewrote Generated/ Audit/ evidence/ from mutated trees: restore the committed (clean-tree) copies
git checkout -- lean/PrysmVerif/Generated lean/PrysmVerif/Audit evidence 2>/dev/null
echo "restored Generated/Audit/evidence from git"
