#!/usr/bin/env python3
"""round-6 prompt for an independent mutation-seeding sub-agent handling several properties (gets ONLY the property texts and a scratch worktree)
usage: tools/mut_prompt6.py <worktree> <k-per-property> <Cxx> [<Cxx> ...]"""
import json, sys
wt, k, pids = sys.argv[1], sys.argv[2], sys.argv[3:]
P = {json.loads(l)['id']: json.loads(l) for l in open('/verif/properties.jsonl')}
blocks = []
for pid in pids:
    p = P[pid]
    blocks.append(f"""id: {p['id']}
title: {p['title']}
statement: {p['statement']}
quantifier: {p['quantifier']['text']}
anchors (where the mechanism lives): {json.dumps(p['anchors'].get('mechanism', []))}
observe at: {json.dumps(p['anchors'].get('observe_at', []))}""")
print(f"""You are testing a verification effort by seeding realistic bugs.  You have your own scratch git worktree of the
Python library prysm (numerical optics) at {wt} .  Work ONLY inside {wt} and {wt}_out (do not read or write /verif or /repo;
do not look for any verification machinery — your changes must be independent of it).  Python is /venv/bin/python
(prysm's dependencies are installed; run things with `cd {wt} && /venv/bin/python ...` so that `import prysm`
picks up your worktree — check `prysm.__file__`).  The test suite is run with
`cd {wt} && /venv/bin/python -m pytest -q -p no:cacheprovider --timeout=900 --continue-on-collection-errors -q tests prysm 2>&1 | tail -40`
(about 30 tests fail on the untouched tree because they need a network download or numpy.trapz; ignore exactly those:
run the suite once BEFORE changing anything and save the sorted list of failing test ids; it takes ~15 s).  Never use `git stash`.

The semantic properties under study ({len(pids)} of them):

""" + "\n\n".join(blocks) + f"""

Task: for EACH property above produce {k} DIFFERENT changes to prysm's source, each of which (a) breaks that property, (b) still imports
and passes the existing test suite exactly as before (same set of failing tests as the untouched tree), and (c) needs something
specific to manifest — a particular interleaving or order of calls, a multi-step sequence of operations, state carried between calls
(caches, in-place mutation of an argument or attribute), an unusual but legitimate input (parity / non-square shape / dtype / memory
layout / container type / boundary value / parameter combination), or two cooperating sites that each look fine alone — NOT something
ordinary use would expose at once.  Make them realistic (the kind of slip a maintainer could make in a refactor, a vectorisation or an
"optimisation"), small, and different in kind from one another (different functions or different mechanisms).  Prefer functions and
branches of the anchor files that look LEAST likely to be exercised by routine checks (rarely used keyword arguments, secondary entry
points, consumers of the anchored routines, special-case branches, the second of two code paths that should agree).  Do not merely
revert a recent commit of the repository's history.

For each property Cxx and each change i = 1..{k} deliver, under {wt}_out/ (create it):
  Cxx_m<i>.diff      `git diff` of the change against HEAD (one change per diff; reset the worktree between changes with
                     `git checkout -- .`)
  Cxx_m<i>_demo.py   a small standalone program that exits 0 on the untouched tree and exits 1 (printing what is wrong) with
                     the change applied, demonstrating the violation of the property through prysm's public API (it must import prysm
                     from the current working directory: it will be run as `cd <some checkout> && /venv/bin/python <path>/Cxx_m<i>_demo.py`)
  Cxx_m<i>.json      {{"property": "Cxx", "what": "<one sentence>", "needs": "<what it takes to manifest>", "files": [...]}}
Verify each yourself: demo passes without the change, fails with it, test-suite result identical with it.
Leave the worktree clean (git checkout -- .) when done.  Final message: one line per change.""")
