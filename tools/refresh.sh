#!/bin/bash
# Re-run every check (quick) on the clean /repo and verify that what would be committed is clean-tree output:
#   - /repo has no uncommitted change, every check exits 0, every evidence file says violations=0 and repo=/repo
cd "$(dirname "$0")/.." || exit 2
if [ -n "$(git -C /repo status --porcelain)" ]; then echo "REFRESH: /repo is not clean"; exit 1; fi
unset PRYSM_REPO
tools/run_all.sh quick | tee .work/refresh.log
bad=$(grep -v ' rc=0 ' .work/refresh.log | wc -l)
/venv/bin/python - <<'PY'
import glob, json, sys
bad = 0
for f in sorted(glob.glob('evidence/C*.json')):
    e = json.load(open(f))
    if e.get('violations') or e['coverage'].get('repo') != '/repo' or e['coverage']['discharged'] != e['coverage']['obligations']:
        print('REFRESH: stale/dirty evidence', f, e.get('violations'), e['coverage'].get('repo')); bad += 1
sys.exit(1 if bad else 0)
PY
ev=$?
deg=$(grep -h "^TIE-DEGRADED" .work/all_*.log | wc -l)
if [ "$deg" != "0" ]; then echo "REFRESH: WARNING degraded translator tie on the clean tree:"; grep -h "^TIE-DEGRADED" .work/all_*.log | cut -c1-200; fi
if [ "$bad" != "0" ] || [ "$ev" != "0" ]; then echo "REFRESH: NOT CLEAN"; exit 1; fi
echo "REFRESH: all checks green on the clean tree; evidence is clean-tree evidence"
