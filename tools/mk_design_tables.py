#!/usr/bin/env python3
"""regenerate the generated tables of DESIGN.md (between <!-- BEGIN GENERATED:x --> / <!-- END GENERATED:x --> markers)
from evidence/*.json, KNOWN_FINDINGS.txt and seeded/*/meta.json"""
import glob, json, os, re
R = os.path.dirname(os.path.dirname(os.path.abspath(__file__)))
props = [json.loads(l) for l in open(f'{R}/properties.jsonl')]

def status():
    rows = ['| id | title | theorems (proved/stated) | translated items | quick cases (distinct) | quick s |', '|---|---|---|---|---|---|']
    for p in props:
        f = f'{R}/evidence/{p["id"]}.json'
        if not os.path.exists(f):
            rows.append(f'| {p["id"]} | {p["title"]} | – | – | – | – |'); continue
        e = json.load(open(f)); c = e['coverage']
        items = c['translator']['items']; bad = [i['name'] for i in items if i.get('status') != 'ok']
        rows.append(f'| {p["id"]} | {p["title"]} | {c["discharged"]}/{c["obligations"]} | {len(items)}' + (f' ({len(bad)} untranslatable)' if bad else '') +
                    f' | {c["evaluations"]} ({c["distinct_nontrivial"]}) | {e["wall_s"]} |')
    return '\n'.join(rows)

def findings():
    rows = ['| property | commit in /repo | what failed |', '|---|---|---|']
    known = ['| property | key | what fails |', '|---|---|---|']
    for line in open(f'{R}/KNOWN_FINDINGS.txt'):
        m = re.match(r'fixed:\s+property=(\S+)\s+(\S+)\s+(.*)', line.strip())
        if m: rows.append(f'| {m.group(1)} | `{m.group(2)}` | {m.group(3)} |')
        m = re.match(r'known:\s+property=(\S+)\s+key=(\S+)\s+(.*)', line.strip())
        if m: known.append(f'| {m.group(1)} | `{m.group(2)}` | {m.group(3)} |')
    return '**Repaired (`fix:` commits, each with the unedited suite at 795/795):**\n\n' + '\n'.join(rows) + '\n\n**Known findings (not repaired):**\n\n' + '\n'.join(known)

def seeded():
    rows = ['| seeded change | property | what it does / what it needs | outcome |', '|---|---|---|---|']
    for d in sorted(glob.glob(f'{R}/seeded/*/meta.json')):
        m = json.load(open(d)); sid = os.path.basename(os.path.dirname(d))
        rows.append(f'| {sid} | {m["property"]} | {m.get("what","")} — needs: {m.get("needs_to_manifest","")} | {m.get("check_result","")} |'.replace('\n', ' '))
    return '\n'.join(rows)

def benign():
    rows = ['| refactor | property | kind | what | first run | now |', '|---|---|---|---|---|---|']
    for d in sorted(glob.glob(f'{R}/benign/*/meta.json')):
        m = json.load(open(d)); bid = os.path.basename(os.path.dirname(d))
        rows.append(f'| {bid} | {m["property"]} | {m.get("kind","")} | {m.get("what","")} | {m.get("first_run","")} | {m.get("now","")} |'.replace('\n', ' '))
    return '\n'.join(rows)

text = open(f'{R}/DESIGN.md').read()
for key, fn in (('status', status), ('findings', findings), ('seeded', seeded), ('benign', benign)):
    pat = re.compile(rf'(<!-- BEGIN GENERATED:{key} -->\n).*?(<!-- END GENERATED:{key} -->)', re.S)
    assert pat.search(text), key
    text = pat.sub(lambda m: m.group(1) + fn() + '\n' + m.group(2), text)
open(f'{R}/DESIGN.md', 'w').write(text)
print('DESIGN.md tables regenerated')
