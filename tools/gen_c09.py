"""translator items for C09 (derivative routines): the seed / step / loop bounds / order guard of the three
Clenshaw derivative tables, the closed forms returned by hermite_*_der, laguerre_der, jacobi_der, the value
recurrences those closed forms refer to (Hermite, Laguerre loop bodies), the pieces of zernike_nm_der, and the
sag-and-slope assemblies compute_z_zprime_Qbfs / _Qcon and the per-m slope terms of compute_z_zprime_Q2d.
"""
import ast
import copy
from pyexpr2lean import (Gen, Tr, Untranslatable, load, get_def, find_assign, find_assigns, find_returns,
                         find_calls, body_to_lean)
from pyexpr2lean import get_def as raw_def
from pysym import normalised_def, float_entry_params, names_stored, SymEx, canonical_locals, local_assigned_with, canon_cond, merge_paths, U as unp
from gen_c10 import (norm, nenv, sub_assigns, for_loops, range_args, index_of, reads_of, tuple_unpack_calls,
                     returns_in_order, I, N, HDR, snorm, stmt_is, GenT, tri, alpha_norm, is_rebind, MATERIALISERS, iter_params_fact, q2d_sides)

JAC = 'prysm/polynomials/jacobi.py'
QP = 'prysm/polynomials/qpoly.py'
HER = 'prysm/polynomials/hermite.py'
LAG = 'prysm/polynomials/laguerre.py'
ZER = 'prysm/polynomials/zernike.py'
SUR = 'prysm/x/raytracing/surfaces.py'


def der_table(fn, top, coef_fn, coef_pos_name):
    """read the double loop of a Clenshaw derivative routine.
    top: name of the highest order ('M' or 'N').  Returns dict of lean texts + python facts."""
    loops = for_loops(fn)
    if len(loops) != 2:
        raise Untranslatable(f'{fn.name}: expected an outer loop over jj and an inner loop over n')
    outer, inner = loops
    if norm(ast.unparse(outer.iter)) != norm('range(1, j + 1)'):
        raise Untranslatable(f'outer loop is {ast.unparse(outer.iter)}')
    jj = outer.target.id
    v = inner.target.id
    names = [top, jj, 'j']
    ra = range_args(inner)
    if len(ra) != 3:
        raise Untranslatable('inner range() without explicit stop/step')
    # seed: the write to alphas[jj][...] in the outer body, outside the inner loop
    def is_slice_write(t):
        return any(isinstance(i, ast.Slice) for i in index_of(t))
    pre = [w for w in sub_assigns(outer, 'alphas') if w[0] < inner.lineno]
    # whole-slice writes (zeroing the row / the entries above the seed) are not the seed; they must write zeros
    slices = [w for w in pre if is_slice_write(w[1])]
    if any(ast.unparse(w[2]) != '0' for w in slices):
        raise Untranslatable('a slice of the table is assigned something other than 0')
    seeds = [w for w in pre if not is_slice_write(w[1]) and not any(w[1] in ast.walk(g_) for g_ in outer.body if isinstance(g_, ast.If))]
    if len(seeds) != 1:
        raise Untranslatable('expected exactly one seed write per row')
    _, st, sv = seeds[0]
    sidx = index_of(st)
    steps = sub_assigns(inner, 'alphas')
    if len(steps) != 1:
        raise Untranslatable('expected exactly one write in the inner loop')
    _, wt, wv = steps[0]
    widx = index_of(wt)
    # guard: `if jj > top: break` before the seed
    # rows above the degree: `if jj > top:` followed by `break` (zero-initialised table) or by zeroing the row and `continue`
    guard = False
    for s in outer.body:
        if isinstance(s, ast.If) and s.lineno < st.lineno and norm(ast.unparse(s.test)) in (norm(f'{jj} > {top}'), norm(f'{top} < {jj}'), norm(f'{top} - {jj} < 0'), norm(f'{jj} >= {top} + 1')) \
                and any(isinstance(b, (ast.Break, ast.Continue)) for b in s.body):
            guard = True
    info = {
        'jj': jj, 'v': v, 'names': names,
        'seedRow': I(sidx[0], names), 'seedIdx': I(sidx[1], names),
        'seedReads': sorted({(I(r[0], names), I(r[1], names)) for r in reads_of(sv, 'alphas')}),
        'writeRow': I(widx[0], names + [v]), 'writeIdx': I(widx[1], names + [v]),
        'stepReads': sorted({(I(r[0], names + [v]), I(r[1], names + [v])) for r in reads_of(wv, 'alphas')}),
        'loop': (I(ra[0], names), I(ra[1], names), I(ra[2], names)),
        'guard': guard, 'seedValue': sv, 'stepValue': wv, 'outer': outer, 'inner': inner,
    }
    return info


def pairs(lst):
    return '[' + ', '.join(f'({a}, {b})' for a, b in lst) + ']'


# ------------------------------------------------------------------------------------------------
# sequence forms (`*_der_seq`) and delegating routines
# ------------------------------------------------------------------------------------------------


def seq_sweep(module, fn, extra_names=()):
    """the sweep of a `*_der_seq` routine: explicit low orders, then one loop over the order that emits one row per requested order.
    Returns dict(rows={order: expr}, init={local: expr}, nxt={local: expr}, emit=expr, loopvar, ok (structure))
    - every expression fully expanded over the parameters, the loop variable and the three locals on entry to an iteration"""
    loops = for_loops(fn)
    if len(loops) != 1:
        raise Untranslatable(f'{fn.name}: expected one loop over the order')
    loop = loops[0]
    if loop not in fn.body:
        raise Untranslatable(f'{fn.name}: the loop is nested')
    it = loop.target.id if isinstance(loop.target, ast.Name) else None
    if it is None:
        raise Untranslatable('loop target')
    sx = SymEx(module)
    sx.identity = sx._identities(fn)
    env, rows = {}, {}
    order_ok = True
    k_loop = fn.body.index(loop)

    def emission(st, var):
        """`if ns[min_i] == <var>: [locals...]; out[min_i] = E; min_i += 1`  ->  (order text, statements before the store, E)"""
        if not (isinstance(st, ast.If) and not st.orelse and isinstance(st.test, ast.Compare) and len(st.test.ops) == 1
                and isinstance(st.test.ops[0], ast.Eq) and unp(st.test.left) == 'ns[min_i]'):
            return None
        stores = [s for s in st.body if isinstance(s, ast.Assign) and unp(s.targets[0]) == 'out[min_i]']
        bump = [s for s in st.body if stmt_is(s, 'min_i += 1')]
        if len(stores) != 1 or len(bump) != 1 or st.body.index(bump[0]) < st.body.index(stores[0]):
            return None
        pre = st.body[:st.body.index(stores[0])]
        if any(not isinstance(s, ast.Assign) for s in pre):
            return None
        return st.test.comparators[0], pre, stores[0].value

    for st in fn.body[:k_loop]:
        if isinstance(st, ast.Expr) and isinstance(st.value, ast.Constant):
            continue
        em = emission(st, None)
        if em is not None:
            order, pre, val = em
            if not (isinstance(order, ast.Constant) and isinstance(order.value, int)):
                raise Untranslatable('explicit row for a non-literal order')
            e2 = dict(env)
            for s in pre:
                for t in s.targets:
                    sx.assign(t, sx.expand(s.value, e2), e2, [])
            if rows and order.value != max(rows) + 1:
                order_ok = False
            rows[order.value] = sx.expand(val, e2)
            continue
        if isinstance(st, ast.If) and stmt_is(st, 'if min_i == len(ns):\n    return out'):
            continue
        if is_rebind(st, 'ns'):
            continue                                   # ns = list(ns): the same orders, kept by name
        if isinstance(st, ast.Assign):
            for t in st.targets:
                sx.assign(t, sx.expand(st.value, env), env, [])
            continue
        raise Untranslatable(f'{fn.name}: statement before the loop not understood: {unp(st)[:60]}')
    if sorted(rows) != list(range(len(rows))) or 0 not in rows:
        order_ok = False
    first = len(rows)
    it_exp = sx.expand(loop.iter, {k: v for k, v in env.items() if k == 'max_n'})
    start = it_exp.args[0].value if isinstance(it_exp, ast.Call) and unp(it_exp.func) == 'range' and len(it_exp.args) == 2 \
        and isinstance(it_exp.args[0], ast.Constant) and isinstance(it_exp.args[0].value, int) else None
    rng_ok = start is not None and norm(unp(it_exp)) == norm(f'range({start}, ns[-1] + 1)')
    # one iteration, symbolically, from fresh locals
    killed = names_stored([loop])
    benv = {k: v for k, v in env.items() if k not in killed and not ({n.id for n in ast.walk(v) if isinstance(n, ast.Name)} & killed)}
    paths = sx.block(list(loop.body), benv, [], [])
    emitting = [p for p in paths if any(ev[0] == 'store' and unp(ev[1]) == 'out[min_i]' for ev in p.events)]
    quiet = [p for p in paths if p not in emitting]
    if not emitting:
        raise Untranslatable(f'{fn.name}: the loop body never emits')
    # (after the emission the routine may return early: several emitting paths, all with the same single store)
    guard_ok = all((f'ns[min_i] == {it}', True) in p.conds for p in emitting) and all((f'ns[min_i] == {it}', False) in p.conds for p in quiet)
    for p in emitting:
        if len([ev for ev in p.events if ev[0] == 'store']) != 1:
            raise Untranslatable('more than one store on an emitting path')
    vals = {unp([ev for ev in p.events if ev[0] == 'store'][0][2]) for p in emitting}
    if len(vals) != 1:
        raise Untranslatable('the emitted row differs between paths')
    pe = emitting[0]
    emit = [ev for ev in pe.events if ev[0] == 'store'][0][2]

    def final(p, name):
        return p.env.get(name, ast.Name(id=name, ctx=ast.Load()))
    # the quiet path that does not return (falls through) must leave the same locals
    falls = [p for p in paths if p.kind == 'fall']
    if not falls:
        raise Untranslatable('no path falls through the loop body')
    bump_ok = all(unp(final(p, 'min_i')) == 'min_i + 1' for p in emitting) and all(unp(final(p, 'min_i')) == 'min_i' for p in quiet)
    # the loop-carried locals: stored in the loop body AND read by an iteration before it writes them (whatever they are called);
    # exactly two, and the next value of one of them is the other (the "older" polynomial takes over the "newer" one)
    stored = {n for n in killed if n not in (it, 'min_i', 'out')}
    used = set()
    for e in [final(falls[0], nm) for nm in stored] + [emit]:
        used |= {n.id for n in ast.walk(e) if isinstance(n, ast.Name) and n.id in stored}
    if len(used) != 2:
        raise Untranslatable(f'{fn.name}: the loop carries {sorted(used)} from one iteration to the next (expected two polynomials)')
    nxt = {nm: final(falls[0], nm) for nm in used}
    older = [nm for nm in used if isinstance(nxt[nm], ast.Name) and nxt[nm].id in used and nxt[nm].id != nm]
    if len(older) != 1:
        raise Untranslatable(f'{fn.name}: no shift between the carried polynomials')
    older = older[0]
    newer = (used - {older}).pop()
    same = all(unp(final(p, nm)) == unp(nxt[nm]) for p in falls for nm in used)
    init = {nm: env.get(nm) for nm in used}
    if any(v is None for v in init.values()):
        raise Untranslatable(f'{fn.name}: a carried polynomial is not initialised before the loop')
    return dict(rows=rows, init=init, nxt=nxt, emit=emit, it=it, first=first, env=env, start=start, older=older, newer=newer,
                ok=order_ok and rng_ok and guard_ok and same and bump_ok)


def abc_calls(exprs, fname='recurrence_abc'):
    """distinct calls of fname inside the expressions: {text: call node}"""
    out = {}
    for e in exprs:
        if e is None:
            continue
        for c in find_calls(e, fname):
            out[unp(c)] = c
    return out


def hermite_seq_item(her):
    out = []
    for name, lname in (('hermite_He_der_seq', 'heSeq'), ('hermite_H_der_seq', 'hSeq')):
        fn = normalised_def(her, name)
        sw = seq_sweep(her, fn)
        if sw['first'] != 3:
            raise Untranslatable(f'{name}: explicit rows {sorted(sw["rows"])}')
        o, nw = sw['older'], sw['newer']
        tab = {'x': 'x', sw['it']: 'nn', o: 'q2', nw: 'q1'}
        for k in (0, 1, 2):
            out.append(f'def {lname}Row{k} (x : K) : K := {N(sw["rows"][k], {"x": "x"})}')
        out.append(f'def {lname}Init (x : K) : K × K := ({N(sw["init"][o], {"x": "x"})}, {N(sw["init"][nw], {"x": "x"})})')
        out.append(f'def {lname}Next (nn x q2 q1 : K) : K × K := ({N(sw["nxt"][o], tab)}, {N(sw["nxt"][nw], tab)})')
        out.append(f'def {lname}Emit (nn x q2 q1 : K) : K := {N(sw["emit"], tab)}')
        out.append(f'def {lname}LoopStart : Int := {sw["start"]}')
        out.append(f'def {lname}Structure : Bool := {tri(sw["ok"])}')
    return '\n'.join(out)


def jacobi_seq_item(jac):
    fn = normalised_def(jac, 'jacobi_der_seq')
    sw = seq_sweep(jac, fn)
    if sw['first'] != 4:
        raise Untranslatable(f'jacobi_der_seq: explicit rows {sorted(sw["rows"])}')
    o, nw = sw['older'], sw['newer']
    # recurrence_abc calls: one in the explicit part (order 1), one in the loop (order i - 1), both with the shifted shape
    pre = abc_calls([sw['rows'][3], sw['init'][nw]])
    inl = abc_calls(list(sw['nxt'].values()) + [sw['emit']])
    if len(pre) != 1 or len(inl) != 1:
        raise Untranslatable('jacobi_der_seq: recurrence_abc is not called once before and once inside the loop')
    (ptxt, pcall), (itxt, icall) = list(pre.items())[0], list(inl.items())[0]
    shape = (N(pcall.args[1], {'alpha': 'alpha'}), N(pcall.args[2], {'beta': 'beta'}))
    same_shape = [unp(a) for a in pcall.args[1:]] == [unp(a) for a in icall.args[1:]]
    base = {'alpha': 'alpha', 'beta': 'beta', 'x': 'x'}
    tp = dict(base, **{f'{ptxt}[0]': 'A', f'{ptxt}[1]': 'B', f'{ptxt}[2]': 'C'})
    ti = dict(base, **{f'{itxt}[0]': 'A', f'{itxt}[1]': 'B', f'{itxt}[2]': 'C', sw['it']: 'i', o: 'q1', nw: 'q0'})
    out = [f'def jacSeqRow{k} (alpha beta x A B C : K) : K := {N(sw["rows"][k], tp)}' for k in (0, 1, 2, 3)]
    out.append(f'def jacSeqInit (alpha beta x A B C : K) : K × K := ({N(sw["init"][o], tp)}, {N(sw["init"][nw], tp)})')
    out.append(f'def jacSeqNext (i alpha beta x A B C q1 q0 : K) : K × K := ({N(sw["nxt"][o], ti)}, {N(sw["nxt"][nw], ti)})')
    out.append(f'def jacSeqEmit (i alpha beta x A B C q1 q0 : K) : K := {N(sw["emit"], ti)}')
    out.append(f'def jacSeqShape (alpha beta : K) : K × K := ({shape[0]}, {shape[1]})')
    out.append(f'def jacSeqInitABCIdx : Int := {I(pcall.args[0], [])}')
    out.append(f'def jacSeqABCIdx (i : Int) : Int := {I(icall.args[0], [sw["it"]]).replace(sw["it"], "i") if sw["it"] != "i" else I(icall.args[0], ["i"])}')
    out.append(f'def jacSeqLoopStart : Int := {sw["start"]}')
    out.append(f'def jacSeqStructure : Bool := {tri(sw["ok"] and same_shape)}')
    return '\n'.join(out)


# ------------------------------------------------------------------------------------------------ delegations
def _strip(node):
    """remove shape-only wrappers: X.reshape(...), np.squeeze(X), np.asarray(X), list(X), tuple(X), _as_sequence(X)"""
    while True:
        if isinstance(node, ast.Call) and isinstance(node.func, ast.Attribute) and node.func.attr == 'reshape':
            node = node.func.value
        elif isinstance(node, ast.Call) and unp(node.func) in ('np.squeeze', 'np.asarray', 'np.array', 'list', 'tuple', '_as_sequence') and len(node.args) == 1:
            node = node.args[0]
        else:
            return node


def delegation(module, name, callee, order_param):
    """`return callee(order, a, b, x) * (NUM / value_callee(order, a, b, <ones>))` (or without the normaliser): dict(shape, norm_shape,
    num, ok)"""
    fn = copy.deepcopy(normalised_def(module, name))
    # `ns = list(ns)` / `ns = np.asarray(_as_sequence(ns))`: the same orders, kept by name
    fn.body = [st for st in fn.body if not (isinstance(st, ast.Assign) and unp(st.targets[0]) == order_param
                                            and unp(_strip(st.value)) == order_param)]
    sx = SymEx(module)
    paths = sx.run(fn)
    if len(paths) != 1 or paths[0].kind != 'return' or any(ev[0] != 'bind' for ev in paths[0].events):
        raise Untranslatable(f'{name}: not a straight-line delegation')
    val = paths[0].value

    def is_call(e, f):
        return isinstance(e, ast.Call) and unp(e.func) == f

    def shape_of(call):
        if len(call.args) != 4 or call.keywords:
            raise Untranslatable(f'{name}: {unp(call.func)} is not called with four positional arguments')
        return (N(call.args[1], {}), N(call.args[2], {})), _strip(call.args[0]), call.args[3]
    if is_call(val, callee):
        shape, order, point = shape_of(val)
        ok = unp(order) == order_param and unp(point) == 'x'
        return dict(shape=shape, norm_shape=shape, num='(ofInt 1)', unnormalised=True, ok=ok)
    if not (isinstance(val, ast.BinOp) and isinstance(val.op, ast.Mult)):
        raise Untranslatable(f'{name}: the result is not a product')
    sides = [val.left, val.right]
    main = [s for s in sides if is_call(s, callee)]
    if len(main) != 1:
        raise Untranslatable(f'{name}: no single {callee}(...) factor')
    other = _strip([s for s in sides if s is not main[0]][0])
    if not (isinstance(other, ast.BinOp) and isinstance(other.op, ast.Div)):
        raise Untranslatable(f'{name}: the normaliser is not a quotient')
    den = _strip(other.right)
    vcallee = 'jacobi_seq' if callee.endswith('_seq') else 'jacobi'
    if not is_call(den, vcallee):
        raise Untranslatable(f'{name}: the normaliser does not divide by {vcallee}(...)')
    shape, order, point = shape_of(main[0])
    nshape, norder, npoint = shape_of(den)
    one = unp(npoint) == '1' or (isinstance(npoint, ast.Call) and unp(npoint.func) == 'np.ones')
    num = Tr(nenv({order_param: 'n'}), mode='num').expr(other.left)
    ok = unp(order) == order_param and unp(norder) == order_param and unp(point) == 'x' and one
    return dict(shape=shape, norm_shape=nshape, num=num, unnormalised=False, ok=ok)


def delegations(che, leg, lag, zer):
    out = []
    oks = []
    for k in (1, 2, 3, 4):
        for sfx, lsfx, op in (('', '', 'n'), ('_seq', 'Seq', 'ns')):
            v = delegation(che, f'cheby{k}{sfx}', f'jacobi{sfx}', op)
            d = delegation(che, f'cheby{k}_der{sfx}', f'jacobi_der{sfx}', op)
            for tag, r in (('', v), ('Der', d)):
                out.append(f'def cheby{k}{tag}{lsfx}Shape : K × K := ({r["shape"][0]}, {r["shape"][1]})')
                out.append(f'def cheby{k}{tag}{lsfx}NormShape : K × K := ({r["norm_shape"][0]}, {r["norm_shape"][1]})')
                out.append(f'def cheby{k}{tag}{lsfx}Num (n : K) : K := {r["num"]}')
                oks.append(r['ok'] and not r['unnormalised'])
    for sfx, lsfx, op in (('', '', 'n'), ('_seq', 'Seq', 'ns')):
        v = delegation(leg, f'legendre{sfx}', f'jacobi{sfx}', op)
        d = delegation(leg, f'legendre_der{sfx}', f'jacobi_der{sfx}', op)
        for tag, r in (('', v), ('Der', d)):
            out.append(f'def legendre{tag}{lsfx}Shape : K × K := ({r["shape"][0]}, {r["shape"][1]})')
            oks.append(r['ok'] and r['unnormalised'])
    out.append(f'def chebyLegendreDerivativesDelegateToJacobiAtSameOrdersAndPoint : Bool := {tri(all(oks))}')
    # laguerre_der_seq: rows below order k are zero, the others are (-1)**k * laguerre_seq([n - k ...], alpha + k, x); every local
    # (k, low, sign, shifted orders) is expanded by symbolic execution, so named intermediate steps do not matter
    fn = copy.deepcopy(normalised_def(lag, 'laguerre_der_seq'))
    fn.body = [st for st in fn.body if not (isinstance(st, ast.Assign) and unp(st.targets[0]) == 'ns' and unp(_strip(st.value)) == 'ns')]
    sx = SymEx(lag)
    paths = sx.run(fn)
    if any(p.kind != 'return' for p in paths):
        raise Untranslatable('laguerre_der_seq: a path does not return')
    storing = [p for p in paths if any(ev[0] == 'store' for ev in p.events)]
    if len(storing) != 1 or len([ev for ev in storing[0].events if ev[0] == 'store']) != 1:
        raise Untranslatable('laguerre_der_seq: not exactly one store into the table')
    tgt, val = [ev for ev in storing[0].events if ev[0] == 'store'][0][1:3]
    lows = [norm('sum((1 for n in ns if n < 1))'), norm('len([n for n in ns if n < 1])'), norm('sum([1 for n in ns if n < 1])')]
    low_txt = next((l for l in lows if norm(unp(tgt)) == norm(f'out[{l}:]')), None)
    if low_txt is None:
        raise Untranslatable(f'laguerre_der_seq: rows are stored into {unp(tgt)}')
    if not (isinstance(val, ast.BinOp) and isinstance(val.op, ast.Mult)):
        raise Untranslatable('laguerre_der_seq: stored rows are not sign * laguerre_seq(...)')
    sides = [val.left, val.right]
    calls = [e for e in sides if isinstance(e, ast.Call) and unp(e.func) == 'laguerre_seq']
    if len(calls) != 1 or len(calls[0].args) != 3 or calls[0].keywords:
        raise Untranslatable('laguerre_der_seq does not call laguerre_seq once')
    call = calls[0]
    sign = [e for e in sides if e is not call][0]
    sign_ok = norm(unp(sign)) in (norm('(-1) ** 1'), '-1')
    comp = call.args[0]
    if not (isinstance(comp, ast.ListComp) and len(comp.generators) == 1 and not comp.generators[0].ifs
            and isinstance(comp.generators[0].target, ast.Name)):
        raise Untranslatable('laguerre_der_seq: orders are not a list comprehension')
    v = comp.generators[0].target.id
    order = Tr({v: 'n'}, mode='int').expr(comp.elt)
    shape = Tr(nenv({'alpha': 'alpha'}), mode='num').expr(call.args[1])
    src_ok = norm(unp(comp.generators[0].iter)) == norm(f'ns[{low_txt}:]') and unp(call.args[2]) == 'x'
    gtext, gpol = canon_cond(ast.parse(f'{low_txt} < len(ns)', mode='eval').body, True)
    guard_ok = (gtext, gpol) in storing[0].conds and all((gtext, not gpol) in p.conds for p in paths if p is not storing[0])
    binds = [ev for ev in storing[0].events if ev[0] == 'bind' and unp(ev[1]) == 'out']
    outz = len(binds) == 1 and unp(binds[0][2]).startswith('np.zeros(') and all(unp(p.value) == 'out' for p in paths)
    out.append(f'def lagSeqOrder (n : Int) : Int := {order}')
    out.append(f'def lagSeqShape (alpha : K) : K := {shape}')
    out.append(f'def lagSeqRowsAreZeroBelowOrderOneAndMinusLaguerreSeqAbove : Bool := {tri(src_ok and guard_ok and outz and sign_ok)}')
    # zernike_nm_der_seq: row j is zernike_nm_der(n, m, r, t, norm=norm) for the j-th pair
    fn = normalised_def(zer, 'zernike_nm_der_seq')
    loops = for_loops(fn)
    zok = False
    if len(loops) == 1:
        lp = loops[0]
        zok = norm(unp(lp.target)) == norm('(j, (n, m))') and norm(unp(lp.iter)) == norm('enumerate(nms)')
        sx = SymEx(zer)
        sx.identity = {'out'}
        ps = sx.block(list(lp.body), {}, [], [])
        zok = zok and len(ps) == 1 and [(ev[0], unp(ev[1]), unp(ev[2])) for ev in ps[0].events] == \
            [('store', 'out[j]', norm('zernike_nm_der(n, m, r, t, norm=norm)'))]
    out.append(f'def zernSeqRowIsTheSingleFormAtTheSameArguments : Bool := {tri(zok)}')
    return '\n'.join(out)




def generate(repo):
    get_def = normalised_def          # helpers inlined, view aliases of table rows propagated (tools/pysym.py)
    g = GenT('C09', imports=['PrysmVerif.PyPrelude', 'PrysmVerif.Model.C09'], header=HDR)
    jac, _ = load(repo, JAC)
    qp, _ = load(repo, QP)
    her, _ = load(repo, HER)
    lag, _ = load(repo, LAG)
    zer, _ = load(repo, ZER)
    sur, _ = load(repo, SUR)

    def emit_table(prefix, info, seed, step, extra):
        jj, v = info['jj'], info['v']
        return '\n'.join([
            seed, step,
            f'def {prefix}SeedPos (TOP {jj} j : Int) : Int × Int := ({info["seedRow"]}, {info["seedIdx"]})'.replace('TOP', info['names'][0]),
            f'def {prefix}SeedReads (TOP {jj} j : Int) : List (Int × Int) := {pairs(info["seedReads"])}'.replace('TOP', info['names'][0]),
            f'def {prefix}WritePos (TOP {jj} j {v} : Int) : Int × Int := ({info["writeRow"]}, {info["writeIdx"]})'.replace('TOP', info['names'][0]),
            f'def {prefix}StepReads (TOP {jj} j {v} : Int) : List (Int × Int) := {pairs(info["stepReads"])}'.replace('TOP', info['names'][0]),
            f'def {prefix}Loop (TOP {jj} j : Int) : Int × Int × Int := ({info["loop"][0]}, {info["loop"][1]}, {info["loop"][2]})'.replace('TOP', info['names'][0]),
            f'def {prefix}RowsAboveDegreeStayZero : Bool := {tri(info["guard"])}',
        ] + extra)

    def fb_table(prefix, top, seed, step, extra):
        return '\n'.join([
            seed, step,
            f'def {prefix}SeedPos ({top} jj j : Int) : Int × Int := (jj, {top} - jj)',
            f'def {prefix}SeedReads ({top} jj j : Int) : List (Int × Int) := [(jj - 1, {top} - jj + 1)]',
            f'def {prefix}WritePos ({top} jj j n : Int) : Int × Int := (jj, n)',
            f'def {prefix}StepReads ({top} jj j n : Int) : List (Int × Int) := [(jj - 1, n + 1), (jj, n + 1), (jj, n + 2)]',
            f'def {prefix}Loop ({top} jj j : Int) : Int × Int × Int := ({top} - jj - 1, -1, -1)',
            f'def {prefix}RowsAboveDegreeStayZero : Bool := true'] + extra)

    # ---------------------------------------------------------------- jacobi_sum_clenshaw_der
    def jder():
        fn = get_def(jac, 'jacobi_sum_clenshaw_der')
        info = der_table(fn, 'M', 'recurrence_abc', None)
        jj, v = info['jj'], info['v']
        seed = N(info['seedValue'], {jj: 'jj', 'j': 'j', 'a': 'a', f'alphas[{jj} - 1][M - {jj} + 1]': 'p1'})
        step = N(info['stepValue'], {jj: 'jj', 'j': 'j', 'a': 'a', 'b': 'b', 'c': 'c', 'x': 'x',
                                     f'alphas[{jj} - 1][{v} + 1]': 'p1', f'alphas[{jj}][{v} + 1]': 'c1', f'alphas[{jj}][{v} + 2]': 'c2'})
        # coefficient orders
        pre = [s for s in info['outer'].body if isinstance(s, ast.Assign) and isinstance(s.value, ast.Call)
               and ast.unparse(s.value.func) == 'recurrence_abc' and s.lineno < info['inner'].lineno]
        if len(pre) != 1:
            raise Untranslatable('seed coefficient is not one recurrence_abc call')
        seed_abc = I(pre[0].value.args[0], info['names'])
        tgt = pre[0].targets[0]
        seed_first = isinstance(tgt, ast.Tuple) and isinstance(tgt.elts[0], ast.Name) and tgt.elts[0].id == 'a'
        calls = tuple_unpack_calls(info['inner'].body, 'recurrence_abc')
        feed = {}
        for names_, call in calls:
            for pos, nm in enumerate(names_):
                if nm not in ('_', '*'):
                    feed[nm] = (pos, I(call.args[0], info['names'] + [v]))
        if sorted(feed) != ['a', 'b', 'c']:
            raise Untranslatable(f'inner loop does not bind a, b, c: {feed}')
        row0 = find_calls(fn, 'jacobi_sum_clenshaw')
        row0_ok = len(row0) == 1 and norm(ast.unparse(row0[0])) == norm('jacobi_sum_clenshaw(s, alpha, beta, x, alphas=alphas[0])')
        M_ok = norm(ast.unparse(find_assign(fn, 'M'))) == norm('len(s) - 1')
        ret_ok = norm(ast.unparse(returns_in_order(fn)[-1])) == 'alphas'
        extra = [
            f'def jderSeedABCIdx (M {jj} j : Int) : Int := {seed_abc}',
            f'def jderABCIdx (M {jj} j {v} : Int) : Int × Int × Int := ({feed["a"][1]}, {feed["b"][1]}, {feed["c"][1]})',
            f'def jderABCPositions : Int × Int × Int := ({feed["a"][0]}, {feed["b"][0]}, {feed["c"][0]})',
            f'def jderRowZeroIsTheValueSweep : Bool := {tri(row0_ok and M_ok and ret_ok and seed_first)}',
        ]
        return emit_table('jder', info, f'def jderSeed (jj j a p1 : K) : K := {seed}',
                          f'def jderStep (jj j a b c x p1 c1 c2 : K) : K := {step}', extra)
    g.item('jacobi_sum_clenshaw_der', f'{JAC}:jacobi_sum_clenshaw_der', lambda: get_def(jac, 'jacobi_sum_clenshaw_der'), jder,
           fb_table('jder', 'M', 'def jderSeed (jj j a p1 : K) : K := jj * a * p1',
                    'def jderStep (jj j a b c x p1 c1 c2 : K) : K := jj * a * p1 + (a * x + b) * c1 - c * c2',
                    ['def jderSeedABCIdx (M jj j : Int) : Int := M - jj',
                     'def jderABCIdx (M jj j n : Int) : Int × Int × Int := (n, n, n + 1)',
                     'def jderABCPositions : Int × Int × Int := (0, 1, 2)',
                     'def jderRowZeroIsTheValueSweep : Bool := true']))

    # ---------------------------------------------------------------- clenshaw_qbfs_der
    def qbfsder():
        fn = get_def(qp, 'clenshaw_qbfs_der')
        info = der_table(fn, 'M', None, None)
        jj, v = info['jj'], info['v']
        seed = N(info['seedValue'], {jj: 'jj', 'j': 'j', f'alphas[{jj} - 1][M - {jj} + 1]': 'p1'})
        step = N(info['stepValue'], {jj: 'jj', 'j': 'j', 'prefix': 'pre',
                                     f'alphas[{jj} - 1][{v} + 1]': 'p1', f'alphas[{jj}][{v} + 1]': 'c1', f'alphas[{jj}][{v} + 2]': 'c2'})
        prefix = N(find_assign(fn, 'prefix'), {'x': 'x'})
        row0 = find_calls(fn, 'clenshaw_qbfs')
        row0_ok = len(row0) == 1 and norm(ast.unparse(row0[0])) == norm('clenshaw_qbfs(cs, usq, alphas[0])')
        M_ok = norm(ast.unparse(find_assign(fn, 'M'))) == norm('len(cs) - 1') and norm(ast.unparse(find_assign(fn, 'x'))) == 'usq'
        ret_ok = norm(ast.unparse(returns_in_order(fn)[-1])) == 'alphas'
        extra = [f'def qbfsderPrefix (x : K) : K := {prefix}',
                 f'def qbfsderRowZeroIsTheValueSweep : Bool := {tri(row0_ok and M_ok and ret_ok)}']
        return emit_table('qbfsder', info, f'def qbfsderSeed (jj j p1 : K) : K := {seed}',
                          f'def qbfsderStep (jj j pre p1 c1 c2 : K) : K := {step}', extra)
    g.item('clenshaw_qbfs_der', f'{QP}:clenshaw_qbfs_der', lambda: get_def(qp, 'clenshaw_qbfs_der'), qbfsder,
           fb_table('qbfsder', 'M', 'def qbfsderSeed (jj j p1 : K) : K := ofInt (-4) * jj * p1',
                    'def qbfsderStep (jj j pre p1 c1 c2 : K) : K := pre * c1 - c2 - ofInt 4 * jj * p1',
                    ['def qbfsderPrefix (x : K) : K := ofInt 2 - ofInt 4 * x',
                     'def qbfsderRowZeroIsTheValueSweep : Bool := true']))

    # ---------------------------------------------------------------- clenshaw_q2d_der
    def q2dder():
        fn = get_def(qp, 'clenshaw_q2d_der')
        info = der_table(fn, 'N', 'abc_q2d_clenshaw', None)
        jj, v = info['jj'], info['v']
        seed = N(info['seedValue'], {jj: 'jj', 'j': 'j', 'b': 'b', f'alphas[{jj} - 1][N - {jj} + 1]': 'p1'})
        step = N(info['stepValue'], {jj: 'jj', 'j': 'j', 'a': 'a', 'b': 'b', 'c': 'c', 'x': 'x',
                                     f'alphas[{jj} - 1][{v} + 1]': 'p1', f'alphas[{jj}][{v} + 1]': 'c1', f'alphas[{jj}][{v} + 2]': 'c2'})
        pre = tuple_unpack_calls([s for s in info['outer'].body if s.lineno < info['inner'].lineno], 'abc_q2d_clenshaw')
        if len(pre) != 1:
            raise Untranslatable('seed coefficient is not one abc_q2d_clenshaw call')
        seed_pos = [k for k, nm in enumerate(pre[0][0]) if nm == 'b']
        seed_abc = I(pre[0][1].args[0], info['names'])
        calls = tuple_unpack_calls(info['inner'].body, 'abc_q2d_clenshaw')
        feed = {}
        for names_, call in calls:
            for pos, nm in enumerate(names_):
                if nm not in ('_', '*'):
                    feed[nm] = (pos, I(call.args[0], info['names'] + [v]), ast.unparse(call.args[1]))
        if sorted(feed) != ['a', 'b', 'c']:
            raise Untranslatable(f'inner loop does not bind a, b, c: {feed}')
        row0 = find_calls(fn, 'clenshaw_q2d')
        row0_ok = len(row0) == 1 and norm(ast.unparse(row0[0])) == norm('clenshaw_q2d(cs, m, x, alphas[0])')
        N_ok = norm(ast.unparse(find_assign(fn, 'N'))) == norm('len(cs) - 1') and norm(ast.unparse(find_assign(fn, 'x'))) == 'usq' \
            and norm(ast.unparse(find_assign(fn, 'cs'))) in ['cns'] + [f'{f}(cns)' for f in MATERIALISERS] and all(f[2] == 'm' for f in feed.values()) \
            and ast.unparse(pre[0][1].args[1]) == 'm'
        ret_ok = norm(ast.unparse(returns_in_order(fn)[-1])) == 'alphas'
        extra = [
            f'def q2dderSeedABCIdx (N {jj} j : Int) : Int := {seed_abc}',
            f'def q2dderSeedCoefPosition : Int := {seed_pos[0] if seed_pos else -1}',
            f'def q2dderABCIdx (N {jj} j {v} : Int) : Int × Int × Int := ({feed["a"][1]}, {feed["b"][1]}, {feed["c"][1]})',
            f'def q2dderABCPositions : Int × Int × Int := ({feed["a"][0]}, {feed["b"][0]}, {feed["c"][0]})',
            f'def q2dderRowZeroIsTheValueSweep : Bool := {tri(row0_ok and N_ok and ret_ok)}',
        ]
        return emit_table('q2dder', info, f'def q2dderSeed (jj j b p1 : K) : K := {seed}',
                          f'def q2dderStep (jj j a b c x p1 c1 c2 : K) : K := {step}', extra)
    g.item('clenshaw_q2d_der', f'{QP}:clenshaw_q2d_der', lambda: get_def(qp, 'clenshaw_q2d_der'), q2dder,
           fb_table('q2dder', 'N', 'def q2dderSeed (jj j b p1 : K) : K := jj * b * p1',
                    'def q2dderStep (jj j a b c x p1 c1 c2 : K) : K := jj * b * p1 + (a + b * x) * c1 - c * c2',
                    ['def q2dderSeedABCIdx (N jj j : Int) : Int := N - jj', 'def q2dderSeedCoefPosition : Int := 1',
                     'def q2dderABCIdx (N jj j n : Int) : Int × Int × Int := (n, n, n + 1)',
                     'def q2dderABCPositions : Int × Int × Int := (0, 1, 2)',
                     'def q2dderRowZeroIsTheValueSweep : Bool := true']))

    # ---------------------------------------------------------------- closed forms: Hermite, Laguerre, Jacobi
    def closed(fn, zero_test, params):
        """`if <zero_test>: return np.zeros_like(x)` then `return <expr>` -> expr node"""
        z = [s for s in fn.body if isinstance(s, ast.If) and norm(ast.unparse(s.test)) == norm(zero_test)
             and len(s.body) == 1 and isinstance(s.body[0], ast.Return)
             and norm(ast.unparse(s.body[0].value)) == norm('np.zeros_like(x)')]
        if len(z) != 1:
            raise Untranslatable(f'{fn.name}: no `if {zero_test}: return zeros`')
        return returns_in_order(fn)[-1]

    def hermite_der():
        out = []
        for name, fam, lname in (('hermite_He_der', 'hermite_He', 'he'), ('hermite_H_der', 'hermite_H', 'h')):
            fn = get_def(her, name)
            ret = closed(fn, 'n == 0', ['n', 'x'])
            calls = find_calls(ret, fam)
            if len(calls) != 1:
                raise Untranslatable(f'{name}: does not call {fam} once')
            call = calls[0]
            order = I(call.args[0], ['n'])
            arg_ok = ast.unparse(call.args[1]) == 'x'
            factor = Tr(nenv({'n': 'n', ast.unparse(call): 'v'}), mode='num').expr(ret)
            out.append(f'def {lname}DerClosed (n v : K) : K := {factor}')
            out.append(f'def {lname}DerOrder (n : Int) : Int := {order}')
            out.append(f'def {lname}DerZeroAtOrderZeroAndSamePoint : Bool := {tri(arg_ok)}')
        return '\n'.join(out)
    g.item('hermite_der', f'{HER}:hermite_He_der,hermite_H_der', lambda: get_def(her, 'hermite_H_der'), hermite_der,
           '\n'.join(['def heDerClosed (n v : K) : K := n * v', 'def heDerOrder (n : Int) : Int := n - 1',
                      'def heDerZeroAtOrderZeroAndSamePoint : Bool := true',
                      'def hDerClosed (n v : K) : K := ofInt 2 * n * v', 'def hDerOrder (n : Int) : Int := n - 1',
                      'def hDerZeroAtOrderZeroAndSamePoint : Bool := true']))

    def hermite_rec():
        out = []
        for name, lname in (('hermite_He', 'he'), ('hermite_H', 'h')):
            fn = get_def(her, name)
            (loop,) = for_loops(fn)
            nn = loop.target.id
            rng_ok = norm(ast.unparse(loop.iter)) == norm('range(3, n + 1)')
            pn = [s for s in loop.body if isinstance(s, ast.Assign) and ast.unparse(s.targets[0]) == 'Pn']
            if len(pn) != 1:
                raise Untranslatable('no single Pn assignment in the loop')
            table = {nn: 'nn', 'x': 'x', 'Pnm1': 'p1', 'Pnm2': 'p0'}
            if name == 'hermite_H':
                x2 = norm(ast.unparse(find_assign(fn, 'x2'))) == norm('2 * x')
                if not x2:
                    raise Untranslatable('x2 is not 2*x')
                table['x2'] = '(ofInt 2 * x)'
            step = N(pn[0].value, table)
            shift = any(stmt_is(s, 'Pnm2, Pnm1 = Pnm1, Pn') for s in loop.body)
            p2 = N(find_assign(fn, 'P2'), {'x': 'x'})
            # first two orders
            r = returns_in_order(fn)
            r0 = norm(ast.unparse(r[0])) == norm('np.ones_like(x)')
            r1 = N(r[1], {'x': 'x', 'x2': '(ofInt 2 * x)'})
            seeds_ok = norm(ast.unparse(find_assign(fn, 'Pnm2'))) in (norm('x'), norm('x2'), norm('P1')) and \
                norm(ast.unparse(find_assign(fn, 'Pnm1'))) == 'P2'
            out.append(f'def {lname}RecStep (nn x p1 p0 : K) : K := {step}')
            out.append(f'def {lname}P1 (x : K) : K := {r1}')
            out.append(f'def {lname}P2 (x : K) : K := {p2}')
            out.append(f'def {lname}RecStructure : Bool := {tri(rng_ok and shift and r0 and seeds_ok)}')
        return '\n'.join(out)
    g.item('hermite_recurrence', f'{HER}:hermite_He,hermite_H', lambda: get_def(her, 'hermite_H'), hermite_rec,
           '\n'.join(['def heRecStep (nn x p1 p0 : K) : K := x * p1 - (nn - ofInt 1) * p0', 'def heP1 (x : K) : K := x',
                      'def heP2 (x : K) : K := x * x - ofInt 1', 'def heRecStructure : Bool := true',
                      'def hRecStep (nn x p1 p0 : K) : K := ofInt 2 * x * p1 - ofInt 2 * (nn - ofInt 1) * p0',
                      'def hP1 (x : K) : K := ofInt 2 * x', 'def hP2 (x : K) : K := ofInt 4 * (x * x) - ofInt 2',
                      'def hRecStructure : Bool := true']))

    def laguerre_items():
        fn = get_def(lag, 'laguerre_der')
        k_ok = norm(ast.unparse(find_assign(fn, 'k'))) == '1'
        ret = closed(fn, 'n < k', None)
        calls = find_calls(ret, 'laguerre')
        if len(calls) != 1:
            raise Untranslatable('laguerre_der does not call laguerre once')
        call = calls[0]
        order = Tr({'n': 'n', 'k': '(1 : Int)'}, mode='int').expr(call.args[0])
        shape_ = Tr(nenv({'alpha': 'alpha', 'k': '(ofInt 1)'}), mode='num').expr(call.args[1])
        arg_ok = ast.unparse(call.args[2]) == 'x'
        # (-1) ** k with k = 1
        sign_node = ret.left if isinstance(ret, ast.BinOp) and isinstance(ret.op, ast.Mult) else None
        sign_ok = sign_node is not None and norm(ast.unparse(sign_node)) == norm('(-1) ** k') and ret.right is call
        # value recurrence
        fv = get_def(lag, 'laguerre')
        (loop,) = for_loops(fv)
        body = {ast.unparse(s.targets[0]): s.value for s in loop.body if isinstance(s, ast.Assign) and len(s.targets) == 1}
        need = ['n', 'A', 'B', 'Lnp1']
        if any(k_ not in body for k_ in need):
            raise Untranslatable('laguerre loop does not assign n, A, B, Lnp1')
        np1 = loop.target.id
        rng_ok = norm(ast.unparse(loop.iter)) == norm('range(3, n + 1)')
        n_of = Tr({np1: 'np1'}, mode='num').expr(body['n'])
        A = N(body['A'], {'alpha': 'alpha', 'n': 'n', 'x': 'x'})
        B = N(body['B'], {'alpha': 'alpha', 'n': 'n'})
        step = N(body['Lnp1'], {'n': 'n', 'A': 'A', 'B': 'B', 'Ln': 'l1', 'Lnm1': 'l0'})
        r = returns_in_order(fv)
        r0 = norm(ast.unparse(r[0])) == norm('np.ones_like(x)')
        l1 = N(r[1], {'alpha': 'alpha', 'x': 'x'})
        A2 = N(find_assign(fv, 'A', which=0), {'alpha': 'alpha', 'x': 'x'})
        B2 = N(find_assign(fv, 'B', which=0), {'alpha': 'alpha'})
        l2 = N(find_assign(fv, 'Lnp1', which=0), {'A': 'A', 'B': 'B', 'Ln': 'l1', 'Lnm1': 'l0'})
        shift = any(stmt_is(s, 'Ln, Lnm1 = Lnp1, Ln') for s in loop.body)
        return '\n'.join([
            f'def lagDerOrder (n : Int) : Int := {order}',
            f'def lagDerShape (alpha : K) : K := {shape_}',
            f'def lagDerIsMinusOneToTheKTimesLaguerreAtSamePoint : Bool := {tri(k_ok and sign_ok and arg_ok)}',
            f'def lagRecN (np1 : K) : K := {n_of}',
            f'def lagRecA (alpha n x : K) : K := {A}',
            f'def lagRecB (alpha n : K) : K := {B}',
            f'def lagRecStep (n A B l1 l0 : K) : K := {step}',
            f'def lagL1 (alpha x : K) : K := {l1}',
            f'def lagL2 (alpha x l1 l0 : K) : K := (fun A B => {l2}) ({A2}) ({B2})',
            f'def lagRecStructure : Bool := {tri(rng_ok and r0 and shift)}',
        ])
    g.item('laguerre', f'{LAG}:laguerre,laguerre_der', lambda: get_def(lag, 'laguerre_der'), laguerre_items,
           '\n'.join(['def lagDerOrder (n : Int) : Int := n - 1', 'def lagDerShape (alpha : K) : K := alpha + ofInt 1',
                      'def lagDerIsMinusOneToTheKTimesLaguerreAtSamePoint : Bool := true',
                      'def lagRecN (np1 : K) : K := np1 - ofInt 1',
                      'def lagRecA (alpha n x : K) : K := alpha + ofInt 2 * n + ofInt 1 - x',
                      'def lagRecB (alpha n : K) : K := alpha + n',
                      'def lagRecStep (n A B l1 l0 : K) : K := ofInt 1 / (n + ofInt 1) * (A * l1 - B * l0)',
                      'def lagL1 (alpha x : K) : K := alpha + ofInt 1 - x',
                      'def lagL2 (alpha x l1 l0 : K) : K := ofFrac 1 2 * ((alpha + ofInt 3 - x) * l1 - (alpha + ofInt 1) * l0)',
                      'def lagRecStructure : Bool := true']))

    def jacobi_der_item():
        # path-wise symbolic execution: local names (coef, Pn, ...) and extracted helpers do not matter
        fn = get_def(jac, 'jacobi_der')
        paths = SymEx(jac).run(fn)
        c0, c1 = canon_cond(ast.parse('n == 0', mode='eval').body, True)[0], canon_cond(ast.parse('n == 1', mode='eval').body, True)[0]
        if any(p.kind != 'return' or p.events for p in paths):
            raise Untranslatable('jacobi_der: a path does not end in a plain return')
        zero = [p for p in paths if p.cond(c0) is True]
        one = [p for p in paths if p.cond(c0) is False and p.cond(c1) is True]
        gen = [p for p in paths if p.cond(c0) is False and p.cond(c1) is False]
        if len(zero) != 1 or len(one) != 1 or len(gen) != 1 or len(paths) != 3:
            raise Untranslatable('jacobi_der: n == 0 / n == 1 / general paths not found')
        if norm(unp(zero[0].value)) != norm('np.zeros_like(x)'):
            raise Untranslatable('jacobi_der: order 0 does not return zeros')
        one_node = one[0].value
        if isinstance(one_node, ast.Call) and ast.unparse(one_node.func) in ('np.full_like', 'numpy.full_like') and len(one_node.args) == 2 \
                and not one_node.keywords and ast.unparse(one_node.args[0]) == 'x' and 'x' in float_entry_params(raw_def(jac, 'jacobi_der')):
            # a constant array shaped and typed like x: the constant itself, PROVIDED x was made floating point on entry (on an
            # integer x the fill value would be truncated - obligation gen_no_coordinate_typed_fill)
            one_node = ast.BinOp(left=ast.parse('np.ones_like(x)', mode='eval').body, op=ast.Mult(), right=one_node.args[1])
        one_val = Tr(nenv({'np.ones_like(x)': '(ofInt 1)', 'n': '(ofInt 1)', 'alpha': 'alpha', 'beta': 'beta'}), mode='num').expr(one_node)
        val = gen[0].value
        if not (isinstance(val, ast.BinOp) and isinstance(val.op, ast.Mult)):
            raise Untranslatable('jacobi_der: the general order is not a product')
        is_jac = [isinstance(e, ast.Call) and ast.unparse(e.func) == 'jacobi' for e in (val.left, val.right)]
        if sum(is_jac) != 1:
            raise Untranslatable('jacobi_der: the general order is not (coefficient) * jacobi(...)')
        call, coef_node = (val.left, val.right) if is_jac[0] else (val.right, val.left)
        if find_calls(coef_node, 'jacobi') or any(isinstance(n, ast.Name) and n.id == 'x' for n in ast.walk(coef_node)):
            raise Untranslatable('jacobi_der: the coefficient depends on the point')
        order = I(call.args[0], ['n'])
        a1 = N(call.args[1], {'alpha': 'alpha'})
        b1 = N(call.args[2], {'beta': 'beta'})
        arg_ok = len(call.args) == 4 and not call.keywords and ast.unparse(call.args[3]) == 'x'
        coef = N(coef_node, {'n': 'n', 'alpha': 'alpha', 'beta': 'beta'})
        return '\n'.join([
            f'def jacDerCoef (n alpha beta : K) : K := {coef}',
            f'def jacDerOrder (n : Int) : Int := {order}',
            f'def jacDerShape (alpha beta : K) : K × K := ({a1}, {b1})',
            f'def jacDerAtOrderOne (alpha beta : K) : K := {one_val}',
            f'def jacDerIsCoefTimesJacobiAtSamePoint : Bool := {tri(arg_ok)}',
        ])
    g.item('jacobi_der', f'{JAC}:jacobi_der', lambda: get_def(jac, 'jacobi_der'), jacobi_der_item,
           '\n'.join(['def jacDerCoef (n alpha beta : K) : K := ofFrac 1 2 * (n + alpha + beta + ofInt 1)',
                      'def jacDerOrder (n : Int) : Int := n - 1',
                      'def jacDerShape (alpha beta : K) : K × K := (alpha + ofInt 1, beta + ofInt 1)',
                      'def jacDerAtOrderOne (alpha beta : K) : K := ofInt 1 * (ofFrac 1 2 * (ofInt 1 + alpha + beta + ofInt 1))',
                      'def jacDerIsCoefTimesJacobiAtSamePoint : Bool := true']))


    # ---------------------------------------------------------------- sequence forms: the sweeps of the *_der_seq routines
    g.item('hermite_der_seq', f'{HER}:hermite_He_der_seq,hermite_H_der_seq', lambda: get_def(her, 'hermite_H_der_seq'),
           lambda: hermite_seq_item(her), 'def heSeqRow0 (x : K) : K := (Num.ofInt (0))\ndef heSeqRow1 (x : K) : K := (Num.ofInt (1))\ndef heSeqRow2 (x : K) : K := ((Num.ofInt (2)) * x)\ndef heSeqInit (x : K) : K × K := (x, ((x * x) - (Num.ofInt (1))))\ndef heSeqNext (nn x q2 q1 : K) : K × K := (q1, ((x * q1) - ((nn - (Num.ofInt (1))) * q2)))\ndef heSeqEmit (nn x q2 q1 : K) : K := (nn * q1)\ndef heSeqLoopStart : Int := 3\ndef heSeqStructure : Bool := true\ndef hSeqRow0 (x : K) : K := (Num.ofInt (0))\ndef hSeqRow1 (x : K) : K := (Num.ofInt (2))\ndef hSeqRow2 (x : K) : K := ((Num.ofInt (4)) * ((Num.ofInt (2)) * x))\ndef hSeqInit (x : K) : K × K := (((Num.ofInt (2)) * x), (((Num.ofInt (4)) * (x * x)) - (Num.ofInt (2))))\ndef hSeqNext (nn x q2 q1 : K) : K × K := (q1, ((((Num.ofInt (2)) * x) * q1) - (((Num.ofInt (2)) * (nn - (Num.ofInt (1)))) * q2)))\ndef hSeqEmit (nn x q2 q1 : K) : K := (((Num.ofInt (2)) * nn) * q1)\ndef hSeqLoopStart : Int := 3\ndef hSeqStructure : Bool := true')
    g.item('jacobi_der_seq', f'{JAC}:jacobi_der_seq', lambda: get_def(jac, 'jacobi_der_seq'),
           lambda: jacobi_seq_item(jac), 'def jacSeqRow0 (alpha beta x A B C : K) : K := (Num.ofInt (0))\ndef jacSeqRow1 (alpha beta x A B C : K) : K := ((Num.ofFrac (1) 2) * ((((Num.ofInt (1)) + alpha) + beta) + (Num.ofInt (1))))\ndef jacSeqRow2 (alpha beta x A B C : K) : K := ((((alpha + (Num.ofInt (1))) + (Num.ofInt (1))) + ((((alpha + (Num.ofInt (1))) + (beta + (Num.ofInt (1)))) + (Num.ofInt (2))) * ((x - (Num.ofInt (1))) / (Num.ofInt (2))))) * ((Num.ofFrac (1) 2) * ((((Num.ofInt (2)) + alpha) + beta) + (Num.ofInt (1)))))\ndef jacSeqRow3 (alpha beta x A B C : K) : K := (((((A * x) + B) * (((alpha + (Num.ofInt (1))) + (Num.ofInt (1))) + ((((alpha + (Num.ofInt (1))) + (beta + (Num.ofInt (1)))) + (Num.ofInt (2))) * ((x - (Num.ofInt (1))) / (Num.ofInt (2)))))) - C) * ((Num.ofFrac (1) 2) * ((((Num.ofInt (3)) + alpha) + beta) + (Num.ofInt (1)))))\ndef jacSeqInit (alpha beta x A B C : K) : K × K := ((((alpha + (Num.ofInt (1))) + (Num.ofInt (1))) + ((((alpha + (Num.ofInt (1))) + (beta + (Num.ofInt (1)))) + (Num.ofInt (2))) * ((x - (Num.ofInt (1))) / (Num.ofInt (2))))), ((((A * x) + B) * (((alpha + (Num.ofInt (1))) + (Num.ofInt (1))) + ((((alpha + (Num.ofInt (1))) + (beta + (Num.ofInt (1)))) + (Num.ofInt (2))) * ((x - (Num.ofInt (1))) / (Num.ofInt (2)))))) - C))\ndef jacSeqNext (i alpha beta x A B C q1 q0 : K) : K × K := (q0, ((((A * x) + B) * q0) - (C * q1)))\ndef jacSeqEmit (i alpha beta x A B C q1 q0 : K) : K := (q0 * ((Num.ofFrac (1) 2) * (((i + alpha) + beta) + (Num.ofInt (1)))))\ndef jacSeqShape (alpha beta : K) : K × K := ((alpha + (Num.ofInt (1))), (beta + (Num.ofInt (1))))\ndef jacSeqInitABCIdx : Int := (1 : Int)\ndef jacSeqABCIdx (i : Int) : Int := (i - (1 : Int))\ndef jacSeqLoopStart : Int := 3\ndef jacSeqStructure : Bool := true')

    def deleg():
        che, _ = load(repo, 'prysm/polynomials/cheby.py')
        leg, _ = load(repo, 'prysm/polynomials/legendre.py')
        return delegations(che, leg, lag, zer)
    g.item('delegating_derivatives', f'prysm/polynomials/cheby.py:cheby1..4(_der)(_seq) prysm/polynomials/legendre.py:legendre(_der)(_seq) '
           f'{LAG}:laguerre_der_seq {ZER}:zernike_nm_der_seq', lambda: get_def(lag, 'laguerre_der_seq'), deleg,
           'def cheby1Shape : K × K := ((Num.ofFrac (-1) 2), (Num.ofFrac (-1) 2))\ndef cheby1NormShape : K × K := ((Num.ofFrac (-1) 2), (Num.ofFrac (-1) 2))\ndef cheby1Num (n : K) : K := (Num.ofInt (1))\ndef cheby1DerShape : K × K := ((Num.ofFrac (-1) 2), (Num.ofFrac (-1) 2))\ndef cheby1DerNormShape : K × K := ((Num.ofFrac (-1) 2), (Num.ofFrac (-1) 2))\ndef cheby1DerNum (n : K) : K := (Num.ofInt (1))\ndef cheby1SeqShape : K × K := ((Num.ofFrac (-1) 2), (Num.ofFrac (-1) 2))\ndef cheby1SeqNormShape : K × K := ((Num.ofFrac (-1) 2), (Num.ofFrac (-1) 2))\ndef cheby1SeqNum (n : K) : K := (Num.ofInt (1))\ndef cheby1DerSeqShape : K × K := ((Num.ofFrac (-1) 2), (Num.ofFrac (-1) 2))\ndef cheby1DerSeqNormShape : K × K := ((Num.ofFrac (-1) 2), (Num.ofFrac (-1) 2))\ndef cheby1DerSeqNum (n : K) : K := (Num.ofInt (1))\ndef cheby2Shape : K × K := ((Num.ofFrac (1) 2), (Num.ofFrac (1) 2))\ndef cheby2NormShape : K × K := ((Num.ofFrac (1) 2), (Num.ofFrac (1) 2))\ndef cheby2Num (n : K) : K := (n + (Num.ofInt (1)))\ndef cheby2DerShape : K × K := ((Num.ofFrac (1) 2), (Num.ofFrac (1) 2))\ndef cheby2DerNormShape : K × K := ((Num.ofFrac (1) 2), (Num.ofFrac (1) 2))\ndef cheby2DerNum (n : K) : K := (n + (Num.ofInt (1)))\ndef cheby2SeqShape : K × K := ((Num.ofFrac (1) 2), (Num.ofFrac (1) 2))\ndef cheby2SeqNormShape : K × K := ((Num.ofFrac (1) 2), (Num.ofFrac (1) 2))\ndef cheby2SeqNum (n : K) : K := (n + (Num.ofInt (1)))\ndef cheby2DerSeqShape : K × K := ((Num.ofFrac (1) 2), (Num.ofFrac (1) 2))\ndef cheby2DerSeqNormShape : K × K := ((Num.ofFrac (1) 2), (Num.ofFrac (1) 2))\ndef cheby2DerSeqNum (n : K) : K := (n + (Num.ofInt (1)))\ndef cheby3Shape : K × K := ((Num.ofFrac (-1) 2), (Num.ofFrac (1) 2))\ndef cheby3NormShape : K × K := ((Num.ofFrac (-1) 2), (Num.ofFrac (1) 2))\ndef cheby3Num (n : K) : K := (Num.ofInt (1))\ndef cheby3DerShape : K × K := ((Num.ofFrac (-1) 2), (Num.ofFrac (1) 2))\ndef cheby3DerNormShape : K × K := ((Num.ofFrac (-1) 2), (Num.ofFrac (1) 2))\ndef cheby3DerNum (n : K) : K := (Num.ofInt (1))\ndef cheby3SeqShape : K × K := ((Num.ofFrac (-1) 2), (Num.ofFrac (1) 2))\ndef cheby3SeqNormShape : K × K := ((Num.ofFrac (-1) 2), (Num.ofFrac (1) 2))\ndef cheby3SeqNum (n : K) : K := (Num.ofInt (1))\ndef cheby3DerSeqShape : K × K := ((Num.ofFrac (-1) 2), (Num.ofFrac (1) 2))\ndef cheby3DerSeqNormShape : K × K := ((Num.ofFrac (-1) 2), (Num.ofFrac (1) 2))\ndef cheby3DerSeqNum (n : K) : K := (Num.ofInt (1))\ndef cheby4Shape : K × K := ((Num.ofFrac (1) 2), (Num.ofFrac (-1) 2))\ndef cheby4NormShape : K × K := ((Num.ofFrac (1) 2), (Num.ofFrac (-1) 2))\ndef cheby4Num (n : K) : K := (((Num.ofInt (2)) * n) + (Num.ofInt (1)))\ndef cheby4DerShape : K × K := ((Num.ofFrac (1) 2), (Num.ofFrac (-1) 2))\ndef cheby4DerNormShape : K × K := ((Num.ofFrac (1) 2), (Num.ofFrac (-1) 2))\ndef cheby4DerNum (n : K) : K := (((Num.ofInt (2)) * n) + (Num.ofInt (1)))\ndef cheby4SeqShape : K × K := ((Num.ofFrac (1) 2), (Num.ofFrac (-1) 2))\ndef cheby4SeqNormShape : K × K := ((Num.ofFrac (1) 2), (Num.ofFrac (-1) 2))\ndef cheby4SeqNum (n : K) : K := (((Num.ofInt (2)) * n) + (Num.ofInt (1)))\ndef cheby4DerSeqShape : K × K := ((Num.ofFrac (1) 2), (Num.ofFrac (-1) 2))\ndef cheby4DerSeqNormShape : K × K := ((Num.ofFrac (1) 2), (Num.ofFrac (-1) 2))\ndef cheby4DerSeqNum (n : K) : K := (((Num.ofInt (2)) * n) + (Num.ofInt (1)))\ndef legendreShape : K × K := ((Num.ofInt (0)), (Num.ofInt (0)))\ndef legendreDerShape : K × K := ((Num.ofInt (0)), (Num.ofInt (0)))\ndef legendreSeqShape : K × K := ((Num.ofInt (0)), (Num.ofInt (0)))\ndef legendreDerSeqShape : K × K := ((Num.ofInt (0)), (Num.ofInt (0)))\ndef chebyLegendreDerivativesDelegateToJacobiAtSameOrdersAndPoint : Bool := true\ndef lagSeqOrder (n : Int) : Int := (n - (1 : Int))\ndef lagSeqShape (alpha : K) : K := (alpha + (ofInt 1))\ndef lagSeqRowsAreZeroBelowOrderOneAndMinusLaguerreSeqAbove : Bool := true\ndef zernSeqRowIsTheSingleFormAtTheSameArguments : Bool := true')

    # ---------------------------------------------------------------- zernike_nm_der
    def zern_roles():
        def has_call(name):
            return lambda v, found: any(isinstance(c, ast.Call) and ast.unparse(c.func) == name for c in ast.walk(v))

        def der_call_arg(k):
            def finder(fn, found):
                calls = find_calls(fn, 'jacobi_der')
                return calls[0].args[k].id if len(calls) == 1 and isinstance(calls[0].args[k], ast.Name) else None
            return finder

        def ret_elt(k):
            def finder(fn, found):
                r = returns_in_order(fn)[-1]
                return r.elts[k].id if isinstance(r, ast.Tuple) and len(r.elts) == 2 and isinstance(r.elts[k], ast.Name) else None
            return finder

        def is_pow(v, found, minus_one):
            for q in ast.walk(v):
                if isinstance(q, ast.BinOp) and isinstance(q.op, ast.Pow) and ast.unparse(q.left) == 'r':
                    e = ast.unparse(q.right).replace(' ', '')
                    am = found.get('am', 'am')
                    if e == (f'{am}-1' if minus_one else am):
                        return True
            return False
        return [
            ('am', local_assigned_with(lambda v, f: ast.unparse(v) == 'abs(m)')),
            ('x', der_call_arg(3)), ('n_j', der_call_arg(0)),
            ('dv', local_assigned_with(has_call('jacobi_der'))),
            ('v', local_assigned_with(lambda v, f: isinstance(v, ast.Call) and ast.unparse(v.func) == 'jacobi')),
            ('u', local_assigned_with(lambda v, f: isinstance(v, ast.BinOp) and isinstance(v.op, ast.Pow) and is_pow(v, f, False))),
            ('du', local_assigned_with(lambda v, f: is_pow(v, f, True))),
            ('znorm', local_assigned_with(lambda v, f: isinstance(v, ast.Call) and ast.unparse(v.func) == 'zernike_norm')),
            ('dr', ret_elt(0)), ('dt', ret_elt(1)),
        ]

    def zern():
        # locals are renamed to the names used below when their roles can be told from what they are assigned
        fn = canonical_locals(get_def(zer, 'zernike_nm_der'), zern_roles())
        x = N(find_assign(fn, 'x'), {'r': 'r'})
        am_ok = norm(ast.unparse(find_assign(fn, 'am'))) == norm('abs(m)')
        nj = Tr({'n': 'n', 'am': 'am'}, mode='int').expr(find_assign(fn, 'n_j'))
        dvn = find_assign(fn, 'dv')
        dcall = find_calls(dvn, 'jacobi_der')
        if len(dcall) != 1 or [ast.unparse(a) for a in dcall[0].args] != ['n_j', '0', 'am', 'x']:
            raise Untranslatable('dv does not call jacobi_der(n_j, 0, am, x)')
        dv = Tr(nenv({'r': 'r', ast.unparse(dcall[0]): 'jd'}), mode='num').expr(dvn)
        vcall = find_assign(fn, 'v')
        v_ok = norm(ast.unparse(vcall)) == norm('jacobi(n_j, 0, am, x)')
        u_ok = norm(ast.unparse(find_assign(fn, 'u'))) == norm('r ** am')
        du = Tr(nenv({'am': 'am', 'r ** (am - 1)': 'rpm1'}), mode='num').expr(find_assign(fn, 'du'))
        drs = find_assigns(fn, 'dr')
        dr_m0 = norm(ast.unparse(drs[0])) == 'dv'
        dr = N(drs[1], {'v': 'v', 'du': 'du', 'u': 'u', 'dv': 'dv'})
        dts = find_assigns(fn, 'dt')
        dt0 = norm(ast.unparse(dts[0])) == norm('np.zeros_like(dv)')
        dt_neg = Tr(nenv({'am': 'am', 'np.cos(am * t)': 'c'}), mode='num').expr(dts[1])
        dt_pos = Tr(nenv({'m': 'm', 'np.sin(m * t)': 's'}), mode='num').expr(dts[2])
        # which trig function multiplies dr in which branch
        augs = [(norm(ast.unparse(s.target)), norm(ast.unparse(s.value))) for s in ast.walk(fn) if isinstance(s, ast.AugAssign) and isinstance(s.op, ast.Mult)]
        want = [('dr', norm('np.sin(am * t)')), ('dr', norm('np.cos(m * t)')), ('dt', 'u'), ('dt', 'v'), ('dt', 'znorm'), ('dr', 'znorm')]
        aug_ok = sorted(augs) == sorted(want)
        branch = [s for s in ast.walk(fn) if isinstance(s, ast.If) and norm(ast.unparse(s.test)) == norm('m < 0')]
        br_ok = len(branch) == 1 and any(stmt_is(s, 'dr *= np.sin(am * t)') for s in branch[0].body) \
            and any(stmt_is(s, 'dr *= np.cos(m * t)') for s in branch[0].orelse)
        ret_ok = norm(ast.unparse(returns_in_order(fn)[-1])) == norm('(dr, dt)')
        return '\n'.join([
            f'def zernX (r : K) : K := {x}',
            f'def zernNj (n am : Int) : Int := {nj}',
            f'def zernDv (r jd : K) : K := {dv}',
            f'def zernDu (am rpm1 : K) : K := {du}',
            f'def zernDr (v du u dv : K) : K := {dr}',
            f'def zernDtNeg (am c : K) : K := {dt_neg}',
            f'def zernDtPos (m s : K) : K := {dt_pos}',
            f'def zernStructure : Bool := {tri(am_ok and v_ok and u_ok and dr_m0 and dt0 and aug_ok and br_ok and ret_ok)}',
        ])
    g.item('zernike_nm_der', f'{ZER}:zernike_nm_der', lambda: get_def(zer, 'zernike_nm_der'), zern,
           '\n'.join(['def zernX (r : K) : K := ofInt 2 * npow r 2 - ofInt 1', 'def zernNj (n am : Int) : Int := (n - am) / 2',
                      'def zernDv (r jd : K) : K := ofInt 4 * r * jd', 'def zernDu (am rpm1 : K) : K := am * rpm1',
                      'def zernDr (v du u dv : K) : K := v * du + u * dv', 'def zernDtNeg (am c : K) : K := am * c',
                      'def zernDtPos (m s : K) : K := -m * s', 'def zernStructure : Bool := true']))

    # ---------------------------------------------------------------- compute_z_zprime_Qbfs / _Qcon
    def zz_straight(name, start_after, table, lname):
        fn = get_def(qp, name)
        k0 = None
        for k, s in enumerate(fn.body):
            if isinstance(s, ast.Assign) and ast.unparse(s.targets[0]) == 'alphas':
                k0 = k
        if k0 is None:
            raise Untranslatable(f'{name}: no alphas = ... statement')
        tr = Tr(nenv(table), mode='num', funcs={'product_rule': lambda a: f'(({a[0]} * {a[3]}) + ({a[1]} * {a[2]}))'})
        return fn, k0, tr

    def zzqbfs():
        fn, k0, tr = zz_straight('compute_z_zprime_Qbfs', None,
                                 {'alphas[0][0]': 'a00', 'alphas[0][1]': 'a01', 'alphas[1][0]': 'a10', 'alphas[1][1]': 'a11', 'u': 'u', 'usq': 'usq'}, 'zzQbfs')
        call = fn.body[k0].value
        call_ok = norm(ast.unparse(call)) == norm('clenshaw_qbfs_der(coefs, usq, j=1)')
        rest = fn.body[k0 + 1:]
        # the one-term branch: `if len(coefs) > 1: <two-entry read> else: <one-entry read>`
        if isinstance(rest[0], ast.If) and norm(ast.unparse(rest[0].test)) == norm('len(coefs) > 1'):
            many = body_to_lean(rest[0].body + rest[1:], tr, '  ')
            one = body_to_lean(rest[0].orelse + rest[1:], tr, '  ')
        else:
            # any other way of writing the split (conditional expressions, a flag, early return): execute the rest path-wise and
            # translate what each path returns, with every local expanded
            paths = SymEx(qp, inline=lambda nm: nm.startswith('_')).block(list(rest), {}, [], [])
            split = canon_cond(ast.parse('len(coefs) > 1', mode='eval').body, True)[0]
            alt = canon_cond(ast.parse('len(coefs) == 1', mode='eval').body, True)[0]
            if len(paths) != 2 or any(q.kind != 'return' or q.events or len(q.conds) != 1 for q in paths):
                raise Untranslatable('read-out is not a two-way split')
            if all(q.conds[0][0] == split for q in paths):
                pm = [q for q in paths if q.conds[0][1]][0]
            elif all(q.conds[0][0] == alt for q in paths):
                pm = [q for q in paths if not q.conds[0][1]][0]
            else:
                raise Untranslatable(f'read-out splits on {paths[0].conds[0][0]}')
            po = [q for q in paths if q is not pm][0]
            def pair(v):
                if not (isinstance(v, ast.Tuple) and len(v.elts) == 2):
                    raise Untranslatable('does not return a pair')
                return f'({tr.expr(v.elts[0])}, {tr.expr(v.elts[1])})'
            many, one = pair(pm.value), pair(po.value)
        pr = get_def(qp, 'product_rule')
        pr_ok = norm(ast.unparse(returns_in_order(pr)[-1])) == norm('u * dv + v * du') and [a.arg for a in pr.args.args] == ['u', 'v', 'du', 'dv']
        return '\n'.join([
            f'def zzQbfsMany (a00 a01 a10 a11 u usq : K) : K × K :=\n  {many}',
            f'def zzQbfsOne (a00 a10 u usq : K) : K × K :=\n  {one}',
            f'def zzQbfsUsesFirstDerivativeTable : Bool := {tri(call_ok and pr_ok)}',
        ])
    g.item('compute_z_zprime_Qbfs', f'{QP}:compute_z_zprime_Qbfs', lambda: get_def(qp, 'compute_z_zprime_Qbfs'), zzqbfs,
           '\n'.join(['def zzQbfsMany (a00 a01 a10 a11 u usq : K) : K × K := '
                      '(ofInt 2 * (a00 + a01) * (usq * (ofInt 1 - usq)), '
                      '(usq * (ofInt 1 - usq)) * ((a10 + a11) * ofInt 4 * u) + (ofInt 2 * (a00 + a01)) * (ofInt 2 * u - ofInt 4 * (usq * u)))',
                      'def zzQbfsOne (a00 a10 u usq : K) : K × K := '
                      '(ofInt 2 * a00 * (usq * (ofInt 1 - usq)), '
                      '(usq * (ofInt 1 - usq)) * (a10 * ofInt 4 * u) + (ofInt 2 * a00) * (ofInt 2 * u - ofInt 4 * (usq * u)))',
                      'def zzQbfsUsesFirstDerivativeTable : Bool := true']))

    def zzqcon():
        fn, k0, tr = zz_straight('compute_z_zprime_Qcon', None,
                                 {'alphas[0][0]': 'a00', 'alphas[1][0]': 'a10', 'u': 'u', 'usq': 'usq'}, 'zzQcon')
        call = fn.body[k0].value
        call_ok = norm(ast.unparse(call)) == norm('jacobi_sum_clenshaw_der(coefs, 0, 4, x=x, j=1)')
        x = N(find_assign(fn, 'x'), {'usq': 'usq'})
        body = body_to_lean(fn.body[k0 + 1:], tr, '  ')
        return '\n'.join([
            f'def zzQconX (usq : K) : K := {x}',
            f'def zzQconAssemble (a00 a10 u usq : K) : K × K :=\n  {body}',
            f'def zzQconUsesJacobi04FirstDerivativeTable : Bool := {tri(call_ok)}',
        ])
    g.item('compute_z_zprime_Qcon', f'{QP}:compute_z_zprime_Qcon', lambda: get_def(qp, 'compute_z_zprime_Qcon'), zzqcon,
           '\n'.join(['def zzQconX (usq : K) : K := ofInt 2 * usq - ofInt 1',
                      'def zzQconAssemble (a00 a10 u usq : K) : K × K := '
                      '(a00 * (usq * usq), (usq * usq) * (a10 * ofInt 4 * u) + a00 * (ofInt 4 * (usq * u)))',
                      'def zzQconUsesJacobi04FirstDerivativeTable : Bool := true']))

    # ---------------------------------------------------------------- compute_z_zprime_Q2d: slope terms
    def zzq2d():
        fn = get_def(qp, 'compute_z_zprime_Q2d')
        (loop,) = for_loops(fn)
        tw = N(find_assign(fn, 'twousq'), {'usq': 'usq'})
        at = N(find_assign(fn, 'aterm'), {'cost': 'c', 'twousq': 'tw', 'Sprimea': 'Spa', 'm': 'm', 'Sa': 'Sa'})
        bt = N(find_assign(fn, 'bterm'), {'sint': 's', 'twousq': 'tw', 'Sprimeb': 'Spb', 'm': 'm', 'Sb': 'Sb'})
        augs = {ast.unparse(s.target): s.value for s in loop.body if isinstance(s, ast.AugAssign) and isinstance(s.op, ast.Add)}
        augs.pop('m', None)
        if sorted(augs) != ['dr', 'dt', 'z']:
            raise Untranslatable(f'loop accumulates into {sorted(augs)}')
        dr = N(augs['dr'], {'umm1': 'umm1', 'aterm': 'ta', 'bterm': 'tb'})
        dt = N(augs['dt'], {'m': 'm', 'um': 'um', 'Sa': 'Sa', 'Sb': 'Sb', 'sint': 's', 'cost': 'c'})
        umm1_ok = norm(ast.unparse(find_assign(fn, 'umm1'))) == norm('u ** (m - 1)')
        usq_ok = norm(ast.unparse(find_assign(fn, 'usq'))) == norm('u * u')
        # each side's sum and slope are read from clenshaw_q2d_der(<its own coefficient list>, m, usq): path-wise analysis shared
        # with C10 (the two sides may be written out in the loop or live in a helper called once per side)
        sd = q2d_sides(qp, fn, loop)['sides']
        calls_ok = all(r['ok'] and r['coef_ok'] for r in sd.values()) and sd['Sa']['call'] == sd['Sprimea']['call'] \
            and sd['Sb']['call'] == sd['Sprimeb']['call'] and all(r.get('threshold') == 2 for r in sd.values())
        # the m = 1 correction guarded by `N > K` with a literal K other than 2: recognised and wrong (sag and slope of that side
        # lose or gain the -2/5 alpha_3 term for lists of exactly K + 1 or fewer coefficients)
        thr_wrong = any(r.get('threshold') not in (None, 2) for r in sd.values())
        m0 = [s for s in fn.body if isinstance(s, ast.If) and 'cm0' in ast.unparse(s.test) and not is_rebind(s, 'cm0')]
        m0_ok = len(m0) == 1 and any(stmt_is(s, 'zm0, zprimem0 = compute_z_zprime_Qbfs(cm0, u, usq)') for s in m0[0].body) \
            and any(stmt_is(s, 'dr += zprimem0') for s in m0[0].body)
        ret_ok = norm(ast.unparse(returns_in_order(fn)[-1])) == norm('(z, dr, dt)')
        return '\n'.join([
            f'def zzQ2dTwoUsq (usq : K) : K := {tw}',
            f'def zzQ2dATerm (c tw Spa m Sa : K) : K := {at}',
            f'def zzQ2dBTerm (s tw Spb m Sb : K) : K := {bt}',
            f'def zzQ2dDr (umm1 ta tb : K) : K := {dr}',
            f'def zzQ2dDt (m um Sa Sb s c : K) : K := {dt}',
            f'def zzQ2dSlopeStructure : Bool := {tri(umm1_ok and usq_ok and calls_ok and m0_ok and ret_ok, wrong=thr_wrong)}',
        ])
    g.item('compute_z_zprime_Q2d.slopes', f'{QP}:compute_z_zprime_Q2d', lambda: get_def(qp, 'compute_z_zprime_Q2d'), zzq2d,
           '\n'.join(['def zzQ2dTwoUsq (usq : K) : K := ofInt 2 * usq',
                      'def zzQ2dATerm (c tw Spa m Sa : K) : K := c * (tw * Spa + m * Sa)',
                      'def zzQ2dBTerm (s tw Spb m Sb : K) : K := s * (tw * Spb + m * Sb)',
                      'def zzQ2dDr (umm1 ta tb : K) : K := umm1 * (ta + tb)',
                      'def zzQ2dDt (m um Sa Sb s c : K) : K := m * um * (-Sa * s + Sb * c)',
                      'def zzQ2dSlopeStructure : Bool := true']))

    # ---------------------------------------------------------------- x/raytracing/surfaces.py
    SQ = {'np.sqrt': lambda a: f'(sqrtF {a[0]})'}

    def strip_doc(stmts):
        return [s for s in stmts if not (isinstance(s, ast.Expr) and isinstance(s.value, ast.Constant))]

    def phi_none_split(fn):
        """`if phi is None: <stmts computing phi>` followed by `return <expr>` -> (stmts, return-expr)"""
        body = strip_doc(fn.body)
        ifs = [s for s in body if isinstance(s, ast.If) and norm(ast.unparse(s.test)) == norm('phi is None')]
        if len(ifs) != 1 or ifs[0].orelse:
            raise Untranslatable(f'{fn.name}: no single `if phi is None` block')
        rest = [s for s in body if s is not ifs[0]]
        return ifs[0].body, rest

    def radicand(stmts, names, extra=None):
        """lean term of the argument of np.sqrt in the last `phi = np.sqrt(...)` of stmts (earlier assignments inlined as lets)"""
        tr = Tr(nenv({n: n for n in names}), mode='num', funcs={'np.sqrt': lambda a: a[0], 'phi_spheroid': None} if False else {'np.sqrt': lambda a: a[0]})
        return body_to_lean(list(stmts[:-1]) + [ast.Return(value=stmts[-1].value)], tr, '  ')

    def simple_conics():
        out = []
        for name, lname, params in (('sphere_sag', 'surfSphereSag', ['c', 'rhosq']), ('conic_sag', 'surfConicSag', ['c', 'kappa', 'rhosq']),
                                    ('sphere_sag_der', 'surfSphereSagDer', ['c', 'rho']), ('conic_sag_der', 'surfConicSagDer', ['c', 'kappa', 'rho'])):
            fn = get_def(sur, name)
            inner, rest = phi_none_split(fn)
            if not (isinstance(inner[-1], ast.Assign) and ast.unparse(inner[-1].targets[0]) == 'phi'
                    and isinstance(inner[-1].value, ast.Call) and ast.unparse(inner[-1].value.func) == 'np.sqrt'):
                raise Untranslatable(f'{name}: phi is not np.sqrt(...)')
            rad = radicand(inner, params)
            ret = body_to_lean(rest, Tr(nenv({n: n for n in params + ['phi']}), mode='num'), '  ')
            binders = ' '.join(params)
            out.append(f'def {lname}Rad ({binders} : K) : K :=\n  {rad}')
            out.append(f'def {lname} ({binders} phi : K) : K :=\n  {ret}')
        # der_direction_cosine_spheroid + phi_spheroid
        fn = get_def(sur, 'der_direction_cosine_spheroid')
        body = strip_doc(fn.body)
        ifs = [s for s in body if isinstance(s, ast.If)]
        tests = sorted(norm(ast.unparse(s.test)) for s in ifs)
        if tests != sorted([norm('rhosq is None'), norm('phi is None')]):
            raise Untranslatable('der_direction_cosine_spheroid: unexpected optional-argument handling')
        rs = [s for s in ifs if norm(ast.unparse(s.test)) == norm('rhosq is None')][0]
        ph = [s for s in ifs if norm(ast.unparse(s.test)) == norm('phi is None')][0]
        rs_ok = len(rs.body) == 1 and stmt_is(rs.body[0], 'rhosq = rho * rho')
        ph_ok = len(ph.body) == 1 and stmt_is(ph.body[0], 'phi = phi_spheroid(c, k, rhosq)')
        rest = [s for s in body if s not in ifs]
        ret = body_to_lean(rest, Tr(nenv({n: n for n in ['c', 'k', 'rho', 'phi']}), mode='num'), '  ')
        out.append(f'def surfDirCosDer (c k rho phi : K) : K :=\n  {ret}')
        ps = get_def(sur, 'phi_spheroid')
        pbody = strip_doc(ps.body)
        if not (isinstance(pbody[-1], ast.Return) and isinstance(pbody[-1].value, ast.Call) and ast.unparse(pbody[-1].value.func) == 'np.sqrt'):
            raise Untranslatable('phi_spheroid does not return np.sqrt(...)')
        rad = body_to_lean(pbody[:-1] + [ast.Return(value=pbody[-1].value.args[0])], Tr(nenv({n: n for n in ['c', 'k', 'rhosq']}), mode='num'), '  ')
        out.append(f'def surfPhiSpheroidRad (c k rhosq : K) : K :=\n  {rad}')
        out.append(f'def surfDirCosUsesPhiSpheroidOfRhoSquared : Bool := {tri(rs_ok and ph_ok)}')
        return '\n'.join(out)
    g.item('surfaces.conics', f'{SUR}:sphere_sag,conic_sag,sphere_sag_der,conic_sag_der,der_direction_cosine_spheroid,phi_spheroid',
           lambda: get_def(sur, 'conic_sag_der'), simple_conics,
           '\n'.join(['def surfSphereSagRad (c rhosq : K) : K := ofInt 1 - (c * c) * rhosq',
                      'def surfSphereSag (c rhosq phi : K) : K := c * rhosq / (ofInt 1 + phi)',
                      'def surfConicSagRad (c kappa rhosq : K) : K := ofInt 1 - (ofInt 1 + kappa) * (c * c) * rhosq',
                      'def surfConicSag (c kappa rhosq phi : K) : K := c * rhosq / (ofInt 1 + phi)',
                      'def surfSphereSagDerRad (c rho : K) : K := ofInt 1 - (c * c) * (rho * rho)',
                      'def surfSphereSagDer (c rho phi : K) : K := c * rho / phi',
                      'def surfConicSagDerRad (c kappa rho : K) : K := ofInt 1 - (ofInt 1 + kappa) * (c * c) * (rho * rho)',
                      'def surfConicSagDer (c kappa rho phi : K) : K := c * rho / phi',
                      'def surfDirCosDer (c k rho phi : K) : K := (c * c) * (ofInt 1 + k) * rho / (phi * phi * phi)',
                      'def surfPhiSpheroidRad (c k rhosq : K) : K := ofInt 1 - (ofInt 1 + k) * (c * c) * rhosq',
                      'def surfDirCosUsesPhiSpheroidOfRhoSquared : Bool := true']))

    def branch_bodies(fn):
        """functions of the form: raise-guard; [prelude]; if dx != 0: A else: B; rest  ->  (prelude + A + rest, prelude + B + rest)"""
        body = strip_doc(fn.body)
        if not (isinstance(body[0], ast.If) and norm(ast.unparse(body[0].test)) == norm('dy != 0 and dx != 0')
                and isinstance(body[0].body[0], ast.Raise)):
            raise Untranslatable(f'{fn.name}: no exclusive dx/dy guard')
        body = body[1:]
        k = [i for i, s in enumerate(body) if isinstance(s, ast.If) and norm(ast.unparse(s.test)) == norm('dx != 0')]
        if len(k) != 1:
            raise Untranslatable(f'{fn.name}: no single `if dx != 0` split')
        k = k[0]
        return body[:k] + body[k].body + body[k + 1:], body[:k] + body[k].orelse + body[k + 1:]

    def off_axis():
        out = []
        table = {'c': 'c', 'kappa': 'kappa', 'r': 'r', 'dx': 's', 'dy': 's', 'np.cos(t)': 'cost', 'np.sin(t)': 'sint'}
        for name, lname in (('off_axis_conic_sag', 'surfOacSag'), ('off_axis_conic_der', 'surfOacDer'),
                            ('off_axis_conic_sigma', 'surfOacSigma'), ('off_axis_conic_sigma_der', 'surfOacSigmaDer')):
            fn = get_def(sur, name)
            bx, by = branch_bodies(fn)
            for tag, stmts in (('X', bx), ('Y', by)):
                t2 = dict(table)
                # (1 - phi_kernel) ** (3/2)  is the cube of phi = sqrt(1 - phi_kernel): handed to the uninterpreted pow32
                t2['(1 - phi_kernel) ** (3 / 2)'] = '(pow32 ((Num.ofInt (1)) - phi_kernel_))'
                tr = Tr(nenv(t2), mode='num', funcs=SQ)
                body = body_to_lean(stmts, tr, '  ')
                ret = 'K × K' if name.endswith('_der') else 'K'
                out.append(f'def {lname}{tag} (sqrtF pow32 : K → K) (c kappa r s cost sint : K) : {ret} :=\n  {body}')
        return '\n'.join(out)
    g.item('surfaces.off_axis', f'{SUR}:off_axis_conic_sag,off_axis_conic_der,off_axis_conic_sigma,off_axis_conic_sigma_der',
           lambda: get_def(sur, 'off_axis_conic_sigma_der'), off_axis,
           '\n'.join(
               [f'def surfOacSag{t} (sqrtF pow32 : K → K) (c kappa r s cost sint : K) : K := '
                f'Model.C09.conicSag c (Model.C09.oacAgg r s {ct}) (sqrtF (Model.C09.phiRad c kappa (Model.C09.oacAgg r s {ct})))\n'
                f'def surfOacDer{t} (sqrtF pow32 : K → K) (c kappa r s cost sint : K) : K × K := '
                f'Model.C09.oacDer c kappa r s {ct} {ctp} (sqrtF (Model.C09.phiRad c kappa (Model.C09.oacAgg r s {ct})))\n'
                f'def surfOacSigma{t} (sqrtF pow32 : K → K) (c kappa r s cost sint : K) : K := '
                f'Model.C09.oacSigma (sqrtF (Model.C09.phiRad c kappa (Model.C09.oacAgg r s {ct}))) (sqrtF (Model.C09.psiRad c kappa (Model.C09.oacAgg r s {ct})))\n'
                f'def surfOacSigmaDer{t} (sqrtF pow32 : K → K) (c kappa r s cost sint : K) : K × K := '
                f'Model.C09.oacSigmaInvDer c kappa r s {ct} {ctp} (sqrtF (Model.C09.phiRad c kappa (Model.C09.oacAgg r s {ct}))) '
                f'(sqrtF (Model.C09.psiRad c kappa (Model.C09.oacAgg r s {ct})))'
                for t, ct, ctp in (('X', 'cost', '(-sint)'), ('Y', 'sint', 'cost'))]))

    def q2d_and_der():
        fn = get_def(sur, 'Q2d_and_der')
        body = strip_doc(fn.body)
        k0 = [i for i, s in enumerate(body) if isinstance(s, ast.AugAssign) and ast.unparse(s.target) == 'zprimer']
        if len(k0) != 1:
            raise Untranslatable('no `zprimer /= normalization_radius`')
        tail = body[k0[0]:]
        tr = Tr(nenv({'sigma': 'sigInv', 'z': 'z', 'zprimer': 'zr', 'zprimet': 'zt', 'sigmaprimer': 'sr', 'sigmaprimet': 'st',
                      'base_sag': 'base', 'base_primer': 'br', 'base_primet': 'bt', 'normalization_radius': 'Rn'}), mode='num',
                funcs={'product_rule': lambda a: f'(({a[0]} * {a[3]}) + ({a[1]} * {a[2]}))'})
        asm = body_to_lean(tail, tr, '  ')
        head = body[:k0[0]]
        want = ['r, t = cart_to_polar(x, y)', 'r2 = r / normalization_radius',
                'z, zprimer, zprimet = compute_z_zprime_Q2d(cm0, ams, bms, r2, t)',
                'base_sag = off_axis_conic_sag(c, k, r, t, dx, dy)',
                'base_primer, base_primet = off_axis_conic_der(c, k, r, t, dx, dy)',
                'sigma = off_axis_conic_sigma(c, k, r, t, dx, dy)', 'sigma = 1 / sigma',
                'sigmaprimer, sigmaprimet = off_axis_conic_sigma_der(c, k, r, t, dx, dy)']
        ok = alpha_norm(head) == alpha_norm(ast.parse('\n'.join(want)).body)
        pr = get_def(sur, 'product_rule')
        pr_ok = norm(ast.unparse(returns_in_order(pr)[-1])) == norm('u * dv + v * du') and [a.arg for a in pr.args.args] == ['u', 'v', 'du', 'dv']
        return (f'def surfQ2dAsm (sigInv z zr zt sr st base br bt Rn : K) : K × K × K :=\n  {asm}\n'
                f'def surfQ2dFeedsTheAssemblyFromTheNamedRoutines : Bool := {tri(ok and pr_ok)}')
    g.item('surfaces.Q2d_and_der', f'{SUR}:Q2d_and_der', lambda: get_def(sur, 'Q2d_and_der'), q2d_and_der,
           'def surfQ2dAsm (sigInv z zr zt sr st base br bt Rn : K) : K × K × K := Model.C09.q2dAndDer sigInv z zr zt sr st base br bt Rn\n'
           'def surfQ2dFeedsTheAssemblyFromTheNamedRoutines : Bool := true')

    def iter_fact():
        return iter_params_fact(
            [(get_def(jac, 'jacobi_sum_clenshaw_der'), 's'), (get_def(qp, 'clenshaw_qbfs_der'), 'cs'), (get_def(qp, 'clenshaw_q2d_der'), 'cns'),
             (get_def(qp, 'compute_z_zprime_Qbfs'), 'coefs'), (get_def(qp, 'compute_z_zprime_Qcon'), 'coefs'),
             (get_def(jac, 'jacobi_der_seq'), 'ns'), (get_def(her, 'hermite_He_der_seq'), 'ns'), (get_def(her, 'hermite_H_der_seq'), 'ns'),
             (get_def(lag, 'laguerre_der_seq'), 'ns'), (get_def(zer, 'zernike_nm_der_seq'), 'nms')])
    g.fact('derivativeRoutinesReadIterableArgumentsOnceOrMaterialiseFirst',
           f'{JAC}:jacobi_sum_clenshaw_der,jacobi_der_seq {QP}:clenshaw_qbfs_der,clenshaw_q2d_der,compute_z_zprime_Qbfs,compute_z_zprime_Qcon '
           f'{HER}:hermite_He_der_seq,hermite_H_der_seq {LAG}:laguerre_der_seq {ZER}:zernike_nm_der_seq', iter_fact)

    COORDS = {'x', 'r', 't', 'u', 'usq'}

    def converted_first(fn):
        """coordinate parameters of fn that are re-bound to their floating-point copy before anything else reads them"""
        conv = float_entry_params(fn)
        out = set()
        for c, k in conv.items():
            if c in COORDS and not any(isinstance(n, ast.Name) and n.id == c for st in fn.body[:k] for n in ast.walk(st)):
                out.add(c)
        return out

    def fill_fact():
        # a constructor that takes its dtype from a coordinate array (np.full_like(x, v), np.full(shape, v, dtype=x.dtype), an output
        # table np.zeros / np.empty(shape, dtype=x.dtype) that the rows are stored into) truncates the computed values on integer
        # coordinates - unless the coordinates were made floating point first
        che, _ = load(repo, 'prysm/polynomials/cheby.py')
        leg, _ = load(repo, 'prysm/polynomials/legendre.py')
        fns = [(jac, 'jacobi_der'), (jac, 'jacobi_der_seq'), (her, 'hermite_He_der'), (her, 'hermite_H_der'), (her, 'hermite_He_der_seq'),
               (her, 'hermite_H_der_seq'), (lag, 'laguerre_der'), (lag, 'laguerre_der_seq'), (zer, 'zernike_nm_der'),
               (zer, 'zernike_nm_der_seq'), (leg, 'legendre_der'), (leg, 'legendre_der_seq')] + \
              [(che, f'cheby{k}_der{sfx}') for k in (1, 2, 3, 4) for sfx in ('', '_seq')]
        for mod, name in fns:
            fn = raw_def(mod, name)
            coords = ({a.arg for a in fn.args.args} & COORDS) - converted_first(fn)
            for c in ast.walk(fn):
                if not isinstance(c, ast.Call):
                    continue
                f = ast.unparse(c.func)
                has_dtype = any(k.arg == 'dtype' for k in c.keywords)
                if f.endswith('full_like') and c.args and ast.unparse(c.args[0]) in coords and not has_dtype:
                    fill = c.args[1] if len(c.args) > 1 else next((k.value for k in c.keywords if k.arg == 'fill_value'), None)
                    if not (isinstance(fill, ast.Constant) and isinstance(fill.value, int)):
                        return False
                if f.endswith(('np.full', 'np.array', 'np.asarray', 'np.zeros', 'np.empty')) and any(
                        k.arg == 'dtype' and ast.unparse(k.value) in {f'{q}.dtype' for q in coords} for k in c.keywords):
                    return False
        return True
    g.fact('derRoutinesDoNotFillCoordinateTypedArraysWithComputedValues',
           f'{JAC}:jacobi_der,jacobi_der_seq {HER}:hermite_*_der(_seq) {LAG}:laguerre_der(_seq) {ZER}:zernike_nm_der(_seq) cheby.py legendre.py', fill_fact)

    def float_fact():
        # the routines that do arithmetic of their own on the coordinates (x - 1, 2 - 4 * x, 1 - usq, -x, x * x, cos(m * t), an integer
        # recurrence) must re-bind every coordinate parameter to its floating-point copy before anything else reads it: in the
        # caller's narrow or unsigned integer type those expressions overflow or wrap around.  true: all do; false: one reads a
        # raw coordinate in an arithmetic expression / hands it to a value routine; unknown: some other shape
        must = [(jac, 'jacobi_der'), (jac, 'jacobi_der_seq'), (her, 'hermite_He_der'), (her, 'hermite_H_der'), (her, 'hermite_He_der_seq'),
                (her, 'hermite_H_der_seq'), (lag, 'laguerre_der'), (zer, 'zernike_nm_der'), (qp, 'clenshaw_qbfs_der'),
                (qp, 'clenshaw_q2d_der'), (qp, 'compute_z_zprime_Qbfs'), (qp, 'compute_z_zprime_Q2d')]
        unknown = False
        for mod, name in must:
            fn = raw_def(mod, name)
            for c in sorted({a.arg for a in fn.args.args} & COORDS):
                if c in converted_first(fn):
                    continue
                # not converted: is the raw coordinate used in arithmetic or handed to another routine?
                used = False
                for n in ast.walk(fn):
                    if isinstance(n, (ast.BinOp, ast.UnaryOp, ast.AugAssign)) and any(
                            isinstance(q, ast.Name) and q.id == c for q in ast.iter_child_nodes(n)):
                        used = True
                    if isinstance(n, ast.Call) and not ast.unparse(n.func).startswith(('np.result_type', 'np.asarray', 'np.shape', 'np.ndim')) \
                            and any(isinstance(q, ast.Name) and q.id == c for q in list(n.args) + [k.value for k in n.keywords]):
                        used = True
                if used:
                    return False
                unknown = True
        return None if unknown else True
    g.fact('derRoutinesComputeOnFloatingPointCopiesOfTheirCoordinates',
           f'{JAC}:jacobi_der,jacobi_der_seq {HER}:hermite_*_der(_seq) {LAG}:laguerre_der {ZER}:zernike_nm_der '
           f'{QP}:clenshaw_qbfs_der,clenshaw_q2d_der,compute_z_zprime_Qbfs,compute_z_zprime_Q2d', float_fact)

    return g.finish()


if __name__ == '__main__':
    import sys
    text, items = generate(sys.argv[1] if len(sys.argv) > 1 else '/repo')
    print(text)
    for it in items:
        print('--', it)
