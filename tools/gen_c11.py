"""translator items for C11 (Zernike / XY single-index conventions).

Source functions -> Lean definitions in `Generated.C11`:

    prysm/mathops.py            sign, is_odd
    prysm/polynomials/zernike.py  nm_to_fringe, nm_to_ansi_j, ansi_j_to_nm, noll_to_nm, fringe_to_nm
    prysm/polynomials/xy.py     xy_j_to_mn

The whole body of each function is translated (not a hand-picked expression), by a small typed
compiler for the Python subset these functions use:

  expressions   ints and exact rationals (`/` is exact division; float literals are exact decimals),
                `+ - * // % **k`, `abs`, `int()` (truncation), `np.floor`, `np.mod`, `x & 1`,
                conditional expressions, comparisons, calls of other translated functions,
                list literals and `l[i]` (Python semantics: negative index from the end, IndexError -> none);
                the two floating-point idioms are replaced by the exact integer they denote:
                    np.ceil(np.sqrt(D))            |->  pyCeilSqrt D                (= ceil of the real square root)
                    np.ceil((A + np.sqrt(D)) / c)  |->  pyCeilDiv (A + pyCeilSqrt D) c
                (for an integer A and a positive literal c, ceil((A + sqrt D)/c) = ceil((A + ceil(sqrt D))/c);
                 the identity is proved over the reals in Props/C11.lean: `ceil_half_sqrt_exact`)
  statements    assignment (also tuple / augmented), `l.append(e)`, `if/elif/else` (returning or joining),
                `for i in range(e)`, `while c` (fuel-bounded; "the fuel never runs out" is a theorem),
                `raise` (-> none), `return`.

Straight-line functions become plain definitions; functions with loops / raises / list indexing become
`Option`-valued definitions written against the run-time in `Model.C11.Py`.
"""
import ast
import re
from fractions import Fraction
from pyexpr2lean import Gen, Untranslatable, load, get_def

M = 'Model.C11'
_CEIL = ('math.ceil', 'np.ceil', 'numpy.ceil', 'ceil', 'truenp.ceil')
_FLOOR = ('math.floor', 'np.floor', 'numpy.floor', 'floor', 'truenp.floor')
_SQRT = ('math.sqrt', 'np.sqrt', 'numpy.sqrt', 'sqrt', 'truenp.sqrt')
_MOD = ('np.mod', 'numpy.mod', 'truenp.mod')


def _ilit(k):
    return f'({k} : Int)' if k >= 0 else f'(-{-k} : Int)'


def _qlit(fr):
    fr = Fraction(fr)
    if fr.denominator == 1:
        return f'({fr.numerator} : Rat)' if fr >= 0 else f'(-{-fr.numerator} : Rat)'
    s = f'(({abs(fr.numerator)} : Rat) / {fr.denominator})'
    return s if fr >= 0 else f'(-{s})'


def _pos_lit(e):
    return isinstance(e, ast.Constant) and isinstance(e.value, int) and not isinstance(e.value, bool) and e.value > 0


HELPERS = {}      # name -> FunctionDef: same-module functions of the function being compiled (inlined symbolically)


def _module_helpers(mod):
    return {n.name: n for n in mod.body if isinstance(n, ast.FunctionDef)}


class TE:
    """typed expression translator: expr(e) -> (lean_term, 'int' | 'rat' | 'list').

    env    python name -> (lean term, type)
    funcs  python callee text -> (lean name, [param types], return type)
    binds  hoisted partial operations (list indexing): [(tmp, option_term)], consumed by the statement compiler
    """

    def __init__(self, env, funcs):
        self.env = env
        self.funcs = funcs
        self.binds = []
        self.ntmp = [0]

    def fork(self, env):
        t = TE(env, self.funcs)
        t.ntmp = self.ntmp
        return t

    # -- coercions
    def rat(self, tt):
        term, ty = tt
        if ty == 'rat':
            return term
        if ty == 'int':
            m = re.fullmatch(r'\((-?\d+) : Int\)', term)
            if m:
                return f'({m.group(1)} : Rat)'
            return f'(({term} : Int) : Rat)'
        raise Untranslatable('a list where a number is needed')

    def as_int(self, e):
        term, ty = self.expr(e)
        if ty != 'int':
            raise Untranslatable(f'integer expression expected: {ast.unparse(e)}')
        return term

    def expr(self, e):
        if isinstance(e, ast.Constant):
            v = e.value
            if isinstance(v, bool):
                raise Untranslatable('bool literal')
            if isinstance(v, int):
                return _ilit(v), 'int'
            if isinstance(v, float):
                return _qlit(Fraction(repr(v))), 'rat'
            raise Untranslatable(f'literal {v!r}')
        if isinstance(e, ast.Name):
            if e.id in self.env:
                return self.env[e.id]
            raise Untranslatable(f'name {e.id} is not defined here')
        if isinstance(e, ast.UnaryOp):
            if isinstance(e.op, ast.USub):
                if isinstance(e.operand, ast.Constant) and isinstance(e.operand.value, int) \
                        and not isinstance(e.operand.value, bool):
                    return _ilit(-e.operand.value), 'int'
                t, ty = self.expr(e.operand)
                if ty == 'list':
                    raise Untranslatable('minus a list')
                return f'(-{t})', ty
            if isinstance(e.op, ast.UAdd):
                return self.expr(e.operand)
        if isinstance(e, ast.BinOp):
            return self.binop(e)
        if isinstance(e, ast.IfExp):
            a, b = self.expr(e.body), self.expr(e.orelse)
            c = self.cond(e.test)
            if a[1] == b[1]:
                return f'(if {c} then {a[0]} else {b[0]})', a[1]
            return f'(if {c} then {self.rat(a)} else {self.rat(b)})', 'rat'
        if isinstance(e, ast.Call):
            return self.call(e)
        if isinstance(e, ast.List):
            return '([' + ', '.join(self.as_int(x) for x in e.elts) + '] : List Int)', 'list'
        if isinstance(e, ast.Subscript):
            l, ty = self.expr(e.value)
            if ty != 'list':
                raise Untranslatable(f'indexing a non-list: {ast.unparse(e)}')
            i = self.as_int(e.slice)
            self.ntmp[0] += 1
            tmp = f'v{self.ntmp[0]}_'
            self.binds.append((tmp, f'Py.idx {l} {i}'))
            return tmp, 'int'
        raise Untranslatable(f'expression {ast.unparse(e)}')

    def binop(self, e):
        op = type(e.op)
        if op is ast.BitAnd:
            if isinstance(e.right, ast.Constant) and e.right.value == 1:
                return f'({self.as_int(e.left)} % 2)', 'int'
            raise Untranslatable(f'bit operation {ast.unparse(e)}')
        a, b = self.expr(e.left), self.expr(e.right)
        if 'list' in (a[1], b[1]):
            raise Untranslatable(f'list arithmetic {ast.unparse(e)}')
        both_int = a[1] == 'int' and b[1] == 'int'
        if op in (ast.Add, ast.Sub, ast.Mult):
            sym = {ast.Add: '+', ast.Sub: '-', ast.Mult: '*'}[op]
            if both_int:
                return f'({a[0]} {sym} {b[0]})', 'int'
            return f'({self.rat(a)} {sym} {self.rat(b)})', 'rat'
        if op is ast.Div:
            return f'({self.rat(a)} / {self.rat(b)})', 'rat'
        if op is ast.FloorDiv:
            if both_int:
                return (f'({a[0]} / {b[0]})' if _pos_lit(e.right) else f'(Int.fdiv {a[0]} {b[0]})'), 'int'
            return f'(((Rat.floor ({self.rat(a)} / {self.rat(b)}) : Int)) : Rat)', 'rat'
        if op is ast.Mod:
            if both_int:
                return (f'({a[0]} % {b[0]})' if _pos_lit(e.right) else f'(Int.fmod {a[0]} {b[0]})'), 'int'
            return f'(Py.modQ {self.rat(a)} {self.rat(b)})', 'rat'
        if op is ast.Pow:
            if isinstance(e.right, ast.Constant) and isinstance(e.right.value, int) and e.right.value >= 0:
                return f'({a[0]} ^ {e.right.value})', a[1]
        raise Untranslatable(f'operator {ast.unparse(e)}')

    def sqrt_form(self, arg):
        """arg of a ceil: `sqrt(D)` or `(A ± … + sqrt(D)) / c`  ->  exact integer term, else None"""
        def is_sqrt(x):
            if isinstance(x, ast.Call) and ast.unparse(x.func) in _SQRT:
                if x.keywords or len(x.args) != 1:
                    raise Untranslatable(f'square root with extra / keyword arguments (dtype=, out=, …): {ast.unparse(x)}')
                return True
            return False
        if is_sqrt(arg):
            return f'(pyCeilSqrt {self.as_int(arg.args[0])})'
        if isinstance(arg, ast.BinOp) and isinstance(arg.op, ast.Div) and _pos_lit(arg.right):
            terms = []

            def flat(x, sg):
                if isinstance(x, ast.BinOp) and isinstance(x.op, ast.Add):
                    flat(x.left, sg)
                    flat(x.right, sg)
                elif isinstance(x, ast.BinOp) and isinstance(x.op, ast.Sub):
                    flat(x.left, sg)
                    flat(x.right, -sg)
                else:
                    terms.append((sg, x))
            flat(arg.left, 1)
            roots = [(sg, x) for sg, x in terms if is_sqrt(x)]
            if len(roots) != 1:
                return None
            if roots[0][0] != 1:
                raise Untranslatable(f'square root with a minus sign: {ast.unparse(arg)}')
            # canonical shape `pyCeilDiv (A + pyCeilSqrt D) c` whatever the order of the summands in the source
            acc = None
            for sg, x in terms:
                if is_sqrt(x):
                    continue
                t = self.as_int(x)
                if acc is None:
                    acc = t if sg == 1 else f'(-{t})'
                else:
                    acc = f'({acc} {"+" if sg == 1 else "-"} {t})'
            if acc is None:
                acc = '(0 : Int)'
            root = f'(pyCeilSqrt {self.as_int(roots[0][1].args[0])})'
            return f'(pyCeilDiv ({acc} + {root}) {_ilit(arg.right.value)})'
        return None

    def call(self, e):
        f = ast.unparse(e.func)
        if e.keywords:
            raise Untranslatable(f'keyword arguments: {ast.unparse(e)}')
        if f in self.funcs:
            name, ptys, rty = self.funcs[f]
            if len(ptys) != len(e.args):
                raise Untranslatable(f'arity of {f}')
            args = []
            for a, pty in zip(e.args, ptys):
                args.append(self.as_int(a) if pty == 'int' else self.rat(self.expr(a)))
            if rty == 'int?':       # a translated function that may raise: hoisted like a list access (`none` propagates)
                self.ntmp[0] += 1
                tmp = f'v{self.ntmp[0]}_'
                self.binds.append((tmp, ' '.join([name] + args)))
                return tmp, 'int'
            return '(' + ' '.join([name] + args) + ')', rty
        if f in HELPERS and f not in self.env:
            return self.inline(HELPERS[f], e)
        if f in _CEIL or f in _FLOOR:
            (a,) = e.args
            if f in _CEIL:
                s = self.sqrt_form(a)
                if s is not None:
                    return s, 'int'
            if any(isinstance(x, ast.Call) and ast.unparse(x.func) in _SQRT for x in ast.walk(a)):
                raise Untranslatable(f'square root in an unsupported position: {ast.unparse(e)}')
            t = self.expr(a)
            if t[1] == 'int':
                return t
            return f'(Rat.{"ceil" if f in _CEIL else "floor"} {t[0]})', 'int'
        if f in _SQRT:
            raise Untranslatable(f'bare square root: {ast.unparse(e)}')
        if f in _MOD and len(e.args) == 2:
            return self.binop(ast.BinOp(left=e.args[0], op=ast.Mod(), right=e.args[1]))
        if f == 'int':
            (a,) = e.args
            t = self.expr(a)
            if t[1] == 'int':
                return t
            return f'(Py.int {self.rat(t)})', 'int'
        if f == 'float':
            (a,) = e.args
            return self.rat(self.expr(a)), 'rat'
        if f == 'abs':
            (a,) = e.args
            t, ty = self.expr(a)
            if ty == 'list':
                raise Untranslatable('abs of a list')
            return f'(if {t} < 0 then -{t} else {t})', ty
        if f == 'len' and len(e.args) == 1:
            t, ty = self.expr(e.args[0])
            if ty == 'list':
                return f'(({t}).length : Int)', 'int'
        raise Untranslatable(f'call {ast.unparse(e)}')

    def inline(self, fn, call, depth=[0]):
        """symbolic inlining of a same-module straight-line helper: parameters are bound to the translated arguments,
        local assignments are substituted, the returned expression is the value.  Anything else is untranslatable."""
        bad = purity_problems(fn)
        if bad:
            raise Untranslatable(f'helper {fn.name} is not a pure straight-line function: ' + '; '.join(bad[:3]))
        params = [a.arg for a in fn.args.args]
        if len(params) != len(call.args):
            raise Untranslatable(f'arity of helper {fn.name}')
        if depth[0] >= 4:
            raise Untranslatable(f'helper nesting too deep at {fn.name}')
        env = {p: self.expr(a) for p, a in zip(params, call.args)}
        sub = TE(env, self.funcs)
        sub.ntmp = self.ntmp
        depth[0] += 1
        try:
            for st in fn.body:
                if isinstance(st, ast.Expr) and isinstance(st.value, ast.Constant):
                    continue
                if isinstance(st, ast.AugAssign) and isinstance(st.target, ast.Name):
                    st = ast.Assign(targets=[st.target], value=ast.BinOp(left=ast.Name(id=st.target.id, ctx=ast.Load()),
                                                                          op=st.op, right=st.value))
                if isinstance(st, ast.Assign) and len(st.targets) == 1 and isinstance(st.targets[0], ast.Name):
                    sub.env = {**sub.env, st.targets[0].id: sub.expr(st.value)}
                    continue
                if isinstance(st, ast.Return) and st.value is not None and not isinstance(st.value, ast.Tuple):
                    out = sub.expr(st.value)
                    self.binds += sub.binds
                    return out
                raise Untranslatable(f'helper {fn.name} is not straight-line: {ast.unparse(st)[:50]}')
            raise Untranslatable(f'helper {fn.name} has no return')
        finally:
            depth[0] -= 1

    # -- conditions (decidable Props)
    def cond(self, e):
        if isinstance(e, ast.BoolOp):
            sym = ' ∧ ' if isinstance(e.op, ast.And) else ' ∨ '
            return '(' + sym.join(self.cond(v) for v in e.values) + ')'
        if isinstance(e, ast.UnaryOp) and isinstance(e.op, ast.Not):
            return f'(¬ {self.cond(e.operand)})'
        if isinstance(e, ast.Compare):
            parts = []
            left = e.left
            for op, right in zip(e.ops, e.comparators):
                sym = {ast.Lt: '<', ast.LtE: '≤', ast.Gt: '>', ast.GtE: '≥', ast.Eq: '=', ast.NotEq: '≠'}.get(type(op))
                if sym is None:
                    raise Untranslatable(f'comparison {ast.unparse(e)}')
                a, b = self.expr(left), self.expr(right)
                if a[1] == 'int' and b[1] == 'int':
                    parts.append(f'({a[0]} {sym} {b[0]})')
                else:
                    parts.append(f'({self.rat(a)} {sym} {self.rat(b)})')
                left = right
            return parts[0] if len(parts) == 1 else '(' + ' ∧ '.join(parts) + ')'
        # truthiness of a number
        t, ty = self.expr(e)
        if ty == 'list':
            raise Untranslatable('truthiness of a list')
        return f'({t} ≠ 0)'


# ------------------------------------------------------------------------------------------------
# statements
# ------------------------------------------------------------------------------------------------
def _assigned(stmts):
    """names (re)bound anywhere inside stmts, in first-occurrence order"""
    out = []

    def add(n):
        if n not in out:
            out.append(n)
    for s in stmts:
        for n in ast.walk(s):
            if isinstance(n, ast.Assign):
                for t in n.targets:
                    for x in ast.walk(t):
                        if isinstance(x, ast.Name):
                            add(x.id)
            elif isinstance(n, ast.AugAssign) and isinstance(n.target, ast.Name):
                add(n.target.id)
            elif isinstance(n, ast.For):
                for x in ast.walk(n.target):
                    if isinstance(x, ast.Name):
                        add(x.id)
            elif isinstance(n, ast.Call) and isinstance(n.func, ast.Attribute) and n.func.attr == 'append' \
                    and isinstance(n.func.value, ast.Name):
                add(n.func.value.id)
    return out


def _always_exits(stmts):
    if not stmts:
        return False
    last = stmts[-1]
    if isinstance(last, (ast.Return, ast.Raise)):
        return True
    if isinstance(last, ast.If):
        return _always_exits(last.body) and _always_exits(last.orelse)
    return False


def _tuple(terms):
    return terms[0] if len(terms) == 1 else '(' + ', '.join(terms) + ')'


def _proj(s, k, n):
    """k-th component of the right-nested n-tuple s"""
    if n == 1:
        return s
    return s + '.2' * k + ('.1' if k < n - 1 else '')


def _tuple_type(tys):
    names = {'int': 'Int', 'rat': 'Rat', 'list': 'List Int'}
    return ' × '.join(names[t] for t in tys)


class Comp:
    """statement compiler.  Every block is a Lean term of type `Option τ`."""

    def __init__(self, funcs, fuel):
        self.funcs = funcs
        self.fuel = fuel          # Lean term (Nat) bounding every while loop
        self.ntmp = [0]

    def te(self, env):
        t = TE(env, self.funcs)
        t.ntmp = self.ntmp
        return t

    def with_binds(self, te, inner, pad='  '):
        """wrap `inner` (an Option term) in the hoisted partial operations of te"""
        for tmp, opt in reversed(te.binds):
            inner = f'{pad}({opt}).bind fun {tmp} =>\n{inner}'
        te.binds = []
        return inner

    def block(self, stmts, env, tail, ind):
        """stmts then `tail(env)` (an Option term).  env: name -> (lean term, type)"""
        pad = '  ' * ind
        if not stmts:
            return tail(env)
        s, rest = stmts[0], stmts[1:]
        if isinstance(s, ast.Expr) and isinstance(s.value, ast.Constant) and isinstance(s.value.value, str):
            return self.block(rest, env, tail, ind)
        if isinstance(s, ast.Pass):
            return self.block(rest, env, tail, ind)
        if isinstance(s, ast.Return):
            if s.value is None:
                raise Untranslatable('bare return')
            te = self.te(env)
            vals = s.value.elts if isinstance(s.value, ast.Tuple) else [s.value]
            terms = [te.as_int(v) for v in vals]
            return self.with_binds(te, f'{pad}some {_tuple(terms)}', pad)
        if isinstance(s, ast.Raise):
            return f'{pad}none'
        if isinstance(s, ast.AugAssign) and isinstance(s.target, ast.Name):
            fake = ast.Assign(targets=[ast.Name(id=s.target.id, ctx=ast.Store())],
                              value=ast.BinOp(left=ast.Name(id=s.target.id, ctx=ast.Load()), op=s.op, right=s.value))
            return self.block([fake] + rest, env, tail, ind)
        if isinstance(s, ast.Assign) and len(s.targets) == 1:
            tgt = s.targets[0]
            te = self.te(env)
            if isinstance(tgt, ast.Name):
                pairs = [(tgt.id, te.expr(s.value))]
            elif isinstance(tgt, ast.Tuple) and isinstance(s.value, ast.Tuple) and len(tgt.elts) == len(s.value.elts) \
                    and all(isinstance(t, ast.Name) for t in tgt.elts):
                pairs = [(t.id, te.expr(v)) for t, v in zip(tgt.elts, s.value.elts)]
            else:
                raise Untranslatable(f'assignment {ast.unparse(s)[:60]}')
            env2 = dict(env)
            lets = ''
            if len(pairs) > 1:       # simultaneous: evaluate into temporaries first
                tmps = []
                for name, (term, ty) in pairs:
                    self.ntmp[0] += 1
                    tmp = f't{self.ntmp[0]}_'
                    lets += f'{pad}let {tmp} := {term}\n'
                    tmps.append((name, tmp, ty))
                for name, tmp, ty in tmps:
                    lets += f'{pad}let {name}_ := {tmp}\n'
                    env2[name] = (f'{name}_', ty)
            else:
                name, (term, ty) = pairs[0]
                lets += f'{pad}let {name}_ := {term}\n'
                env2[name] = (f'{name}_', ty)
            return self.with_binds(te, lets + self.block(rest, env2, tail, ind), pad)
        if isinstance(s, ast.Expr) and isinstance(s.value, ast.Call) and isinstance(s.value.func, ast.Attribute) \
                and s.value.func.attr == 'append' and isinstance(s.value.func.value, ast.Name) \
                and len(s.value.args) == 1:
            name = s.value.func.value.id
            te = self.te(env)
            l, ty = te.expr(s.value.func.value)
            if ty != 'list':
                raise Untranslatable(f'append to a non-list {name}')
            v = te.as_int(s.value.args[0])
            env2 = dict(env)
            env2[name] = (f'{name}_', 'list')
            return self.with_binds(te, f'{pad}let {name}_ := {l} ++ [{v}]\n' + self.block(rest, env2, tail, ind), pad)
        if isinstance(s, ast.If):
            te = self.te(env)
            c = te.cond(s.test)
            if te.binds:
                raise Untranslatable('list indexing inside a condition')
            a_exit, b_exit = _always_exits(s.body), _always_exits(s.orelse)
            if a_exit or b_exit:
                a = self.block(s.body if a_exit else s.body + rest, env, tail, ind + 1)
                b = self.block(s.orelse if b_exit else s.orelse + rest, env, tail, ind + 1)
                return f'{pad}if {c} then\n{a}\n{pad}else\n{b}'
            # join: variables bound on both paths (or bound before and rebound on one)
            names = sorted(_assigned(s.body + s.orelse))
            # dry runs to learn which names are defined after each branch (and their types)
            envs = self._dry(s.body, env) + self._dry(s.orelse, env)
            ea = envs[0]
            join = [n for n in names if all(n in e and e[n][1] == ea[n][1] for e in envs)]
            if not join:
                raise Untranslatable('if statement without effect')
            tys = [ea[n][1] for n in join]

            def out(e, ind2=ind + 1):
                return '  ' * ind2 + 'some ' + _tuple([e[n][0] for n in join])
            a = self.block(s.body, env, out, ind + 1)
            b = self.block(s.orelse, env, out, ind + 1)
            self.ntmp[0] += 1
            sv = f's{self.ntmp[0]}_'
            env2 = dict(env)
            lets = ''
            for k, n in enumerate(join):
                lets += f'{pad}let {n}_ := {_proj(sv, k, len(join))}\n'
                env2[n] = (f'{n}_', tys[k])
            return (f'{pad}(if {c} then\n{a}\n{pad}else\n{b}\n{pad}: Option ({_tuple_type(tys)})).bind fun {sv} =>\n'
                    + lets + self.block(rest, env2, tail, ind))
        if isinstance(s, ast.For):
            if s.orelse or not isinstance(s.target, ast.Name):
                raise Untranslatable('for loop shape')
            it = s.iter
            if not (isinstance(it, ast.Call) and ast.unparse(it.func) == 'range' and len(it.args) == 1):
                raise Untranslatable(f'for loop over {ast.unparse(it)}')
            te = self.te(env)
            n = te.as_int(it.args[0])
            if te.binds:
                raise Untranslatable('list indexing inside a range bound')
            carried = sorted(v for v in _assigned(s.body) if v in env and v != s.target.id)
            if not carried:
                raise Untranslatable('for loop without effect')
            return self._loop(s, rest, env, tail, ind, carried,
                              head=lambda body, init: f'Py.forRange {n} (fun {s.target.id}_ s_ =>\n{body}) {init}',
                              extra_env={s.target.id: (f'{s.target.id}_', 'int')})
        if isinstance(s, ast.While):
            if s.orelse:
                raise Untranslatable('while/else')
            carried = sorted(v for v in _assigned(s.body) if v in env)
            if not carried:
                raise Untranslatable('while loop without effect')
            tys = [env[v][1] for v in carried]
            env_in = dict(env)
            for k, v in enumerate(carried):
                env_in[v] = (_proj('s_', k, len(carried)), tys[k])
            te = self.te(env_in)
            c = te.cond(s.test)
            if te.binds:
                raise Untranslatable('list indexing inside a loop condition')
            return self._loop(s, rest, env, tail, ind, carried,
                              head=lambda body, init: (f'Py.whileFuel (fun s_ => decide {c}) (fun s_ =>\n{body}) '
                                                       f'{self.fuel} {init}'),
                              extra_env={})
        raise Untranslatable(f'statement {ast.unparse(s)[:60]}')

    def _loop(self, s, rest, env, tail, ind, carried, head, extra_env):
        pad = '  ' * ind
        tys = [env[v][1] for v in carried]
        env_in = dict(env)
        env_in.update(extra_env)
        lets_in = ''
        for k, v in enumerate(carried):
            lets_in += f'{pad}    let {v}_ := {_proj("s_", k, len(carried))}\n'
            env_in[v] = (f'{v}_', tys[k])

        def out(e):
            for v, ty in zip(carried, tys):
                if e[v][1] != ty:
                    raise Untranslatable(f'{v} changes type inside a loop')
            return pad + '    some ' + _tuple([e[v][0] for v in carried])
        if any(isinstance(x, (ast.Return, ast.Raise, ast.Break, ast.Continue)) for st in s.body for x in ast.walk(st)):
            raise Untranslatable('return / raise / break / continue inside a loop')
        body = lets_in + self.block(s.body, env_in, out, ind + 2)
        init = _tuple([env[v][0] for v in carried])
        self.ntmp[0] += 1
        sv = f's{self.ntmp[0]}_'
        env2 = dict(env)
        lets = ''
        for k, v in enumerate(carried):
            lets += f'{pad}let {v}_ := {_proj(sv, k, len(carried))}\n'
            env2[v] = (f'{v}_', tys[k])
        return f'{pad}({head(body, init)}).bind fun {sv} =>\n' + lets + self.block(rest, env2, tail, ind)

    def _dry(self, stmts, env):
        """translate a branch only to learn its final environment(s) (counter state is restored)"""
        saved = self.ntmp[0]
        envs = []
        try:
            def t(e):
                envs.append(dict(e))
                return 'none'
            self.block(stmts, env, t, 0)
        finally:
            self.ntmp[0] = saved
        if not envs:
            raise Untranslatable('branch never reaches its end')
        return envs



# ------------------------------------------------------------------------------------------------
# purity: an index map must be a function of its argument alone
# ------------------------------------------------------------------------------------------------
_PURE_NAMES = {'abs', 'int', 'float', 'range', 'len', 'min', 'max', 'ValueError', 'TypeError', 'IndexError',
               'np', 'numpy', 'truenp', 'math', 'sign', 'is_odd', 'True', 'False', 'None'}
_CACHE_DECORATORS = ('lru_cache', 'functools.lru_cache', 'cache', 'functools.cache')


def purity_problems(fn):
    """reasons why `fn` is not (syntactically) a pure function of its parameters; [] if none.

    Looked for: `global` / `nonlocal`; names read that are neither parameters, locals nor the few known pure
    callables (module-level tables, caches, search state); stores / deletes / in-place operators / mutating method
    calls whose target is rooted in such a name (module attributes, function attributes, module lists and dicts);
    mutable default arguments; decorators other than a plain result cache (results here are tuples of ints)."""
    out = []
    params = {a.arg for a in fn.args.args + fn.args.kwonlyargs + fn.args.posonlyargs}
    if fn.args.vararg or fn.args.kwarg:
        out.append('*args / **kwargs')
    if fn.args.kwonlyargs or fn.args.defaults or fn.args.posonlyargs:
        out.append('parameters with defaults / keyword-only / positional-only parameters (the index maps take the index only)')
    for d in list(fn.args.defaults) + [d for d in fn.args.kw_defaults if d is not None]:
        if not (isinstance(d, ast.Constant) or (isinstance(d, ast.UnaryOp) and isinstance(d.operand, ast.Constant))
                or (isinstance(d, ast.Tuple) and all(isinstance(x, ast.Constant) for x in d.elts))):
            out.append(f'mutable or computed default argument {ast.unparse(d)}')
    for d in fn.decorator_list:
        name = ast.unparse(d.func) if isinstance(d, ast.Call) else ast.unparse(d)
        out.append(f'decorator {ast.unparse(d)}' + (' (a result cache: harmless if correct, checked by execution)'
                                                     if name in _CACHE_DECORATORS else ''))
    local = set(params)
    for n in ast.walk(fn):
        if isinstance(n, (ast.Global, ast.Nonlocal)):
            out.append(f'{type(n).__name__.lower()} {", ".join(n.names)}')
        if isinstance(n, ast.Name) and isinstance(n.ctx, (ast.Store, ast.Del)):
            local.add(n.id)
        if isinstance(n, (ast.FunctionDef, ast.Lambda, ast.ClassDef)) and n is not fn:
            out.append('nested function / class')
        if isinstance(n, (ast.ListComp, ast.SetComp, ast.DictComp, ast.GeneratorExp)):
            for g in n.generators:
                for x in ast.walk(g.target):
                    if isinstance(x, ast.Name):
                        local.add(x.id)
    declared = {x for n in ast.walk(fn) if isinstance(n, (ast.Global, ast.Nonlocal)) for x in n.names}
    local -= declared

    callee_ids = {id(n.func) for n in ast.walk(fn) if isinstance(n, ast.Call) and isinstance(n.func, ast.Name)}

    def root(x):
        while isinstance(x, (ast.Attribute, ast.Subscript)):
            x = x.value
        return x.id if isinstance(x, ast.Name) else None
    for n in ast.walk(fn):
        if isinstance(n, ast.Name) and isinstance(n.ctx, ast.Load) and n.id not in local and n.id not in _PURE_NAMES:
            if n.id in HELPERS and n.id != fn.name and id(n) in callee_ids:
                continue        # a same-module helper used as a callee: inlined (and checked) by the translator
            out.append(f'reads the non-local name {n.id}')
        if isinstance(n, (ast.Attribute, ast.Subscript)) and isinstance(n.ctx, (ast.Store, ast.Del)):
            r = root(n)
            if r is None or r not in local:
                out.append(f'writes to {ast.unparse(n)}')
        if isinstance(n, ast.Call) and isinstance(n.func, ast.Attribute):
            r = root(n.func)
            if r is not None and r not in local and r not in ('np', 'numpy', 'truenp', 'math'):
                out.append(f'calls a method of the non-local {ast.unparse(n.func)}')
    seen = []
    for o in out:
        if o not in seen:
            seen.append(o)
    return seen


def _is_straight(fn):
    for st in fn.body:
        if isinstance(st, ast.Expr) and isinstance(st.value, ast.Constant):
            continue
        if isinstance(st, (ast.Assign, ast.AugAssign, ast.Return)):
            if any(isinstance(x, (ast.Subscript, ast.List)) for x in ast.walk(st)):
                return False
            continue
        return False
    return True


def compile_fn(fn, lean_name, funcs, fuel=None):
    """whole function -> Lean definition text.  Parameters are Python ints."""
    bad = purity_problems(fn)
    if bad:
        raise Untranslatable('not a pure function of its argument: ' + '; '.join(bad[:4]))
    params = [a.arg for a in fn.args.args]
    env = {p: (f'{p}_', 'int') for p in params}
    binders = ' '.join(f'({p}_ : Int)' for p in params)
    rets = [n for n in ast.walk(fn) if isinstance(n, ast.Return) and n.value is not None]
    if not rets:
        raise Untranslatable('no return')
    arity = {len(r.value.elts) if isinstance(r.value, ast.Tuple) else 1 for r in rets}
    if len(arity) != 1:
        raise Untranslatable('returns of different arity')
    rty = ' × '.join(['Int'] * arity.pop())
    if _is_straight(fn):
        # plain definition: lets and a final tuple
        te = TE(env, funcs)
        lines = []
        for st in fn.body:
            if isinstance(st, ast.Expr):
                continue
            if isinstance(st, ast.AugAssign):
                st = ast.Assign(targets=[st.target], value=ast.BinOp(left=st.target, op=st.op, right=st.value))
            if isinstance(st, ast.Assign) and len(st.targets) == 1 and isinstance(st.targets[0], ast.Tuple) \
                    and isinstance(st.value, ast.Tuple) and len(st.value.elts) == len(st.targets[0].elts) \
                    and all(isinstance(t, ast.Name) for t in st.targets[0].elts):
                # a, b = e1, e2 : all right-hand sides are evaluated first; refused when one of them reads a name assigned here
                tnames = [t.id for t in st.targets[0].elts]
                if any(isinstance(x, ast.Name) and x.id in tnames for v in st.value.elts for x in ast.walk(v)) or len(set(tnames)) != len(tnames):
                    raise Untranslatable(f'tuple assignment that reads its own targets: {ast.unparse(st)[:60]}')
                vals_ = [te.expr(v) for v in st.value.elts]
                for tn, (term, ty) in zip(tnames, vals_):
                    lines.append(f'  let {tn}_ := {term}')
                    te.env = {**te.env, tn: (f'{tn}_', ty)}
                continue
            if isinstance(st, ast.Assign):
                if len(st.targets) != 1 or not isinstance(st.targets[0], ast.Name):
                    raise Untranslatable(f'assignment {ast.unparse(st)[:60]}')
                term, ty = te.expr(st.value)
                lines.append(f'  let {st.targets[0].id}_ := {term}')
                te.env = {**te.env, st.targets[0].id: (f'{st.targets[0].id}_', ty)}
            elif isinstance(st, ast.Return):
                vals = st.value.elts if isinstance(st.value, ast.Tuple) else [st.value]
                lines.append('  ' + _tuple([te.as_int(v) for v in vals]))
                break
        return f'def {lean_name} {binders} : {rty} :=\n' + '\n'.join(lines) + '\n'
    comp = Comp(funcs, fuel or '0')
    body = comp.block(fn.body, env, lambda e: (_ for _ in ()).throw(Untranslatable('fell off the end without return')), 1)
    return f'def {lean_name} {binders} : Option ({rty}) :=\n{body}\n'


def compile_scalar_fn(fn, lean_name, funcs, ty):
    """one-argument helper (`sign`, `is_odd`): single return expression, argument of type `ty`"""
    bad = purity_problems(fn)
    if bad:
        raise Untranslatable('not a pure function of its argument: ' + '; '.join(bad[:4]))
    (p,) = [a.arg for a in fn.args.args]
    body = [st for st in fn.body if not (isinstance(st, ast.Expr) and isinstance(st.value, ast.Constant))]
    if len(body) != 1 or not isinstance(body[0], ast.Return):
        raise Untranslatable(f'{fn.name} is not a single return')
    te = TE({p: (f'{p}_', ty)}, funcs)
    term, rty = te.expr(body[0].value)
    if rty != ty:
        raise Untranslatable(f'{fn.name} returns {rty}')
    T = {'int': 'Int', 'rat': 'Rat'}[ty]
    return f'def {lean_name} ({p}_ : {T}) : {T} :=\n  {term}\n'


# ------------------------------------------------------------------------------------------------
# nm_to_name: strings -> structure codes (kind, ordinal, column, suffix), then compiled like an index map
# ------------------------------------------------------------------------------------------------
_COL = 1000000          # tag of a column-name code (`_names_m.get(k, f'{k}-foil')` |-> k + _COL; 'Tilt' |-> _COL - 1)
_SUF = 2000000          # tag of a suffix code
_SUFFIX_CODE = {'X': 0, 'Y': 1, '00°': 2, '45°': 3}
_CONST_NAMES = {'Piston': (0, 0, 0, 4), 'Defocus': (2, 0, 0, 4), 'Tilt X': (1, 0, 1, 0), 'Tilt Y': (1, 0, 1, 1)}


def _int_tuple(vals):
    return ast.Tuple(elts=[v if isinstance(v, ast.AST) else ast.Constant(value=v) for v in vals], ctx=ast.Load())


def _table_get(e, table, tail):
    """`table.get(X, f'{X}<tail>')` -> X (else None)"""
    if isinstance(e, ast.Call) and isinstance(e.func, ast.Attribute) and e.func.attr == 'get' and not e.keywords \
            and isinstance(e.func.value, ast.Name) and e.func.value.id == table and len(e.args) == 2:
        x, d = e.args
        if isinstance(d, ast.JoinedStr) and len(d.values) == 2 and isinstance(d.values[0], ast.FormattedValue) \
                and d.values[0].conversion == -1 and d.values[0].format_spec is None \
                and isinstance(d.values[1], ast.Constant) and d.values[1].value == tail \
                and ast.dump(d.values[0].value) == ast.dump(x):
            return x
    return None


def _fstring_parts(e):
    """f'{a} {b} {c}' -> ['a-node', ' ', ...] as a list of nodes / literal strings"""
    out = []
    for v in e.values:
        if isinstance(v, ast.Constant) and isinstance(v.value, str):
            out.append(v.value)
        elif isinstance(v, ast.FormattedValue) and v.conversion == -1 and v.format_spec is None:
            out.append(v.value)
        else:
            raise Untranslatable('format specification in a name')
    return out


def names_as_codes(fn, helpers, depth=0):
    """copy of `fn` in which every string is replaced by its structure code; `return helper(args)` of a same-module
    string helper is inlined (parameters renamed to the argument names)"""
    def sub(a, b):
        return ast.BinOp(left=a, op=ast.Sub(), right=ast.Constant(value=b))

    def add(a, b):
        return ast.BinOp(left=a, op=ast.Add(), right=ast.Constant(value=b))

    def value(e):
        if isinstance(e, ast.IfExp):
            return ast.IfExp(test=e.test, body=value(e.body), orelse=value(e.orelse))
        if isinstance(e, ast.Constant) and isinstance(e.value, str):
            if e.value in _SUFFIX_CODE:
                return ast.Constant(value=_SUF + _SUFFIX_CODE[e.value])
            if e.value == 'Tilt':
                return ast.Constant(value=_COL - 1)
            raise Untranslatable(f'string {e.value!r} is not a known part of a name')
        x = _table_get(e, '_names', 'th')
        if x is not None:
            return x
        x = _table_get(e, '_names_m', '-foil')
        if x is not None:
            return add(x, _COL)
        if any(isinstance(n, (ast.JoinedStr, ast.Constant)) and isinstance(getattr(n, 'value', None), str) for n in ast.walk(e)) \
                or any(isinstance(n, ast.JoinedStr) for n in ast.walk(e)):
            raise Untranslatable(f'string expression {ast.unparse(e)[:50]}')
        return e

    def ret(e):
        if isinstance(e, ast.IfExp):
            return [ast.If(test=e.test, body=ret(e.body), orelse=ret(e.orelse))]
        if isinstance(e, ast.Constant) and isinstance(e.value, str):
            if e.value not in _CONST_NAMES:
                raise Untranslatable(f'name {e.value!r} has no structure code')
            return [ast.Return(value=_int_tuple(_CONST_NAMES[e.value]))]
        if isinstance(e, ast.JoinedStr):
            ps = _fstring_parts(e)
            if len(ps) == 2 and ps[1] == ' Spherical' and not isinstance(ps[0], str):
                return [ast.Return(value=_int_tuple([3, ps[0], 0, 4]))]
            if len(ps) == 5 and ps[1] == ' ' and ps[3] == ' ' and not any(isinstance(ps[i], str) for i in (0, 2, 4)):
                return [ast.Return(value=_int_tuple([4, ps[0], sub(ps[2], _COL), sub(ps[4], _SUF)]))]
            raise Untranslatable(f'name pattern {ast.unparse(e)}')
        if isinstance(e, ast.Call) and isinstance(e.func, ast.Name) and e.func.id in helpers and depth < 3 and not e.keywords:
            h = helpers[e.func.id]
            ps = [a.arg for a in h.args.args]
            if len(ps) != len(e.args) or not all(isinstance(a, ast.Name) for a in e.args) or h.args.defaults or h.decorator_list:
                raise Untranslatable(f'call {ast.unparse(e)}')
            ren = {p: a.id for p, a in zip(ps, e.args)}
            body = names_as_codes(h, helpers, depth + 1).body

            class R(ast.NodeTransformer):
                def visit_Name(self, n):
                    return ast.copy_location(ast.Name(id=ren.get(n.id, n.id), ctx=n.ctx), n)
            return [R().visit(st) for st in body]
        raise Untranslatable(f'returned name {ast.unparse(e)[:50]}')

    def stmts(body):
        out = []
        for st in body:
            if isinstance(st, ast.Expr) and isinstance(st.value, ast.Constant):
                continue
            if isinstance(st, ast.Return):
                out += ret(st.value)
            elif isinstance(st, ast.Assign):
                out.append(ast.Assign(targets=st.targets, value=value(st.value), lineno=0))
            elif isinstance(st, ast.If):
                out.append(ast.If(test=st.test, body=stmts(st.body), orelse=stmts(st.orelse)))
            else:
                raise Untranslatable(f'statement {ast.unparse(st)[:50]}')
        return out
    import copy
    new = copy.deepcopy(fn)
    new.body = stmts(new.body)
    return ast.fix_missing_locations(new)


# ------------------------------------------------------------------------------------------------
# SCOPE GUARD for the name layer.  The names are consumers of the index conventions, not part of the property: a source
# that spells / orders / numbers the names differently is NOT a violation.  Each name-layer item is therefore executed
# (the rewritten integer function, in a scratch namespace) on a grid of valid orders and compared with the scheme of the
# hand model; when it follows another scheme the item is `untranslatable` (reason recorded, generated text = hand model,
# TIE-DEGRADED) and only what follows from the property — no two orders on one name / dict key, the +-m pairing — is
# judged, by execution.
# ------------------------------------------------------------------------------------------------
def _model_name_key(n, m):
    if n == 0:
        return (0, 0, 0, 4)
    if n == 1:
        return (1, 0, 1, 0 if m >= 0 else 1)
    if m == 0:
        return (2, 0, 0, 4) if n == 2 else (3, n // 2 - 1, 0, 4)
    acc = (n - 1) // 2 if m % 2 == 1 else (n - abs(m)) // 2 + 1
    return (4, acc, abs(m), (0 if m % 2 == 1 else 2) + (0 if m >= 0 else 1))


def _exec_defs(nodes, ns):
    import copy
    mod = ast.Module(body=[copy.deepcopy(n) for n in nodes], type_ignores=[])
    ast.fix_missing_locations(mod)
    exec(compile(mod, '<gen_c11 scope guard>', 'exec'), ns)
    return ns


def _scratch_ns(mo):
    import numpy
    ns = {'np': numpy, 'truenp': numpy, 'numpy': numpy}
    try:
        _exec_defs([get_def(mo, 'sign'), get_def(mo, 'is_odd')], ns)
    except Exception as ex:     # noqa
        raise Untranslatable(f'mathops.sign / is_odd cannot be executed: {ex}')
    return ns


def _grid():
    return [(n, m) for n in range(0, 41) for m in range(-n, n + 1, 2)]


def _same_scheme(what, f, want, pts):
    for pt in pts:
        try:
            got = f(*pt)
            got = tuple(int(x) for x in got) if isinstance(got, tuple) else int(got)
        except Exception as ex:   # noqa
            raise Untranslatable(f'{what}: cannot be evaluated at {pt} ({type(ex).__name__}: {ex}); consumer layer, judged by execution only')
        if got != want(*pt):
            raise Untranslatable(f'{what} follows another scheme than the hand model (at {pt}: {got}, model {want(*pt)}); '
                                 'names are not part of the property: tie only, judged by execution (no two orders on one name)')


def generate(repo):
    g = Gen('C11', imports=['PrysmVerif.PyPrelude', 'PrysmVerif.Model.C11'], opens=['Model.C11'],
            header='set_option linter.unusedVariables false')
    zk, _ = load(repo, 'prysm/polynomials/zernike.py')
    xy, _ = load(repo, 'prysm/polynomials/xy.py')
    mo, _ = load(repo, 'prysm/mathops.py')

    funcs = {'sign': ('sign', ['int'], 'int'), 'is_odd': ('isOdd', ['int'], 'int')}

    g.item('sign', 'prysm/mathops.py:sign', lambda: get_def(mo, 'sign'),
           lambda: compile_scalar_fn(get_def(mo, 'sign'), 'sign', {}, 'int'),
           'def sign (x_ : Int) : Int := if x_ < 0 then -1 else 1')
    g.item('is_odd', 'prysm/mathops.py:is_odd', lambda: get_def(mo, 'is_odd'),
           lambda: compile_scalar_fn(get_def(mo, 'is_odd'), 'isOdd', {}, 'int'),
           'def isOdd (int_ : Int) : Int := int_ % 2')

    def whole(mod, pyname, lean, fuel=None):
        def build():
            HELPERS.clear()
            HELPERS.update({k: v for k, v in _module_helpers(mod).items() if k != pyname and k not in funcs})
            try:
                return compile_fn(get_def(mod, pyname), lean, funcs, fuel)
            finally:
                HELPERS.clear()
        return build

    g.item('nm_to_fringe', 'prysm/polynomials/zernike.py:nm_to_fringe', lambda: get_def(zk, 'nm_to_fringe'),
           whole(zk, 'nm_to_fringe', 'nmToFringe'),
           f'def nmToFringe (n_ m_ : Int) : Int := {M}.nmToFringe n_ m_')
    g.item('nm_to_ansi_j', 'prysm/polynomials/zernike.py:nm_to_ansi_j', lambda: get_def(zk, 'nm_to_ansi_j'),
           whole(zk, 'nm_to_ansi_j', 'nmToAnsiJ'),
           f'def nmToAnsiJ (n_ m_ : Int) : Int := {M}.nmToAnsiJ n_ m_')
    g.item('ansi_j_to_nm', 'prysm/polynomials/zernike.py:ansi_j_to_nm', lambda: get_def(zk, 'ansi_j_to_nm'),
           whole(zk, 'ansi_j_to_nm', 'ansiJToNm'),
           f'def ansiJToNm (idx_ : Int) : Int × Int := {M}.ansiJToNm idx_')
    g.item('noll_to_nm', 'prysm/polynomials/zernike.py:noll_to_nm', lambda: get_def(zk, 'noll_to_nm'),
           whole(zk, 'noll_to_nm', 'nollToNm'),
           f'def nollToNm (idx_ : Int) : Option (Int × Int) := some ({M}.nollToNm idx_)')
    g.item('fringe_to_nm', 'prysm/polynomials/zernike.py:fringe_to_nm', lambda: get_def(zk, 'fringe_to_nm'),
           whole(zk, 'fringe_to_nm', 'fringeToNm'),
           f'def fringeToNm (idx_ : Int) : Int × Int := {M}.fringeToNm idx_')
    g.item('xy_j_to_mn', 'prysm/polynomials/xy.py:xy_j_to_mn', lambda: get_def(xy, 'xy_j_to_mn'),
           whole(xy, 'xy_j_to_mn', 'xyJToMn', fuel='j_.toNat'),
           f'def xyJToMn (j_ : Int) : Option (Int × Int) := if j_ < 1 then none else some ({M}.xyJToMn j_)')
    # ---------------------------------------------------------------- session 3: names and pairing of the +-m terms
    def build_accessor():
        text = whole(zk, '_name_accessor', 'nameAccessor')()
        ns = _exec_defs([get_def(zk, '_name_accessor')], _scratch_ns(mo))
        _same_scheme('_name_accessor', ns['_name_accessor'], lambda n, m: _model_name_key(n, m)[1],
                     [(n, m) for n, m in _grid() if m != 0 and n >= 2])
        return text
    g.item('name_accessor', 'prysm/polynomials/zernike.py:_name_accessor', lambda: get_def(zk, '_name_accessor'),
           build_accessor,
           f'def nameAccessor (n_ m_ : Int) : Option Int := some ({M}.nameAccessor n_ m_)')

    def find_sph():
        fn = get_def(zk, 'nm_to_name')
        hits = [st for st in ast.walk(fn) if isinstance(st, ast.Assign) and len(st.targets) == 1
                and isinstance(st.targets[0], ast.Name) and st.targets[0].id == 'accessor']
        if len(hits) != 1:
            raise Untranslatable('nm_to_name: the assignment of the spherical ordinal `accessor = …` was not found (once)')
        return hits[0]

    def build_sph():
        fn = get_def(zk, 'nm_to_name')
        bad = purity_problems(fn)
        bad = [b for b in bad if '_names' not in b and '_name_helper' not in b]      # the two tables are items of their own
        if bad:
            raise Untranslatable('nm_to_name: ' + '; '.join(bad[:3]))
        params = [a.arg for a in fn.args.args]
        te = TE({q: (f'{q}_', 'int') for q in params}, funcs)
        term, ty = te.expr(find_sph().value)
        if ty != 'int' or te.binds:
            raise Untranslatable('spherical ordinal is not an integer expression')
        ns = _scratch_ns(mo)
        code = compile(ast.Expression(body=find_sph().value), '<gen_c11 scope guard>', 'eval')
        _same_scheme('spherical ordinal of nm_to_name', lambda n: eval(code, ns, {params[0]: n, **{q: 0 for q in params[1:]}}),
                     lambda n: n // 2 - 1, [(n,) for n in range(4, 82, 2)])
        return f'def sphericalAccessor {" ".join(f"({q}_ : Int)" for q in params)} : Int :=\n  {term}\n'
    g.item('spherical_accessor', 'prysm/polynomials/zernike.py:nm_to_name', find_sph, build_sph,
           f'def sphericalAccessor (n_ m_ : Int) : Int := {M}.sphericalAccessor n_')

    def build_namekey():
        fn = get_def(zk, 'nm_to_name')
        helpers = _module_helpers(zk)
        coded = names_as_codes(fn, helpers)
        HELPERS.clear()
        HELPERS.update({'_name_accessor': helpers['_name_accessor']} if '_name_accessor' in helpers else {})
        try:
            f2 = dict(funcs)
            f2['_name_accessor'] = ('nameAccessor', ['int', 'int'], 'int?')
            text = compile_fn(coded, 'nameKey', f2)
            ns = _scratch_ns(mo)
            if '_name_accessor' in helpers:
                _exec_defs([helpers['_name_accessor']], ns)
            _exec_defs([coded], ns)
            _same_scheme('nm_to_name', ns[coded.name], _model_name_key, _grid())
            return text
        finally:
            HELPERS.clear()
    g.item('nm_to_name', 'prysm/polynomials/zernike.py:nm_to_name, _name_helper',
           lambda: ast.Module(body=[get_def(zk, 'nm_to_name'), get_def(zk, '_name_helper')], type_ignores=[]), build_namekey,
           f'def nameKey (n_ m_ : Int) : Option (Int × Int × Int × Int) := some ({M}.nameKey n_ m_)')

    def find_loop():
        fn = get_def(zk, 'zernikes_to_magnitude_angle_nmkey')
        loops = [st for st in fn.body if isinstance(st, ast.For) and isinstance(st.target, ast.Tuple) and len(st.target.elts) == 3]
        if len(loops) != 1:
            raise Untranslatable('zernikes_to_magnitude_angle_nmkey: the loop `for n, m, coef in coefs` was not found')
        return loops[0]

    def build_key():
        lp = find_loop()
        if not all(isinstance(x, ast.Name) for x in lp.target.elts):
            raise Untranslatable('loop target')
        nn, mm, cc = [x.id for x in lp.target.elts]
        te = TE({nn: ('n_', 'int'), mm: ('m_', 'int')}, funcs)
        tuples = {}
        key = None
        for st in lp.body:
            if isinstance(st, ast.Assign) and len(st.targets) == 1 and isinstance(st.targets[0], ast.Name):
                if isinstance(st.value, ast.Tuple):
                    tuples[st.targets[0].id] = [te.as_int(x) for x in st.value.elts]
                else:
                    term, ty = te.expr(st.value)
                    te.env = {**te.env, st.targets[0].id: (f'({term})', ty)}
                continue
            if isinstance(st, ast.Expr) and isinstance(st.value, ast.Call) and isinstance(st.value.func, ast.Attribute) \
                    and st.value.func.attr == 'append' and isinstance(st.value.func.value, ast.Subscript) \
                    and len(st.value.args) == 1 and isinstance(st.value.args[0], ast.Name) and st.value.args[0].id == cc \
                    and key is None:
                k = st.value.func.value.slice
                if isinstance(k, ast.Name) and k.id in tuples:
                    key = tuples[k.id]
                elif isinstance(k, ast.Tuple):
                    key = [te.as_int(x) for x in k.elts]
                else:
                    raise Untranslatable('key of the grouping dict')
                continue
            raise Untranslatable(f'statement in the grouping loop: {ast.unparse(st)[:60]}')
        if key is None or len(key) != 2 or te.binds:
            raise Untranslatable('the grouping key is not a pair of integers')
        return f'def magangKey (n_ m_ : Int) : Int × Int :=\n  ({key[0]}, {key[1]})\n'
    g.item('magang_key', 'prysm/polynomials/zernike.py:zernikes_to_magnitude_angle_nmkey', find_loop, build_key,
           f'def magangKey (n_ m_ : Int) : Int × Int := {M}.magangKey n_ m_')

    # the rule by which zernikes_to_magnitude_angle turns a name into its dict key (whole name, or name without the last word)
    def find_strip():
        fn = get_def(zk, 'zernikes_to_magnitude_angle')
        loops = [st for st in fn.body if isinstance(st, ast.For)]
        if len(loops) != 1:
            raise Untranslatable('zernikes_to_magnitude_angle: one loop over the (n, |m|) classes expected')
        return loops[0]

    def build_strip():
        lp = find_strip()
        body = [st for st in lp.body]
        src = [ast.unparse(st) for st in body]
        ifs = [st for st in body if isinstance(st, ast.If)]
        if len(ifs) != 1 or len(body) != 4:
            raise Untranslatable('shape of the key loop')
        if src[0] != 'name = nm_to_name(*k)' or src[1] not in ("split = name.split(' ')",) or not src[3].startswith('d2[k2] = '):
            raise Untranslatable(f'shape of the key loop: {src[0]} / {src[1]} / {src[3]}')
        iff = ifs[0]
        if [ast.unparse(x) for x in iff.body] != ['k2 = name'] or [ast.unparse(x) for x in iff.orelse] != ["k2 = ' '.join(split[:-1])"]:
            raise Untranslatable('branches of the key rule')

        def cond(e):
            if isinstance(e, ast.BoolOp):
                op = ' && ' if isinstance(e.op, ast.And) else ' || '
                return '(' + op.join(cond(v) for v in e.values) + ')'
            if isinstance(e, ast.UnaryOp) and isinstance(e.op, ast.Not):
                return f'(!{cond(e.operand)})'
            if isinstance(e, ast.Compare) and len(e.ops) == 1:
                l, o, r = e.left, e.ops[0], e.comparators[0]
                if ast.unparse(l) == 'len(split)' and isinstance(r, ast.Constant) and type(r.value) is int:
                    sym = {ast.Lt: '<', ast.LtE: '≤', ast.Gt: '>', ast.GtE: '≥', ast.Eq: '=', ast.NotEq: '≠'}.get(type(o))
                    if sym:
                        return f'decide (words_ {sym} {_ilit(r.value)})'
                if isinstance(l, ast.Constant) and l.value == 'Tilt' and ast.unparse(r) == 'name':
                    if isinstance(o, ast.In):
                        return 'tilt_'
                    if isinstance(o, ast.NotIn):
                        return '(!tilt_)'
            raise Untranslatable(f'condition {ast.unparse(e)}')
        text = f'def keepsWholeName (words_ : Int) (tilt_ : Bool) : Bool :=\n  {cond(iff.test)}\n'
        code = compile(ast.Expression(body=iff.test), '<gen_c11 scope guard>', 'eval')
        for kind, words in enumerate((1, 2, 1, 2, 3)):
            got = bool(eval(code, {'len': len}, {'split': ['w'] * words, 'name': 'Tilt X' if kind == 1 else 'w w'}))
            if got != (kind in (0, 2, 3)):
                raise Untranslatable('zernikes_to_magnitude_angle builds its keys by another rule than the hand model; the key strings are '
                                     'not part of the property: tie only, judged by execution (no class may be lost)')
        return text
    g.item('magang_name_rule', 'prysm/polynomials/zernike.py:zernikes_to_magnitude_angle', find_strip, build_strip,
           'def keepsWholeName (words_ : Int) (tilt_ : Bool) : Bool := decide (words_ < 3) && !tilt_')

    def table(pyname, lean):
        def find():
            hits = [st for st in zk.body if isinstance(st, ast.Assign) and len(st.targets) == 1
                    and isinstance(st.targets[0], ast.Name) and st.targets[0].id == pyname]
            if len(hits) != 1 or not isinstance(hits[0].value, ast.Dict):
                raise Untranslatable(f'{pyname} is not one module-level dict literal')
            for x in ast.walk(zk):
                if x is not hits[0] and isinstance(x, (ast.Subscript, ast.Attribute, ast.Name)) and isinstance(x.ctx, (ast.Store, ast.Del)):
                    r = x
                    while isinstance(r, (ast.Subscript, ast.Attribute)):
                        r = r.value
                    if isinstance(r, ast.Name) and r.id == pyname and not (x is hits[0].targets[0]):
                        raise Untranslatable(f'{pyname} is modified after its definition')
            return hits[0]

        def build():
            d = find().value
            rows = []
            for k, v in zip(d.keys, d.values):
                if not (isinstance(k, ast.Constant) and type(k.value) is int and isinstance(v, ast.Constant) and isinstance(v.value, str)):
                    raise Untranslatable(f'{pyname}: entry {ast.unparse(k) if k else "**"}')
                if any(ord(c) < 32 or c in '"\\' for c in v.value):
                    raise Untranslatable(f'{pyname}: string needs escaping')
                if ' ' in v.value or not v.value:
                    raise Untranslatable(f'{pyname}: the word {v.value!r} is empty or contains a blank (spelling of the names is not part of the '
                                         'property: tie only)')
                rows.append(f'({_ilit(k.value)}, "{v.value}")')
            return f'def {lean} : List (Int × String) :=\n  [' + ', '.join(rows) + ']\n'
        return find, build
    f1, b1 = table('_names', 'namesTable')
    g.item('names_table', 'prysm/polynomials/zernike.py:_names', f1, b1, 'def namesTable : List (Int × String) := []')
    f2, b2 = table('_names_m', 'namesMTable')
    g.item('names_m_table', 'prysm/polynomials/zernike.py:_names_m', f2, b2, 'def namesMTable : List (Int × String) := []')
    # structural fact (evidence; not a theorem: correct memoisation would make it false without breaking the property —
    # when it is false the items above are `untranslatable` and the harness widens its order-independence probing)
    def stateless():
        pairs = [(mo, 'sign'), (mo, 'is_odd'), (xy, 'xy_j_to_mn')] + \
                [(zk, n) for n in ('nm_to_fringe', 'nm_to_ansi_j', 'ansi_j_to_nm', 'noll_to_nm', 'fringe_to_nm')]
        bad = False
        for mod_, nm in pairs:
            HELPERS.clear()
            HELPERS.update({k: v for k, v in _module_helpers(mod_).items() if k != nm and k not in funcs})
            try:
                fn = get_def(mod_, nm)
                probs = purity_problems(fn)
                # helpers reached through calls must be pure as well
                for c in ast.walk(fn):
                    if isinstance(c, ast.Call) and isinstance(c.func, ast.Name) and c.func.id in HELPERS:
                        probs += purity_problems(HELPERS[c.func.id])
                bad = bad or bool(probs)
            finally:
                HELPERS.clear()
        return True if not bad else None     # None: not decidable from the text -> degraded tie, wider probing
    def public_names():
        ini, _ = load(repo, 'prysm/polynomials/__init__.py')
        want = {'zernike': {'ansi_j_to_nm', 'nm_to_ansi_j', 'nm_to_fringe', 'noll_to_nm', 'fringe_to_nm'}, 'xy': {'xy_j_to_mn'}}
        names = set().union(*want.values())
        bound = {}
        for st in ini.body:
            if isinstance(st, ast.ImportFrom) and st.level == 1:
                for a in st.names:
                    nm = a.asname or a.name
                    if nm in names:
                        bound[nm] = (st.module, a.name)
            else:
                for x in ast.walk(st):
                    if isinstance(x, (ast.FunctionDef, ast.ClassDef)) and x.name in names:
                        return None
                    if isinstance(x, ast.Name) and isinstance(x.ctx, (ast.Store, ast.Del)) and x.id in names:
                        return None
                    if isinstance(x, ast.ImportFrom) or isinstance(x, ast.Import):
                        if any((a.asname or a.name) in names for a in x.names):
                            return None
        for mod_, ns in want.items():
            for nm in ns:
                if bound.get(nm) != (mod_, nm):
                    return None            # rebound, aliased or wrapped: not decidable from the text -> degraded tie
        return True
    g.fact('publicNamesAreTheSubmoduleFunctions', 'prysm/polynomials/__init__.py', public_names)
    g.fact('indexMapsReadAndWriteNoModuleState', 'prysm/polynomials/zernike.py, xy.py, mathops.py', stateless)
    return g.finish()


if __name__ == '__main__':
    import sys
    text, items = generate(sys.argv[1] if len(sys.argv) > 1 else '/repo')
    print(text)
    for it in items:
        print('--', it)
