"""translator items for C12 (Interferogram coherence): per-method *effect lists* of RichData / Interferogram.

For every method (and property getter) of `prysm._richdata.RichData` and `prysm.interferogram.Interferogram`
that touches one of the tracked attributes {data, dx, _latcaled, _x, _y, _r, _t} the statements are read in
execution order and turned into a list of `Model.C12.Eff` (see lean/PrysmVerif/Model/C12.lean for the meaning of each
effect).  Property reads (`self.x`, `self.r`, `self.std`, ...) and calls of own methods (`self.strip_latcal()`,
`self.latcal(self.dx)`) are inlined, so the list of a public method is what one call of it does.  Early returns
split a method into several paths (`crop#0`, `crop#1`, ...).

A construct outside the understood subset makes the METHOD untranslatable (fallback: the hand-written list of the
model, recorded in the evidence; the correspondence then widens its sweep).
"""
import ast
from pyexpr2lean import Gen, Untranslatable, load, get_def, node_sha

M = 'Model.C12'
XY = {'x': '.x', 'y': '.y', '_x': '.x', '_y': '.y'}
RT = {'r': '.r', 't': '.t', '_r': '.r', '_t': '.t'}
CACHES = dict(XY, **RT)
SHAPE_PRESERVING_CALLS = ('fft.fft2', 'fft.ifft2', 'fft.fftshift', 'fft.ifftshift', 'abs', 'np.abs', 'np.real')


class ClassInfo:
    """methods / properties of Interferogram with RichData as base"""

    def __init__(self, mods):
        self.methods, self.getters, self.setters = {}, {}, {}
        self.base_init = None
        for n in mods[0].body:
            if isinstance(n, ast.FunctionDef) and n.name == '__init__':
                self.base_init = n
        for cls in mods:     # base first, derived overrides
            for n in cls.body:
                if not isinstance(n, ast.FunctionDef):
                    continue
                decos = [ast.unparse(d) for d in n.decorator_list]
                if 'property' in decos:
                    self.getters[n.name] = n
                elif any(d.endswith('.setter') for d in decos):
                    self.setters[n.name] = n
                elif 'staticmethod' in decos or 'classmethod' in decos:
                    continue
                else:
                    self.methods[n.name] = n


def _is_self_attr(e, names=None):
    return isinstance(e, ast.Attribute) and isinstance(e.value, ast.Name) and e.value.id == 'self' \
        and (names is None or e.attr in names)


class Frame:
    """one (possibly inlined) activation: parameter bindings and locals"""

    def __init__(self, params):
        self.params = dict(params)     # python name -> Lean Val text, or None when not expressible
        self.locals = {}               # name -> ast expr last assigned
        self.known_present = set()     # caches known non-None (inside `if self._x is not None:`)
        self.aliases = {}              # local name -> 'data' | cache attribute name: the SAME array object as self.<attr>


class Extract:
    def __init__(self, info, callees=None):
        self.info = info
        self.callees = callees or {}      # function name -> FunctionDef of module-level helpers whose bodies are inspected
        self.slice_ids = {}
        self.nsaved = 0
        self.depth = 0

    # ---------------------------------------------------------------- values
    def val(self, e, fr):
        if isinstance(e, ast.Call) and ast.unparse(e.func) == 'float' and len(e.args) == 1 and not e.keywords:
            e = e.args[0]
        if isinstance(e, ast.Constant) and isinstance(e.value, (int, float)) and not isinstance(e.value, bool) and e.value == 1:
            return 'Val.one', []
        if isinstance(e, ast.Name) and fr.params.get(e.id):
            return fr.params[e.id], []
        if _is_self_attr(e, ('dx',)):
            return 'Val.dx', []
        raise Untranslatable(f'scalar expression {ast.unparse(e)[:40]} is not 1.0 / an argument / self.dx')

    def slice_id(self, sl):
        key = ast.unparse(sl)
        if key not in self.slice_ids:
            self.slice_ids[key] = len(self.slice_ids)
        return self.slice_ids[key]

    # ---------------------------------------------------------------- aliasing
    INPLACE_METHODS = ('fill', 'sort', 'put', 'itemset', 'partition', 'resize', 'setfield', 'byteswap', 'clip')

    def target_of(self, e, fr):
        """which tracked array object does expression e denote (without copying)?  'data' | cache attr | None"""
        if _is_self_attr(e, ('data',)):
            return 'data'
        if _is_self_attr(e, CACHES):
            return e.attr
        if isinstance(e, ast.Name) and e.id in fr.aliases:
            return fr.aliases[e.id]
        if isinstance(e, ast.Subscript):       # basic slicing returns a view
            parts = e.slice.elts if isinstance(e.slice, ast.Tuple) else [e.slice]
            if all(isinstance(p_, ast.Slice) or (isinstance(p_, ast.Constant) and p_.value is Ellipsis) for p_ in parts):
                return self.target_of(e.value, fr)
        return None

    def write_through(self, tgt, kind):
        """effect of an in-place modification of the array object `tgt` (kind: data-write kind for data)"""
        if tgt == 'data':
            return [f'Eff.dataWrite {kind}']
        c = tgt.lstrip('_')
        return [f'Eff.opaqueXY {XY[c]}'] if c in XY else [f'Eff.opaqueRT {RT[c]}']

    def mutates_param(self, fn, idx, depth=0):
        """does the module-level helper `fn` modify its idx-th positional parameter in place?"""
        if depth > 3 or idx >= len(fn.args.args):
            return False
        name = fn.args.args[idx].arg
        names = {name}
        for n in ast.walk(fn):            # local aliases of the parameter
            if isinstance(n, ast.Assign) and isinstance(n.value, ast.Name) and n.value.id in names:
                for t in n.targets:
                    if isinstance(t, ast.Name):
                        names.add(t.id)
        for n in ast.walk(fn):
            if isinstance(n, (ast.Assign, ast.AugAssign)):
                tg = n.targets if isinstance(n, ast.Assign) else [n.target]
                for t in tg:
                    base = t
                    while isinstance(base, ast.Subscript):
                        base = base.value
                    if isinstance(base, ast.Name) and base.id in names and (isinstance(t, ast.Subscript) or isinstance(n, ast.AugAssign)):
                        return True
            if isinstance(n, ast.Call):
                if isinstance(n.func, ast.Attribute) and isinstance(n.func.value, ast.Name) and n.func.value.id in names \
                        and n.func.attr in self.INPLACE_METHODS:
                    return True
                for k in n.keywords:
                    if k.arg == 'out' and isinstance(k.value, ast.Name) and k.value.id in names:
                        return True
                callee = self.callees.get(ast.unparse(n.func))
                if callee is not None and callee is not fn:
                    for j, a in enumerate(n.args):
                        if isinstance(a, ast.Name) and a.id in names and self.mutates_param(callee, j, depth + 1):
                            return True
        return False

    def call_side_effects(self, e, fr):
        """in-place effects of a call on tracked arrays: x.fill(v), out=self.data, helper(self.data) that writes its argument"""
        effs = []
        if isinstance(e.func, ast.Attribute) and e.func.attr in self.INPLACE_METHODS:
            tgt = self.target_of(e.func.value, fr)
            if tgt is not None:
                effs += self.write_through(tgt, '.setValue')
        for k in e.keywords:
            if k.arg == 'out':
                tgt = self.target_of(k.value, fr)
                if tgt is not None:
                    effs += self.write_through(tgt, '.replace')
        callee = self.callees.get(ast.unparse(e.func))
        if callee is not None:
            for j, a in enumerate(e.args):
                tgt = self.target_of(a, fr)
                if tgt is not None and self.mutates_param(callee, j):
                    effs += self.write_through(tgt, '.replace')
        return effs

    # ---------------------------------------------------------------- reads inside expressions
    def reads(self, e, fr):
        """effects of evaluating expression e (property reads, inlined self calls), in evaluation order.
        returns a list of PATHS (list of effect lists); almost always a single path."""
        if e is None:
            return [[]]
        if isinstance(e, ast.Call) and _is_self_attr(e.func) and e.func.attr in self.info.methods:
            paths = [[]]
            for a in list(e.args) + [k.value for k in e.keywords]:
                paths = self.seq(paths, self.reads(a, fr))
            return self.seq(paths, self.inline_call(e, fr))
        if isinstance(e, ast.Call) and ast.unparse(e.func) == 'super().__init__' and self.info.base_init is not None:
            paths = [[]]
            for a in list(e.args) + [k.value for k in e.keywords]:
                paths = self.seq(paths, self.reads(a, fr))
            return self.seq(paths, self.inline_call(e, fr, fn=self.info.base_init))
        if isinstance(e, ast.Call):
            side = self.call_side_effects(e, fr)
            if side:
                paths = [[]]
                for ch in [e.func] + list(e.args) + [k.value for k in e.keywords]:
                    paths = self.seq(paths, self.reads(ch, fr))
                return self.seq(paths, [side])
        if _is_self_attr(e) and isinstance(e.ctx, ast.Load):
            name = e.attr
            if name in ('_x', '_y', '_r', '_t', 'data', 'dx', '_latcaled'):
                return [[]]
            if name in self.info.getters:
                c = CACHES.get(name)
                if c is not None and (name in fr.known_present or '_' + name in fr.known_present):
                    return [[]]          # getter of a cache known to be populated: plain read
                return self.inline_getter(name)
            return [[]]
        paths = [[]]
        for ch in ast.iter_child_nodes(e):
            if isinstance(ch, (ast.expr_context, ast.operator, ast.unaryop, ast.cmpop, ast.boolop)):
                continue
            if isinstance(ch, ast.expr) or isinstance(ch, (ast.keyword, ast.comprehension, ast.Starred, ast.slice if hasattr(ast, 'slice') else ast.Slice)):
                paths = self.seq(paths, self.reads(ch, fr))
        return paths

    @staticmethod
    def seq(paths_a, paths_b):
        return [a + b for a in paths_a for b in paths_b]

    def inline_getter(self, name):
        self.depth += 1
        if self.depth > 6:
            raise Untranslatable('property inlining too deep')
        try:
            fn = self.info.getters[name]
            done, open_ = self.block(fn.body, Frame({}), [[]])
            return done + open_
        finally:
            self.depth -= 1

    def inline_call(self, call, fr, fn=None):
        self.depth += 1
        if self.depth > 6:
            raise Untranslatable('call inlining too deep')
        try:
            fn = fn or self.info.methods[call.func.attr]
            names = [a.arg for a in fn.args.args[1:]] + [a.arg for a in fn.args.kwonlyargs]
            bound, pre = {}, []
            actual = dict(zip(names, call.args))
            for k in call.keywords:
                actual[k.arg] = k.value
            for nm in names:
                a = actual.get(nm)
                if a is None:
                    bound[nm] = None
                    continue
                try:
                    v, _ = self.val(a, fr)
                except Untranslatable:
                    bound[nm] = None
                    continue
                if v == 'Val.dx':     # call by value: the callee may overwrite self.dx before using the argument
                    slot = self.nsaved
                    self.nsaved += 1
                    pre.append(f'Eff.saveDx {slot}')
                    v = f'Val.saved {slot}'
                bound[nm] = v
            done, open_ = self.block(fn.body, Frame(bound), [[]])
            return [pre + p for p in done + open_]
        finally:
            self.depth -= 1

    # ---------------------------------------------------------------- statements
    def block(self, stmts, fr, paths):
        """returns (finished_paths, open_paths)"""
        finished = []
        for st in stmts:
            if not paths:
                break
            done, paths = self.stmt(st, fr, paths)
            finished += done
        return finished, paths

    def has_tracked(self, node):
        for n in ast.walk(node):
            if _is_self_attr(n) and (n.attr in ('data', 'dx', '_latcaled', '_x', '_y', '_r', '_t', 'x', 'y', 'r', 't')
                                     or n.attr in self.info.getters or n.attr in self.info.methods):
                return True
            if isinstance(n, (ast.Return, ast.Raise)):
                return True
        return False

    def stmt(self, st, fr, paths):
        if isinstance(st, ast.Expr) and isinstance(st.value, ast.Constant):
            return [], paths
        if isinstance(st, (ast.Pass, ast.Import, ast.ImportFrom)):
            return [], paths
        if isinstance(st, ast.Return):
            return self.seq(paths, self.reads(st.value, fr)), []
        if isinstance(st, ast.Raise):
            return [p for p in paths if p], []      # an exception before any effect changes nothing
        if isinstance(st, ast.Expr):
            return [], self.seq(paths, self.reads(st.value, fr))
        if isinstance(st, ast.If):
            return self.if_stmt(st, fr, paths)
        if isinstance(st, ast.Assign):
            return [], self.seq(paths, self.assign(st, fr))
        if isinstance(st, ast.AugAssign):
            return [], self.seq(paths, self.augassign(st, fr))
        if isinstance(st, ast.FunctionDef):
            # a nested helper that never mentions `self` (nor declares global / nonlocal) cannot touch the tracked state by being defined;
            # calling it with plain numbers (see reads) returns a value only
            if any((isinstance(n, ast.Name) and n.id == 'self') or isinstance(n, (ast.Global, ast.Nonlocal)) for n in ast.walk(st)):
                raise Untranslatable(f'nested function {st.name} refers to self')
            return [], paths
        if isinstance(st, (ast.For, ast.While, ast.With, ast.Try)):
            if self.has_tracked(st):
                raise Untranslatable(f'{type(st).__name__} statement touching tracked state')
            return [], paths
        raise Untranslatable(f'statement {ast.unparse(st)[:50]}')

    def cache_test(self, test):
        """`self._c is not None` -> (c, True) ; `self._c is None` -> (c, False)"""
        if isinstance(test, ast.Compare) and len(test.ops) == 1 and _is_self_attr(test.left, CACHES) \
                and isinstance(test.comparators[0], ast.Constant) and test.comparators[0].value is None:
            if isinstance(test.ops[0], ast.IsNot):
                return test.left.attr, True
            if isinstance(test.ops[0], ast.Is):
                return test.left.attr, False
        return None

    def if_stmt(self, st, fr, paths):
        ct = self.cache_test(st.test)
        if ct is not None and not st.orelse:
            name, present = ct
            if name in ('x', 'y', 'r', 't'):
                raise Untranslatable('cache test through the property (always populated)')
            if present:
                sub = Frame(fr.params)
                sub.locals = fr.locals
                sub.known_present = set(fr.known_present) | {name}
                done, open_ = self.block(st.body, sub, [[]])
                if done or len(open_) != 1:
                    raise Untranslatable('return / branching inside a cache guard')
                g = ('Eff.guardXY ' + XY[name]) if name in XY else ('Eff.guardRT ' + RT[name])
                body = open_[0]
                for e in body:
                    if e.startswith('Eff.guard'):
                        raise Untranslatable('nested guard inside a cache guard')
                return [], self.seq(paths, [[f'{g} ({e})' for e in body]])
            # `if self._c is None: <populate>` : the getter idiom
            if len(st.body) == 1 and isinstance(st.body[0], ast.Assign):
                effs = self.assign(st.body[0], fr)
                if effs == [['Eff.freshXY']] and name in XY:
                    return [], self.seq(paths, [[f'Eff.fillXY {XY[name]}']])
                if len(effs) == 1 and effs[0] and effs[0][-1] == 'Eff.freshRT' and name in RT:
                    return [], self.seq(paths, [[f'Eff.fillRT {RT[name]}']])
            raise Untranslatable(f'unrecognised lazy-population idiom for {name}')
        # ordinary conditional
        paths = self.seq(paths, self.reads(st.test, fr))
        if not self.has_tracked(ast.Module(body=st.body + st.orelse, type_ignores=[])):
            for s in st.body + st.orelse:      # remember local assignments (slices, centre index)
                self.note_locals(s, fr)
            return [], paths
        d1, o1 = self.block(st.body, fr, [list(p) for p in paths])
        d2, o2 = self.block(st.orelse, fr, [list(p) for p in paths])
        return d1 + d2, o1 + o2

    def note_locals(self, st, fr):
        for n in ast.walk(st):
            if isinstance(n, ast.Assign):
                for t in n.targets:
                    if isinstance(t, ast.Name):
                        fr.locals[t.id] = n.value
                    elif isinstance(t, ast.Tuple) and isinstance(n.value, ast.Tuple) and len(t.elts) == len(n.value.elts):
                        for tt, vv in zip(t.elts, n.value.elts):
                            if isinstance(tt, ast.Name):
                                fr.locals[tt.id] = vv

    # -------- classification helpers
    def is_center_index(self, e, fr):
        """the index of the centre sample: `tuple(s // 2 for s in self.shape)` or `(self.shape[0] // 2, self.shape[1] // 2)`
        (also with self.data.shape), possibly through a local"""
        if isinstance(e, ast.Name) and e.id in fr.locals:
            e = fr.locals[e.id]
        txt = ast.unparse(e).replace(' ', '')
        if txt in ('tuple((s//2forsinself.shape))', 'tuple((s//2forsinself.data.shape))',
                   'tuple(s//2forsinself.shape)', 'tuple(s//2forsinself.data.shape)',
                   '[s//2forsinself.shape]', '[s//2forsinself.data.shape]'):
            return True
        if isinstance(e, ast.Tuple) and len(e.elts) == 2:
            want = [('self.shape[%d]//2' % k, 'self.data.shape[%d]//2' % k) for k in (0, 1)]
            return all(ast.unparse(el).replace(' ', '') in w for el, w in zip(e.elts, want))
        return False

    def shape_preserving(self, e, fr, depth=0):
        """is e an array of the shape of self.data by construction (elementwise / FFT of self.data)?"""
        if depth > 8:
            return False
        if _is_self_attr(e, ('data',)):
            return True
        if isinstance(e, ast.Name) and e.id in fr.locals:
            return self.shape_preserving(fr.locals[e.id], fr, depth + 1)
        if isinstance(e, ast.Attribute) and e.attr in ('real', 'imag'):
            return self.shape_preserving(e.value, fr, depth + 1)
        if isinstance(e, ast.Call) and ast.unparse(e.func) in SHAPE_PRESERVING_CALLS and e.args:
            if any(k.arg in ('s', 'n', 'axes', 'shape') for k in e.keywords) or len(e.args) > 1:
                return False
            return self.shape_preserving(e.args[0], fr, depth + 1)
        if isinstance(e, ast.Call) and ast.unparse(e.func) in ('np.where', 'where') and len(e.args) == 3:
            return self.shape_preserving(e.args[1], fr, depth + 1) or self.shape_preserving(e.args[2], fr, depth + 1)
        if isinstance(e, ast.BinOp):
            return self.shape_preserving(e.left, fr, depth + 1) or self.shape_preserving(e.right, fr, depth + 1)
        if isinstance(e, ast.UnaryOp):
            return self.shape_preserving(e.operand, fr, depth + 1)
        return False

    def cache_of_expr(self, e):
        """`self.x` / `self._x` -> ('x', via_property)"""
        if _is_self_attr(e, CACHES):
            return e.attr.lstrip('_'), not e.attr.startswith('_')
        return None

    def write_cache(self, name, value, fr):
        """effects of `self.<name> = value` for a cache attribute (setter or private)"""
        c = name.lstrip('_')
        kind = 'XY' if c in XY else 'RT'
        sel = CACHES[c]
        if isinstance(value, ast.Constant) and value.value is None:
            return [[f'Eff.clear{kind} {sel}']]
        if isinstance(value, ast.Subscript):
            src = self.cache_of_expr(value.value)
            if src is not None and src[0] == c:
                pre = self.reads(value.value, fr)
                k = self.slice_id(value.slice)
                eff = f'Eff.reslice {sel} {k}' if kind == 'XY' else f'Eff.resliceP {sel} {k}'
                return self.seq(pre, [[eff]])
        if kind == 'XY' and isinstance(value, ast.BinOp):
            # `self.c = self.c * v`, `self.c = v * self.c`, `self.c = self.c - self.c[centre]` : the in-place forms, spelled out
            l_, r_ = value.left, value.right
            lsrc, rsrc = self.cache_of_expr(l_), self.cache_of_expr(r_)
            if isinstance(value.op, ast.Mult) and ((lsrc and lsrc[0] == c) != (rsrc and rsrc[0] == c)):
                arr, other = (l_, r_) if (lsrc and lsrc[0] == c) else (r_, l_)
                val, _ = self.val(other, fr)
                return self.seq(self.seq(self.reads(arr, fr), self.reads(other, fr)), [[f'Eff.scale {sel} ({val})']])
            if isinstance(value.op, ast.Sub) and lsrc and lsrc[0] == c:
                rr = fr.locals[r_.id] if isinstance(r_, ast.Name) and r_.id in fr.locals else r_
                if isinstance(rr, ast.Subscript):
                    src = self.cache_of_expr(rr.value)
                    if src is not None and src[0] == c and self.is_center_index(rr.slice, fr):
                        return self.seq(self.seq(self.reads(l_, fr), self.reads(r_, fr)), [[f'Eff.center {sel}']])
        return self.seq(self.reads(value, fr), [[f'Eff.opaque{kind} {sel}']])

    def fresh_xy(self, v, fr):
        """`make_xy_grid(<shape of the data>, dx=<e>)`: a fresh grid of spacing e.  e = self.dx is `freshXY`; any other
        expressible e is encoded as: save dx, set dx := e, freshXY, restore dx (so that the analyser sees the spacing)"""
        if not (isinstance(v, ast.Call) and ast.unparse(v.func).split('.')[-1] == 'make_xy_grid' and len(v.args) == 1
                and ast.unparse(v.args[0]) in ('self.data.shape', 'self.shape')):
            return None
        kws = {k.arg: k.value for k in v.keywords}
        if set(kws) - {'dx', 'grid'} or 'dx' not in kws:
            return None
        if 'grid' in kws and not (isinstance(kws['grid'], ast.Constant) and kws['grid'].value is True):
            return None
        if ast.unparse(kws['dx']) == 'self.dx':
            return ['Eff.freshXY']
        try:
            val, _ = self.val(kws['dx'], fr)
        except Untranslatable:
            return None
        slot = self.nsaved
        self.nsaved += 1
        return [f'Eff.saveDx {slot}', f'Eff.setDx ({val})', 'Eff.freshXY', f'Eff.setDx (Val.saved {slot})']

    def assign(self, st, fr):
        if len(st.targets) != 1:
            # `a = b = value`: the value is evaluated once, then stored left to right
            paths = [[]]
            for k, tt in enumerate(st.targets):
                paths = self.seq(paths, self.assign(ast.Assign(targets=[tt], value=st.value if k == 0 else ast.Constant(value=None)
                                                               if isinstance(st.value, ast.Constant) else st.value), fr))
            return paths
        t, v = st.targets[0], st.value
        # tuple targets
        if isinstance(t, ast.Tuple):
            names = [x.attr if _is_self_attr(x) else None for x in t.elts]
            if all(n is None for n in names):
                paths = self.reads(v, fr)
                self.note_locals(st, fr)
                return paths
            if isinstance(v, ast.Tuple) and len(v.elts) == len(t.elts) and \
                    all(isinstance(x, ast.Constant) for x in v.elts):
                paths = [[]]
                for tt, vv in zip(t.elts, v.elts):
                    paths = self.seq(paths, self.assign(ast.Assign(targets=[tt], value=vv), fr))
                return paths
            if [n.lstrip('_') if n else n for n in names] == ['x', 'y']:
                fx = self.fresh_xy(v, fr)
                if fx is not None:
                    return [fx]
                return self.seq(self.reads(v, fr), [['Eff.opaqueXY .x', 'Eff.opaqueXY .y']])
            if [n.lstrip('_') if n else n for n in names] == ['r', 't']:
                if isinstance(v, ast.Call) and ast.unparse(v.func) == 'cart_to_polar' \
                        and [ast.unparse(a) for a in v.args] == ['self.x', 'self.y'] and not v.keywords:
                    return [['Eff.freshRT']]       # the model's freshRT reads x and y through their getters
                return self.seq(self.reads(v, fr), [['Eff.opaqueRT .r', 'Eff.opaqueRT .t']])
            if isinstance(v, ast.Tuple) and len(v.elts) == len(t.elts):
                paths = [[]]
                for tt, vv in zip(t.elts, v.elts):
                    paths = self.seq(paths, self.assign(ast.Assign(targets=[tt], value=vv), fr))
                return paths
            raise Untranslatable(f'tuple assignment {ast.unparse(st)[:50]}')
        if isinstance(t, ast.Name):
            paths = self.reads(v, fr)
            fr.locals[t.id] = v
            tgt = self.target_of(v, fr)
            if tgt is not None:
                fr.aliases[t.id] = tgt
            else:
                fr.aliases.pop(t.id, None)
            return paths
        if _is_self_attr(t):
            name = t.attr
            if name == 'data':
                if isinstance(v, ast.Subscript) and _is_self_attr(v.value, ('data',)):
                    return [[f'Eff.dataReshape {self.slice_id(v.slice)}']]
                pre = self.reads(v, fr)
                if isinstance(v, ast.BinOp) and isinstance(v.op, (ast.Sub, ast.Add, ast.Mult, ast.Div)) \
                        and (self.target_of(v.left, fr) == 'data' or self.target_of(v.right, fr) == 'data'):
                    return self.seq(pre, [['Eff.dataWrite .arith']])      # `self.data = self.data - e`: the in-place form spelled out
                if isinstance(v, ast.Call) and ast.unparse(v.func) == 'pad2d':
                    return self.seq(pre, [[f'Eff.dataReshape {self.slice_id(v)}']])
                if self.shape_preserving(v, fr):
                    return self.seq(pre, [['Eff.dataWrite .replace']])
                return self.seq(pre, [[f'Eff.dataReshape {self.slice_id(v)}']])
            if name == 'dx':
                val, _ = self.val(v, fr)
                return [[f'Eff.setDx ({val})']]
            if name == '_latcaled':
                if isinstance(v, ast.Constant) and isinstance(v.value, bool):
                    return [[f'Eff.setLatcaled {"true" if v.value else "false"}']]
                raise Untranslatable('_latcaled set to a non-literal')
            if name in CACHES:
                return self.write_cache(name, v, fr)
            return self.reads(v, fr)      # untracked attribute
        if isinstance(t, ast.Subscript) and self.target_of(t.value, fr) is not None and not _is_self_attr(t.value):
            tgt = self.target_of(t.value, fr)        # write through a local alias / view
            pre = self.seq(self.reads(t.slice, fr), self.reads(v, fr))
            if tgt == 'data':
                nanv = ast.unparse(v) in ('np.nan', 'float("nan")', "float('nan')", 'nan')
                return self.seq(pre, [['Eff.dataWrite .setInvalid' if nanv else 'Eff.dataWrite .setValue']])
            return self.seq(pre, [self.write_through(tgt, '')])
        if isinstance(t, ast.Subscript) and _is_self_attr(t.value, ('data',)):
            pre = self.seq(self.reads(t.slice, fr), self.reads(v, fr))
            if ast.unparse(v) in ('np.nan', 'float("nan")', "float('nan')", 'nan'):
                return self.seq(pre, [['Eff.dataWrite .setInvalid']])
            return self.seq(pre, [['Eff.dataWrite .setValue']])
        if isinstance(t, ast.Subscript) and _is_self_attr(t.value, CACHES):
            c = t.value.attr.lstrip('_')
            kind = 'XY' if c in XY else 'RT'
            return self.seq(self.reads(v, fr), [[f'Eff.opaque{kind} {CACHES[c]}']])
        # writes to other objects / attributes
        return self.reads(v, fr)

    def augassign(self, st, fr):
        t, v = st.target, st.value
        base = t.value if isinstance(t, ast.Subscript) else t
        if not _is_self_attr(base) and self.target_of(base, fr) is not None:
            tgt = self.target_of(base, fr)           # in-place update through a local alias / view
            pre = self.reads(v, fr)
            if tgt == 'data':
                kind = '.arith' if isinstance(st.op, (ast.Sub, ast.Add, ast.Mult, ast.Div)) else '.replace'
                return self.seq(pre, [[f'Eff.dataWrite {kind}']])
            return self.seq(pre, [self.write_through(tgt, '')])
        if _is_self_attr(t, ('data',)) or (isinstance(t, ast.Subscript) and _is_self_attr(t.value, ('data',))):
            pre = self.reads(v, fr)
            if isinstance(t, ast.Subscript):
                pre = self.seq(self.reads(t.slice, fr), pre)
            if isinstance(st.op, (ast.Sub, ast.Add, ast.Mult, ast.Div)):
                return self.seq(pre, [['Eff.dataWrite .arith']])
            return self.seq(pre, [['Eff.dataWrite .replace']])
        if _is_self_attr(t, XY):
            c = t.attr.lstrip('_')
            sel = XY[c]
            tread = self.reads(ast.Attribute(value=t.value, attr=t.attr, ctx=ast.Load()), fr)
            pre = self.seq(tread, self.reads(v, fr))
            if isinstance(v, ast.Name) and v.id in fr.locals:
                v = fr.locals[v.id]
            if isinstance(st.op, ast.Sub) and isinstance(v, ast.Subscript):
                src = self.cache_of_expr(v.value)
                if src is not None and src[0] == c and self.is_center_index(v.slice, fr):
                    return self.seq(pre, [[f'Eff.center {sel}']])
            if isinstance(st.op, ast.Mult):
                val, _ = self.val(v, fr)
                return self.seq(pre, [[f'Eff.scale {sel} ({val})']])
            return self.seq(pre, [[f'Eff.opaqueXY {sel}']])
        if _is_self_attr(t, RT):
            c = t.attr.lstrip('_')
            return self.seq(self.reads(v, fr), [[f'Eff.opaqueRT {RT[c]}']])
        if _is_self_attr(t, ('dx', '_latcaled')):
            raise Untranslatable(f'in-place update of {t.attr}')
        return self.reads(v, fr)


def _lean_list(effs):
    return '[' + ', '.join(effs) + ']'


CALLEES = {}


def _check_slice_names(fn):
    """names used as slices of data / caches must not be re-assigned between their uses"""
    uses = {}
    for n in ast.walk(fn):
        if isinstance(n, ast.Subscript) and (_is_self_attr(n.value, ('data',)) or _is_self_attr(n.value, CACHES)):
            for nm in ast.walk(n.slice):
                if isinstance(nm, ast.Name):
                    uses.setdefault(nm.id, []).append(n.lineno)
    for n in ast.walk(fn):
        if isinstance(n, (ast.Assign, ast.AugAssign)):
            tg = n.targets if isinstance(n, ast.Assign) else [n.target]
            for t in tg:
                for nm in ast.walk(t):
                    if isinstance(nm, ast.Name) and isinstance(nm.ctx, ast.Store) and nm.id in uses \
                            and min(uses[nm.id]) < n.lineno <= max(uses[nm.id]):
                        raise Untranslatable(f'slice name {nm.id} is re-assigned between its uses')


def method_paths(info, fn, is_getter=False):
    _check_slice_names(fn)
    ex = Extract(info, CALLEES)
    names = [a.arg for a in fn.args.args[1:]] + [a.arg for a in fn.args.kwonlyargs]
    fr = Frame({nm: f'Val.arg {i}' for i, nm in enumerate(names)})
    done, open_ = ex.block(fn.body, fr, [[]])
    paths = done + open_
    uniq = []
    for p in paths:
        if p not in uniq:
            uniq.append(p)
    nonempty = [p for p in uniq if p]
    return nonempty if nonempty else [[]]


def setters_trivial(info):
    for name in ('x', 'y', 'r', 't'):
        fn = info.setters.get(name)
        if fn is None:
            return False
        body = [s for s in fn.body if not (isinstance(s, ast.Expr) and isinstance(s.value, ast.Constant))]
        if len(body) != 1 or ast.unparse(body[0]) != f'self._{name} = {fn.args.args[1].arg}':
            return False
    return True


def generate(repo):
    g = Gen('C12', imports=['PrysmVerif.Model.C12'], opens=['Model.C12'], header='set_option linter.unusedVariables false')
    rd, _ = load(repo, 'prysm/_richdata.py')
    ig, _ = load(repo, 'prysm/interferogram.py')
    base = get_def(rd, 'RichData')
    der = get_def(ig, 'Interferogram')
    info = ClassInfo([base, der])
    utl, _ = load(repo, 'prysm/util.py')
    pol, _ = load(repo, 'prysm/polynomials/__init__.py')
    coo, _ = load(repo, 'prysm/coordinates.py')
    CALLEES.clear()
    for mod in (pol, utl, ig):      # module-level helpers whose bodies are inspected for in-place writes to their arguments
        for n in mod.body:
            if isinstance(n, ast.FunctionDef):
                CALLEES[n.name] = n

    entries = []      # (lean def name, table key)

    def add(kind, pyname, fn, key, hand):
        lean_name = 'eff_' + key.replace('#', '_')
        state = {}

        def build():
            paths = method_paths(info, fn)
            state['paths'] = paths
            if len(paths) == 1:
                entries.append((lean_name, key))
                return f'def {lean_name} : List Eff := {_lean_list(paths[0])}'
            out = []
            for i, p in enumerate(paths):
                entries.append((f'{lean_name}_{i}', f'{key}#{i}'))
                out.append(f'def {lean_name}_{i} : List Eff := {_lean_list(p)}')
            return '\n'.join(out)

        n_before = len(entries)
        src = ('prysm/_richdata.py:RichData.' if fn in base.body else 'prysm/interferogram.py:Interferogram.') + pyname
        fallback = f'def {lean_name} : List Eff := ({M}.methodEffs "{hand}").getD [.opaqueXY .x]'
        g.item(key, src, lambda: fn, build, fallback)
        if g.items[-1]['status'] != 'ok':
            del entries[n_before:]
            entries.append((lean_name, key))

    for c in ('x', 'y', 'r', 't'):
        if c in info.getters:
            add('getter', c, info.getters[c], f'read_{c}', f'read_{c}')
    tracked_getters = []
    for name, fn in sorted(info.getters.items()):
        if name in ('x', 'y', 'r', 't'):
            continue
        try:
            if any(method_paths(info, fn)):
                tracked_getters.append(name)
        except Untranslatable:
            tracked_getters.append(name)
    for name in tracked_getters:
        add('getter', name, info.getters[name], f'get_{name}', '')
    for name, fn in sorted(info.methods.items()):
        if name.startswith('__') or name in ('plot2d', 'interferogram'):
            continue
        try:
            has = any(method_paths(info, fn))
        except Untranslatable:
            has = True
        if has:
            add('method', name, fn, name, name)

    # constructors: effect lists from an ARBITRARY state (analysed without assuming coherence)
    init_entries = []
    for cls_name, cls in (('RichData', base), ('Interferogram', der)):
        fn = next((n for n in cls.body if isinstance(n, ast.FunctionDef) and n.name == '__init__'), None)
        if fn is None:
            continue
        state = {}

        def build_init(fn=fn, cls_name=cls_name):
            paths = method_paths(info, fn)
            out = []
            for i, p_ in enumerate(paths):
                nm = f'init_{cls_name}_{i}'
                init_entries.append(nm)
                out.append(f'def {nm} : List Eff := {_lean_list(p_)}')
            return '\n'.join(out)
        n0 = len(init_entries)
        g.item(f'{cls_name}.__init__', f'{cls_name}.__init__', lambda fn=fn: fn, build_init,
               f'def init_{cls_name}_0 : List Eff := [.clearXY .x, .clearXY .y, .clearRT .r, .clearRT .t]')
        if g.items[-1]['status'] != 'ok':
            del init_entries[n0:]
            init_entries.append(f'init_{cls_name}_0')
    g.chunks.append('/-- effect lists of the constructors (every path) -/\ndef inits : List (List Eff) := [' + ', '.join(init_entries) + ']\n')

    g.chunks.append('/-- every (method path, effect list) of RichData / Interferogram that touches data, dx or a coordinate cache -/\n'
                    'def table : List (String × List Eff) :=\n  [' +
                    ',\n   '.join(f'("{key}", {ln})' for ln, key in entries) + ']\n')
    changers = ('mask', 'fill', 'spike_clip', 'crop', 'pad', 'filter')
    g.chunks.append('/-- the entries of `table` that belong to methods NOT in {mask, fill, spike_clip, crop, pad, filter}: the property says\n'
                    '    these leave the set of invalid samples unchanged -/\n'
                    'def keepers : List (String × List Eff) :=\n  [' +
                    ',\n   '.join(f'("{key}", {ln})' for ln, key in entries if key.split('#')[0] not in changers) + ']\n')
    # ---- crop: the slice arithmetic of every branch, normalised as NumPy normalises slice bounds
    def crop_slices():
        from pyexpr2lean import Tr
        fn = info.methods['crop']
        env = {'left': 'left', 'right': 'right', 'top': 'top', 'bottom': 'bottom',
               'self.data.shape[0]': 'rows', 'self.data.shape[1]': 'cols', 'self.shape[0]': 'rows', 'self.shape[1]': 'cols'}
        for st in fn.body:      # `m, n = self.data.shape`
            if isinstance(st, ast.Assign) and isinstance(st.targets[0], ast.Tuple) and len(st.targets[0].elts) == 2 \
                    and ast.unparse(st.value) in ('self.data.shape', 'self.shape') \
                    and all(isinstance(e, ast.Name) for e in st.targets[0].elts):
                env[st.targets[0].elts[0].id] = 'rows'
                env[st.targets[0].elts[1].id] = 'cols'
        tr = Tr(env)
        # which local slices the data, on which axis
        sub = None
        for st in ast.walk(fn):
            if isinstance(st, ast.Assign) and _is_self_attr(st.targets[0], ('data',)) and isinstance(st.value, ast.Subscript) \
                    and _is_self_attr(st.value.value, ('data',)):
                sub = st.value.slice
        if not (isinstance(sub, ast.Tuple) and len(sub.elts) == 2 and all(isinstance(e, ast.Name) for e in sub.elts)):
            raise Untranslatable('data is not cut by `self.data[<name>, <name>]`')
        names = [e.id for e in sub.elts]

        def bounds(call, axis_len, tr_=None):
            tr_ = tr_ or tr
            if not (isinstance(call, ast.Call) and ast.unparse(call.func) == 'slice' and not call.keywords and 1 <= len(call.args) <= 2):
                raise Untranslatable(f'not a slice(a, b): {ast.unparse(call)[:40]}')
            args = call.args if len(call.args) == 2 else [ast.Constant(value=None), call.args[0]]

            def one(a, default):
                if isinstance(a, ast.Constant) and a.value is None:
                    return default
                return f'(normIdx {axis_len} {tr_.expr(a)})'
            return one(args[0], '(0 : Int)'), one(args[1], axis_len)

        nested = {n.name: n for n in fn.body if isinstance(n, ast.FunctionDef)}

        def returns(stmts, tr_, axis_len):
            """(lo, hi) of a helper body made of `if c: return slice(..)` / `elif` / `else` / a final `return slice(..)`"""
            for k, st in enumerate(stmts):
                if isinstance(st, ast.Expr) and isinstance(st.value, ast.Constant):
                    continue
                if isinstance(st, ast.Return) and st.value is not None:
                    return bounds(st.value, axis_len, tr_)
                if isinstance(st, ast.If):
                    c = tr_.cond(st.test)
                    lo1, hi1 = returns(st.body, tr_, axis_len)
                    lo2, hi2 = returns(st.orelse if st.orelse else stmts[k + 1:], tr_, axis_len)
                    return f'(if {c} then {lo1} else {lo2})', f'(if {c} then {hi1} else {hi2})'
                raise Untranslatable(f'statement in nested helper: {ast.unparse(st)[:40]}')
            raise Untranslatable('nested helper falls off its end')

        def chain(node_list, name, axis_len):
            """Lean (lo, hi) terms for the if/elif chain assigning `name`"""
            for st in node_list:
                if isinstance(st, ast.Assign) and len(st.targets) == 1 and isinstance(st.targets[0], ast.Name) \
                        and st.targets[0].id == name and isinstance(st.value, ast.Call) and isinstance(st.value.func, ast.Name) \
                        and st.value.func.id in nested and not st.value.keywords:
                    h = nested[st.value.func.id]
                    params = [a.arg for a in h.args.args]
                    if len(params) != len(st.value.args) or h.args.vararg or h.args.kwarg or h.args.defaults:
                        raise Untranslatable('nested helper call does not bind its parameters positionally')
                    for n_ in ast.walk(h):
                        if isinstance(n_, (ast.Assign, ast.AugAssign)):
                            raise Untranslatable('nested helper assigns locals')
                    env2 = {p_: '(' + tr.expr(a_) + ')' for p_, a_ in zip(params, st.value.args)}
                    return returns(h.body, Tr(env2), axis_len)
                if isinstance(st, ast.Assign) and len(st.targets) == 1 and isinstance(st.targets[0], ast.Name) \
                        and st.targets[0].id == name:
                    return bounds(st.value, axis_len)
                if isinstance(st, ast.If) and any(isinstance(n, ast.Assign) and isinstance(n.targets[0], ast.Name)
                                                  and n.targets[0].id == name for n in ast.walk(st)):
                    c = tr.cond(st.test)
                    lo1, hi1 = chain(st.body, name, axis_len)
                    if not st.orelse:
                        raise Untranslatable(f'{name} is not assigned on every branch')
                    lo2, hi2 = chain(st.orelse, name, axis_len)
                    return f'(if {c} then {lo1} else {lo2})', f'(if {c} then {hi1} else {hi2})'
            raise Untranslatable(f'no assignment to {name}')
        rlo, rhi = chain(fn.body, names[0], 'rows')
        clo, chi = chain(fn.body, names[1], 'cols')
        sig = '(left right top bottom rows cols : Int) : Int'
        return (f'def cropRowLo {sig} := {rlo}\ndef cropRowHi {sig} := {rhi}\n'
                f'def cropColLo {sig} := {clo}\ndef cropColHi {sig} := {chi}')
    sig = '(left right top bottom rows cols : Int) : Int'
    g.item('crop.slices', 'prysm/interferogram.py:Interferogram.crop', lambda: info.methods['crop'], crop_slices,
           '\n'.join(f'def {nm} {sig} := {M}.{nm} left right top bottom rows cols'
                     for nm in ('cropRowLo', 'cropRowHi', 'cropColLo', 'cropColHi')))

    # ---- crop: where the four margins come from (which axis `any` reduces, forward / reversed argmax, which validity test)
    #      and the early-return test, by symbolic evaluation of the straight-line head of the method
    def crop_margins():
        from pyexpr2lean import Tr
        fn = info.methods['crop']
        env = {}
        facts = {'finite': None}

        def axis_of(call, first_positional):
            ax = None
            for k in call.keywords:
                if k.arg == 'axis':
                    ax = k.value
            if ax is None and len(call.args) > first_positional:
                ax = call.args[first_positional]
            if isinstance(ax, ast.UnaryOp) and isinstance(ax.op, ast.USub) and isinstance(ax.operand, ast.Constant):
                return {1: 1, 2: 0}.get(ax.operand.value)
            if isinstance(ax, ast.Constant) and ax.value in (0, 1):
                return ax.value
            return None

        def ev(e):
            if isinstance(e, ast.Name):
                return env.get(e.id, ('opaque',))
            if isinstance(e, ast.Call):
                f = ast.unparse(e.func)
                if f in ('np.isfinite', 'np.isnan', 'np.isinf') and len(e.args) == 1 and _is_self_attr(e.args[0], ('data',)):
                    return ('mat', f.split('.')[-1], False)
                if f in ('np.logical_not', 'np.invert') and len(e.args) == 1:
                    v = ev(e.args[0])
                    if v[0] == 'mat':
                        return ('mat', v[1], not v[2])
                if f in ('np.any',) and e.args:
                    v, ax = ev(e.args[0]), axis_of(e, 1)
                    if v[0] == 'mat' and ax is not None:
                        return ('vec', v, 'col' if ax == 0 else 'row', False)
                if isinstance(e.func, ast.Attribute) and e.func.attr == 'any':
                    v, ax = ev(e.func.value), axis_of(e, 0)
                    if v[0] == 'mat' and ax is not None:
                        return ('vec', v, 'col' if ax == 0 else 'row', False)
                if f in ('np.flip', 'np.flipud') and len(e.args) == 1 and not e.keywords:
                    v = ev(e.args[0])
                    if v[0] == 'vec':
                        return ('vec', v[1], v[2], not v[3])
                if f in ('np.argmax',) and len(e.args) == 1 and not e.keywords:
                    v = ev(e.args[0])
                    if v[0] == 'vec':
                        return ('margin', v)
                if isinstance(e.func, ast.Attribute) and e.func.attr == 'argmax' and not e.args and not e.keywords:
                    v = ev(e.func.value)
                    if v[0] == 'vec':
                        return ('margin', v)
                if f == 'int' and len(e.args) == 1:
                    return ev(e.args[0])
                return ('opaque',)
            if isinstance(e, ast.UnaryOp) and isinstance(e.op, ast.Invert):
                v = ev(e.operand)
                if v[0] == 'mat':
                    return ('mat', v[1], not v[2])
            if isinstance(e, ast.Subscript) and isinstance(e.slice, ast.Slice) and e.slice.lower is None and e.slice.upper is None \
                    and isinstance(e.slice.step, ast.UnaryOp) and isinstance(e.slice.step.op, ast.USub) \
                    and isinstance(e.slice.step.operand, ast.Constant) and e.slice.step.operand.value == 1:
                v = ev(e.value)
                if v[0] == 'vec':
                    return ('vec', v[1], v[2], not v[3])
            return ('opaque',)

        early = None
        for st in fn.body:
            if isinstance(st, ast.Expr) or isinstance(st, ast.FunctionDef):
                continue
            if isinstance(st, ast.Assign) and len(st.targets) == 1:
                t = st.targets[0]
                if isinstance(t, ast.Name):
                    env[t.id] = ev(st.value)
                    continue
                if isinstance(t, ast.Tuple) and isinstance(st.value, ast.Tuple) and len(t.elts) == len(st.value.elts) \
                        and all(isinstance(x, ast.Name) for x in t.elts):
                    vals = [ev(x) for x in st.value.elts]
                    for x, v in zip(t.elts, vals):
                        env[x.id] = v
                    continue
                break
            if isinstance(st, ast.If) and early is None and len(st.body) == 1 and isinstance(st.body[0], ast.Return) and not st.orelse:
                early = st.test
                continue
            break
        if early is None:
            raise Untranslatable('no `if <nothing to trim>: return` before the slices are built')
        out = []
        for py, ln in (('left', 'cropLeft'), ('right', 'cropRight'), ('top', 'cropTop'), ('bottom', 'cropBottom')):
            v = env.get(py)
            if not v or v[0] != 'margin':
                raise Untranslatable(f'`{py}` is not an argmax of any(validity, axis)')
            _, (_, mat, kind, rev) = v
            valid_means_true = (mat[1] == 'isfinite' and not mat[2]) or (mat[1] in ('isnan',) and mat[2])
            if not valid_means_true and not (mat[1] == 'isinf' and mat[2]):
                raise Untranslatable('margins are measured on the INVALID samples')
            fin = (mat[1] == 'isfinite')
            facts['finite'] = fin if facts['finite'] is None else (facts['finite'] and fin)
            vec = f'({"rowAny" if kind == "row" else "colAny"} v rows cols)'
            out.append(f'def {ln} (v : Nat → Nat → Bool) (rows cols : Nat) : Nat := argmaxB {vec}{".reverse" if rev else ""}')
        c = Tr({k: k for k in ('left', 'right', 'top', 'bottom')}).cond(early)
        out.append(f'def cropReturnsEarly (left right top bottom : Int) : Bool := decide {c}')
        out.append(f'def cropValidityIsFinite : Bool := {"true" if facts["finite"] else "false"}')
        return '\n'.join(out)
    g.item('crop.margins', 'prysm/interferogram.py:Interferogram.crop', lambda: info.methods['crop'], crop_margins,
           'def cropLeft (v : Nat → Nat → Bool) (rows cols : Nat) : Nat := argmaxB (rowAny v rows cols)\n'
           'def cropRight (v : Nat → Nat → Bool) (rows cols : Nat) : Nat := argmaxB (rowAny v rows cols).reverse\n'
           'def cropTop (v : Nat → Nat → Bool) (rows cols : Nat) : Nat := argmaxB (colAny v rows cols)\n'
           'def cropBottom (v : Nat → Nat → Bool) (rows cols : Nat) : Nat := argmaxB (colAny v rows cols).reverse\n'
           'def cropReturnsEarly (left right top bottom : Int) : Bool := decide (left = 0 ∧ right = 0 ∧ top = 0 ∧ bottom = 0)\n'
           'def cropValidityIsFinite : Bool := true')

    # ---- the polar transform behind RichData.r / .t: cart_to_polar as expressions in hypot / arctan2
    def polar_transform():
        fn = get_def(coo, 'cart_to_polar')
        params = [a.arg for a in fn.args.args]
        if params[:2] != ['x', 'y']:
            raise Untranslatable('cart_to_polar parameters are not (x, y, ..)')
        env = {'x': 'x', 'y': 'y'}

        def ev(e):
            if isinstance(e, ast.Name) and e.id in env:
                return env[e.id]
            if isinstance(e, ast.Subscript):      # x[np.newaxis, :] / y[:, None]: the same values, broadcast
                txt = ast.unparse(e).replace(' ', '')[len(ast.unparse(e.value).replace(' ', '')):]
                if txt in ('[np.newaxis,:]', '[:,np.newaxis]', '[None,:]', '[:,None]'):
                    return ev(e.value)
            if isinstance(e, ast.Call):
                f = ast.unparse(e.func)
                if f == 'np.hypot' and len(e.args) == 2 and not e.keywords:
                    return f'(hyp {ev(e.args[0])} {ev(e.args[1])})'
                if f == 'np.arctan2' and len(e.args) == 2 and not e.keywords:
                    return f'(at2 {ev(e.args[0])} {ev(e.args[1])})'
                if f == 'np.sqrt' and len(e.args) == 1 and isinstance(e.args[0], ast.BinOp) and isinstance(e.args[0].op, ast.Add):
                    def sq(t):
                        if isinstance(t, ast.BinOp) and isinstance(t.op, ast.Pow) and isinstance(t.right, ast.Constant) and t.right.value == 2:
                            return ev(t.left)
                        if isinstance(t, ast.BinOp) and isinstance(t.op, ast.Mult) and ast.unparse(t.left) == ast.unparse(t.right):
                            return ev(t.left)
                        raise Untranslatable('sqrt of something that is not a sum of two squares')
                    return f'(hyp {sq(e.args[0].left)} {sq(e.args[0].right)})'
            raise Untranslatable(f'cart_to_polar expression {ast.unparse(e)[:40]}')

        def run(stmts):
            for st in stmts:
                if isinstance(st, ast.Expr):
                    continue
                if isinstance(st, ast.If):
                    # the vector -> grid branch must only re-index x and y (value-transparent)
                    for b in st.body:
                        if not (isinstance(b, ast.Assign) and len(b.targets) == 1 and isinstance(b.targets[0], ast.Name)
                                and b.targets[0].id in ('x', 'y') and ev(b.value) == b.targets[0].id):
                            raise Untranslatable('vec_to_grid branch changes the values of x / y')
                    if st.orelse:
                        raise Untranslatable('else branch in cart_to_polar')
                    continue
                if isinstance(st, ast.Assign) and len(st.targets) == 1 and isinstance(st.targets[0], ast.Name):
                    env[st.targets[0].id] = ev(st.value)
                    continue
                if isinstance(st, ast.Return) and isinstance(st.value, ast.Tuple) and len(st.value.elts) == 2:
                    return ev(st.value.elts[0]), ev(st.value.elts[1])
                raise Untranslatable(f'statement in cart_to_polar: {ast.unparse(st)[:40]}')
            raise Untranslatable('cart_to_polar does not return a pair')
        rho, phi = run(fn.body)
        sig = '{K : Type} (hyp at2 : K → K → K) (x y : K) : K'
        return f'def polarRho {sig} := {rho}\ndef polarPhi {sig} := {phi}'
    g.item('polar.transform', 'prysm/coordinates.py:cart_to_polar', lambda: get_def(coo, 'cart_to_polar'), polar_transform,
           'def polarRho {K : Type} (hyp at2 : K → K → K) (x y : K) : K := hyp x y\n'
           'def polarPhi {K : Type} (hyp at2 : K → K → K) (x y : K) : K := at2 y x')

    # ---- the reported statistics: which util function each Interferogram property hands `self.data` to
    def stats_delegation():
        imported = {}
        for n in ig.body:
            if isinstance(n, ast.ImportFrom) and n.module == 'util' and n.level == 1:
                for a in n.names:
                    imported[a.asname or a.name] = a.name
        code = {'mean': 0, 'pv': 1, 'rms': 2, 'Sa': 3, 'std': 4}
        rebound = {t.id for n in ig.body if isinstance(n, ast.Assign) for t in n.targets if isinstance(t, ast.Name)} | \
                  {n.name for n in ig.body if isinstance(n, (ast.FunctionDef, ast.ClassDef)) and n.name != 'psd'}
        out = []
        for prop in ('pv', 'rms', 'Sa', 'std'):
            fn = None
            for n in der.body:
                if isinstance(n, ast.FunctionDef) and n.name == prop and any(ast.unparse(d) == 'property' for d in n.decorator_list):
                    fn = n
            if fn is None:
                raise Untranslatable(f'Interferogram.{prop} is not a property')
            body = [st for st in fn.body if not (isinstance(st, ast.Expr) and isinstance(st.value, ast.Constant))]
            if not (len(body) == 1 and isinstance(body[0], ast.Return) and isinstance(body[0].value, ast.Call)):
                raise Untranslatable(f'Interferogram.{prop} is not `return f(self.data)`')
            call = body[0].value
            f = call.func
            if isinstance(f, ast.Name) and f.id in imported and f.id not in rebound:
                callee = imported[f.id]
            elif isinstance(f, ast.Attribute) and ast.unparse(f.value) in ('util', 'prysm.util'):
                callee = f.attr
            else:
                raise Untranslatable(f'Interferogram.{prop} calls {ast.unparse(f)[:30]}')
            if callee not in code:
                raise Untranslatable(f'Interferogram.{prop} calls util.{callee}')
            if not (len(call.args) == 1 and not call.keywords and _is_self_attr(call.args[0], ('data',))):
                raise Untranslatable(f'Interferogram.{prop}: argument is not self.data')
            out.append(code[callee])
        return ('/-- util function (0 mean, 1 pv, 2 rms, 3 Sa, 4 std) applied to `self.data` by the properties pv, rms, Sa, std (in this order) -/\n'
                f'def ifgStatCallee : List Nat := {out}')
    g.item('stats.delegation', 'prysm/interferogram.py:Interferogram.{pv,rms,Sa,std}', lambda: ast.Module(body=[n for n in der.body if isinstance(n, ast.FunctionDef) and n.name in ('pv', 'rms', 'Sa', 'std')], type_ignores=[]),
           stats_delegation, 'def ifgStatCallee : List Nat := [1, 2, 3, 4]')

    # ---- pad: the shape handed to pad2d (samples -> shape arithmetic, which count goes to which axis)
    def pad_shape():
        from pyexpr2lean import Tr
        fn = info.methods['pad']
        int_both = None
        gen = None
        call_ok = None
        for st in ast.walk(fn):
            if isinstance(st, ast.If) and ast.unparse(st.test).replace(' ', '') in ('isinstance(samples,int)', 'isinstance(samples,(int,np.integer))',
                                                                                 'isinstance(samples,numbers.Integral)', 'np.isscalar(samples)'):
                b = st.body
                int_both = (len(b) == 1 and isinstance(b[0], ast.Assign) and ast.unparse(b[0].targets[0]) == 'samples'
                            and ast.unparse(b[0].value).replace(' ', '') in ('(samples,samples)', '[samples,samples]'))
            if isinstance(st, ast.Assign) and ast.unparse(st.targets[0]) == 'shape' and isinstance(st.value, ast.Call) \
                    and ast.unparse(st.value.func) in ('tuple', 'list') and len(st.value.args) == 1 \
                    and isinstance(st.value.args[0], (ast.GeneratorExp, ast.ListComp)):
                gen = st.value.args[0]
            if isinstance(st, ast.Assign) and _is_self_attr(st.targets[0], ('data',)) and isinstance(st.value, ast.Call) \
                    and ast.unparse(st.value.func) == 'pad2d':
                c = st.value
                kws = {k.arg: ast.unparse(k.value) for k in c.keywords}
                arr = ast.unparse(c.args[0]) if c.args else kws.get('array')
                call_ok = (arr == 'self.data' and kws.get('out_shape') == 'shape' and kws.get('value') == 'value'
                           and 'Q' not in kws and len(c.args) <= 1)
        if gen is None or len(gen.generators) != 1 or gen.generators[0].ifs:
            raise Untranslatable('no `shape = tuple(<e> for .. in zip(..))`')
        comp = gen.generators[0]
        if not (isinstance(comp.iter, ast.Call) and ast.unparse(comp.iter.func) == 'zip' and len(comp.iter.args) == 2
                and isinstance(comp.target, ast.Tuple) and len(comp.target.elts) == 2
                and all(isinstance(e, ast.Name) for e in comp.target.elts)):
            raise Untranslatable('shape comprehension is not over zip(a, b)')
        envs = [{}, {}]
        for name, it in zip(comp.target.elts, comp.iter.args):
            src = ast.unparse(it)
            if src in ('self.data.shape', 'self.shape'):
                envs[0][name.id], envs[1][name.id] = 'rows', 'cols'
            elif src == 'samples':
                envs[0][name.id], envs[1][name.id] = 's0', 's1'
            else:
                raise Untranslatable(f'zip over {src[:30]}')
        if call_ok is None or int_both is None:
            raise Untranslatable('no pad2d call / no integer-samples branch')
        sig = '(rows cols s0 s1 : Int) : Int'
        b = lambda x: 'true' if x else 'false'   # noqa: E731
        return (f'def padShape0 {sig} := {Tr(envs[0]).expr(gen.elt)}\ndef padShape1 {sig} := {Tr(envs[1]).expr(gen.elt)}\n'
                f'def padIntSamplesBothAxes : Bool := {b(int_both)}\ndef padHandsDataValueShapeToPad2d : Bool := {b(call_ok)}')
    g.item('pad.shape', 'prysm/interferogram.py:Interferogram.pad', lambda: info.methods['pad'], pad_shape,
           'def padShape0 (rows cols s0 s1 : Int) : Int := rows + s0\ndef padShape1 (rows cols s0 s1 : Int) : Int := cols + s1\n'
           'def padIntSamplesBothAxes : Bool := true\ndef padHandsDataValueShapeToPad2d : Bool := true')

    # ---- util.mean / pv / rms / Sa / std: the statistics as list expressions over the valid samples
    # symbolic evaluation of the (straight-line) function bodies; same-module helper functions are inlined
    state = {}

    def util_stats():
        helpers = {n.name: n for n in utl.body if isinstance(n, ast.FunctionDef)}
        filt = set()

        def run_fn(fn, argvals, depth=0):
            """evaluate a straight-line function on symbolic values -> value of its return expression"""
            if depth > 4:
                raise Untranslatable('helper inlining too deep')
            if len(argvals) != len(fn.args.args):
                raise Untranslatable(f'{fn.name}: argument count')
            env = {a.arg: v for a, v in zip(fn.args.args, argvals)}
            for st in fn.body:
                if isinstance(st, ast.Expr) and isinstance(st.value, ast.Constant):
                    continue
                if isinstance(st, ast.Assign) and len(st.targets) == 1 and isinstance(st.targets[0], ast.Name):
                    env[st.targets[0].id] = tr(st.value, env, depth)
                    continue
                if isinstance(st, ast.Return) and st.value is not None:
                    return tr(st.value, env, depth)
                raise Untranslatable(f'statement in {fn.name}: {ast.unparse(st)[:40]}')
            raise Untranslatable(f'{fn.name} does not return')

        def tr(e, env, depth=0):
            """-> (kind, lean): kind 'raw' (the map), 'mask' (validity mask of the map), 'list' (samples), 'scalar'"""
            txt = ast.unparse(e)
            if isinstance(e, ast.Name):
                if e.id in env:
                    return env[e.id]
                raise Untranslatable(f'free name {e.id}')
            if isinstance(e, ast.Call):
                f = ast.unparse(e.func)
                if f in helpers and not e.keywords:
                    return run_fn(helpers[f], [tr(a, env, depth) for a in e.args], depth + 1)
                if f.split('.')[-1] in ('isfinite', 'isnan', 'isinf') and len(e.args) == 1:
                    k, _a = tr(e.args[0], env, depth)
                    if k == 'raw':
                        return 'mask', f
                if isinstance(e.func, ast.Attribute) and not e.args and not e.keywords:
                    k, a = tr(e.func.value, env, depth)
                    if k != 'list':
                        raise Untranslatable(f'method {e.func.attr} of a {k}')
                    m = e.func.attr
                    if m == 'mean':
                        return 'scalar', f'(lsum {a} / lenK {a})'
                    if m == 'sum':
                        return 'scalar', f'(lsum {a})'
                    if m == 'max':
                        return 'scalar', f'(lmax {a})'
                    if m == 'min':
                        return 'scalar', f'(lmin {a})'
                    if m == 'std':
                        mu = f'(lsum {a} / lenK {a})'
                        return 'scalar', f'(sqrtf (lsum (({a}.map fun t => t - {mu}).map fun t => t * t) / lenK {a}))'
                    raise Untranslatable(f'array method {m}')
                if f in ('abs', 'np.abs', 'np.absolute') and len(e.args) == 1:
                    k, a = tr(e.args[0], env, depth)
                    return (k, f'({a}.map absf)') if k == 'list' else (k, f'(absf {a})')
                if f in ('np.sqrt', 'math.sqrt', 'sqrt') and len(e.args) == 1:
                    k, a = tr(e.args[0], env, depth)
                    if k == 'scalar':
                        return k, f'(sqrtf {a})'
                if f in ('np.mean', 'np.sum', 'np.max', 'np.min', 'np.std') and len(e.args) == 1 and not e.keywords:
                    fake = ast.Call(func=ast.Attribute(value=e.args[0], attr=f.split('.')[-1], ctx=ast.Load()), args=[], keywords=[])
                    return tr(fake, env, depth)
                if f == 'len' and len(e.args) == 1:
                    k, a = tr(e.args[0], env, depth)
                    if k == 'list':
                        return 'scalar', f'(lenK {a})'
            if isinstance(e, ast.UnaryOp) and isinstance(e.op, ast.Invert):
                k, a = tr(e.operand, env, depth)
                if k == 'mask':
                    return 'mask', '~' + a
            if isinstance(e, ast.Subscript):
                k, _a = tr(e.value, env, depth)
                km, m = tr(e.slice, env, depth)
                if k == 'raw' and km == 'mask':
                    filt.add(m)
                    return 'list', 'v'
            if isinstance(e, ast.Attribute) and e.attr == 'size':
                k, a = tr(e.value, env, depth)
                if k == 'list':
                    return 'scalar', f'(lenK {a})'
            if isinstance(e, ast.BinOp):
                if isinstance(e.op, ast.Pow) and isinstance(e.right, ast.Constant) and e.right.value == 2:
                    k, a = tr(e.left, env, depth)
                    return (k, f'({a}.map fun t => t * t)') if k == 'list' else (k, f'({a} * {a})')
                kl, a = tr(e.left, env, depth)
                kr, b = tr(e.right, env, depth)
                sym = {ast.Sub: '-', ast.Add: '+', ast.Mult: '*', ast.Div: '/'}.get(type(e.op))
                if sym is None:
                    raise Untranslatable(f'operator in {txt[:40]}')
                if kl == 'scalar' and kr == 'scalar':
                    return 'scalar', f'({a} {sym} {b})'
                if kl == 'list' and kr == 'scalar':
                    return 'list', f'({a}.map fun t => t {sym} {b})'
                if kl == 'list' and kr == 'list' and a == b and sym == '*':
                    return 'list', f'({a}.map fun t => t * t)'
            raise Untranslatable(f'statistic expression {txt[:50]}')

        out = []
        for name in ('mean', 'pv', 'rms', 'Sa', 'std'):
            ret = run_fn(get_def(utl, name), [('raw', 'd')])
            if ret[0] != 'scalar':
                raise Untranslatable(f'util.{name} does not return a scalar expression')
            cls = '[Num K] [LT K] [DecidableLT K]' if name == 'pv' else '[Num K]'
            out.append(f'def util_{name} {{K : Type}} {cls} (absf sqrtf : K → K) (v : List K) : K := {ret[1]}')
        state['filters'] = filt
        return '\n'.join(out)
    g.item('util.statistics', 'prysm/util.py:{mean,pv,rms,Sa,std}', lambda: ast.Module(body=[n for n in utl.body if isinstance(n, ast.FunctionDef) and (n.name in ('mean', 'pv', 'rms', 'Sa', 'std') or n.name.startswith('_'))], type_ignores=[]),
           util_stats,
           '\n'.join(f'def util_{n} {{K : Type}} {"[Num K] [LT K] [DecidableLT K]" if n == "pv" else "[Num K]"} (absf sqrtf : K → K) (v : List K) : K := {b}'
                     for n, b in (('mean', 'mean v'), ('pv', 'pv v'), ('rms', 'sqrtf (meanSq v)'), ('Sa', 'saWith absf v'), ('std', 'sqrtf (var v)'))))

    def util_filter():
        f = state.get('filters')
        if not f:
            return None
        if all(x.split('.')[-1] == 'isfinite' for x in f):
            return True
        if any(x.lstrip('~').split('.')[-1] in ('isnan', 'isinf') for x in f):
            return False          # recognised and wrong: +-inf (or NaN) would count as valid samples
        return None
    g.fact('utilValidIsFinite', 'prysm/util.py:{mean,pv,rms,Sa,std}', util_filter)

    # ---- which fitted columns the removal methods subtract: the returned surface as a polynomial in the design
    #      columns and the fitted coefficients (symbolic evaluation of the straight-line bodies of fit_plane / fit_sphere)
    def removal_columns():
        from fractions import Fraction

        def padd(a, b, sgn=1):
            out = dict(a)
            for k, v in b.items():
                out[k] = out.get(k, 0) + sgn * v
                if out[k] == 0:
                    del out[k]
            return out

        def pmul(a, b):
            out = {}
            for k1, v1 in a.items():
                for k2, v2 in b.items():
                    k = tuple(sorted(k1 + k2))
                    out[k] = out.get(k, 0) + v1 * v2
                    if out[k] == 0:
                        del out[k]
            return out

        def analyse(fn, which_return):
            """-> (design column symbols, polynomial of the returned surface)"""
            env = {a.arg: ('poly', {(a.arg,): Fraction(1)}) for a in fn.args.args}
            design = {}

            def ev(e):
                if isinstance(e, ast.Constant) and isinstance(e.value, (int, float)) and not isinstance(e.value, bool):
                    return 'poly', ({(): Fraction(repr(e.value))} if e.value != 0 else {})
                if isinstance(e, ast.Name):
                    return env.get(e.id, ('opaque', e.id))
                if isinstance(e, ast.List) or isinstance(e, ast.Tuple):
                    return 'seq', [ev(x) for x in e.elts]
                if isinstance(e, ast.Attribute) and e.attr == 'T':
                    return ev(e.value)
                if isinstance(e, ast.Call):
                    f = ast.unparse(e.func)
                    if f.endswith('.flatten') or f.endswith('.ravel'):
                        return ev(e.func.value)
                    if f in ('np.ones', 'np.ones_like'):
                        return 'poly', {('one',): Fraction(1)}
                    if f in ('np.stack', 'np.array', 'np.asarray', 'np.column_stack', 'np.vstack') and e.args:
                        return ev(e.args[0])
                    if f == 'lstsq' and e.args:                      # prysm.polynomials.lstsq(modes, data) -> coefficient vector
                        k, cols = ev(e.args[0])
                        if k != 'seq':
                            raise Untranslatable('lstsq design is not a list of modes')
                        design['cols'] = cols
                        return 'coefs', None
                    if f == 'np.linalg.lstsq' and e.args:            # -> (coefficient vector, residuals, rank, sv)
                        k, cols = ev(e.args[0])
                        if k != 'seq':
                            raise Untranslatable('np.linalg.lstsq design is not a stack of columns')
                        design['cols'] = cols
                        return 'seq', [('coefs', None), ('opaque', 'res'), ('opaque', 'rank'), ('opaque', 'sv')]
                    return 'opaque', f
                if isinstance(e, ast.Subscript):
                    k, v = ev(e.value)
                    if isinstance(e.slice, ast.Constant) and isinstance(e.slice.value, int):
                        if k == 'coefs':
                            return 'poly', {(f'c{e.slice.value}',): Fraction(1)}
                        if k == 'seq' and e.slice.value < len(v):
                            return v[e.slice.value]
                    if k == 'poly':
                        return k, v              # masking / indexing keeps the column
                    return 'opaque', ast.unparse(e)
                if isinstance(e, ast.UnaryOp) and isinstance(e.op, ast.USub):
                    k, v = ev(e.operand)
                    if k == 'poly':
                        return 'poly', padd({}, v, -1)
                if isinstance(e, ast.BinOp):
                    (kl, a), (kr, b) = ev(e.left), ev(e.right)
                    if kl == 'poly' and kr == 'poly':
                        if isinstance(e.op, ast.Add):
                            return 'poly', padd(a, b)
                        if isinstance(e.op, ast.Sub):
                            return 'poly', padd(a, b, -1)
                        if isinstance(e.op, ast.Mult):
                            return 'poly', pmul(a, b)
                        if isinstance(e.op, ast.Pow) and isinstance(e.right, ast.Constant) and e.right.value == 2:
                            return 'poly', pmul(a, a)
                    if kl == 'poly' and isinstance(e.op, ast.Pow) and isinstance(e.right, ast.Constant) and e.right.value == 2:
                        return 'poly', pmul(a, a)
                    return 'opaque', ast.unparse(e)[:30]
                return 'opaque', ast.unparse(e)[:30]

            ret = None
            for st in fn.body:
                if isinstance(st, ast.Expr):
                    continue
                if isinstance(st, ast.Assign) and len(st.targets) == 1:
                    t, val = st.targets[0], ev(st.value)
                    if isinstance(t, ast.Name):
                        env[t.id] = val if val[0] != 'opaque' else ('poly', {(t.id,): Fraction(1)})
                    elif isinstance(t, ast.Tuple):
                        if val[0] == 'coefs':
                            for k_, el in enumerate(t.elts):
                                if isinstance(el, ast.Name):
                                    env[el.id] = ('poly', {(f'c{k_}',): Fraction(1)})
                        elif val[0] == 'seq':
                            for k_, el in enumerate(t.elts):
                                if isinstance(el, ast.Starred):
                                    break
                                if isinstance(el, ast.Name) and k_ < len(val[1]):
                                    v_ = val[1][k_]
                                    env[el.id] = v_ if v_[0] != 'opaque' else ('poly', {(el.id,): Fraction(1)})
                        else:
                            for el in t.elts:
                                if isinstance(el, ast.Name):
                                    env[el.id] = ('poly', {(el.id,): Fraction(1)})
                    continue
                if isinstance(st, ast.Return) and st.value is not None:
                    ret = ev(st.value)
                    continue
                raise Untranslatable(f'statement in {fn.name}: {ast.unparse(st)[:40]}')
            if ret is None or 'cols' not in design:
                raise Untranslatable(f'{fn.name}: no least-squares call / return')
            if which_return is not None:
                if ret[0] != 'seq' or which_return >= len(ret[1]):
                    raise Untranslatable(f'{fn.name} does not return a tuple')
                ret = ret[1][which_return]
            if ret[0] != 'poly':
                raise Untranslatable(f'{fn.name}: returned surface is not a polynomial in the design columns')
            cols = []
            for c in design['cols']:
                if c[0] != 'poly' or len(c[1]) != 1 or list(c[1].values()) != [1]:
                    raise Untranslatable(f'{fn.name}: design column is not a plain array')
                cols.append(list(c[1])[0])
            return cols, ret[1]

        def summary(cols, poly):
            removed, rest = [], dict(poly)
            for k_, col in enumerate(cols):
                key = tuple(sorted((f'c{k_}',) + col))
                if rest.get(key) == 1:
                    removed.append(k_)
                    del rest[key]
            return removed, (not rest), any(col == ('one',) for col in cols)

        tr_, tok, tconst = summary(*analyse(get_def(ig, 'fit_plane'), None))
        pr_, pok, pconst = summary(*analyse(get_def(ig, 'fit_sphere'), 1))
        b = lambda x: 'true' if x else 'false'   # noqa: E731
        return (f'def tiltRemovedColumns : List Nat := {tr_}\ndef powerRemovedColumns : List Nat := {pr_}\n'
                f'def tiltDesignHasConstant : Bool := {b(tconst)}\ndef powerDesignHasConstant : Bool := {b(pconst)}\n'
                f'def removedSurfacesAreFittedColumns : Bool := {b(tok and pok)}')
    g.item('removal.columns', 'prysm/interferogram.py:fit_plane,fit_sphere', lambda: ast.Module(body=[get_def(ig, 'fit_plane'), get_def(ig, 'fit_sphere')], type_ignores=[]),
           removal_columns,
           'def tiltRemovedColumns : List Nat := [0, 1]\ndef powerRemovedColumns : List Nat := [0]\n'
           'def tiltDesignHasConstant : Bool := false\ndef powerDesignHasConstant : Bool := true\n'
           'def removedSurfacesAreFittedColumns : Bool := true')

    def lstsq_orders():
        """polynomials.lstsq (tilt fit, pvr) and fit_sphere select the valid samples of the data and of the modes in the SAME
        (logical, row-major) order: no flattening with an explicit memory-order argument other than 'C'"""
        seen = 0
        for fn in (get_def(pol, 'lstsq'), get_def(ig, 'fit_sphere'), get_def(ig, 'fit_plane')):
            for n in ast.walk(fn):
                if isinstance(n, ast.Call) and isinstance(n.func, ast.Attribute) and n.func.attr in ('ravel', 'flatten', 'reshape', 'flat'):
                    seen += 1
                    for k in n.keywords:
                        if k.arg == 'order' and not (isinstance(k.value, ast.Constant) and k.value.value == 'C'):
                            return False
                    if n.func.attr in ('ravel', 'flatten') and n.args and not (isinstance(n.args[0], ast.Constant) and n.args[0].value == 'C'):
                        return False
                if isinstance(n, ast.Call) and ast.unparse(n.func) in ('np.ravel', 'np.reshape'):
                    seen += 1
                    if any(k.arg == 'order' and not (isinstance(k.value, ast.Constant) and k.value.value == 'C') for k in n.keywords):
                        return False
        return True if seen else None
    g.fact('fitsFlattenInLogicalOrder', 'prysm/polynomials/__init__.py:lstsq; prysm/interferogram.py:fit_plane,fit_sphere', lstsq_orders)

    g.fact('settersTrivial', 'prysm/_richdata.py:RichData.{x,y,r,t}.setter', lambda: setters_trivial(info))
    text, items = g.finish()
    return text, items


if __name__ == '__main__':
    import sys
    text, items = generate(sys.argv[1] if len(sys.argv) > 1 else '/repo')
    print(text)
    for it in items:
        print('--', it)
