#!/bin/bash
# apply every kept behaviour-preserving refactor to /repo in turn, run its property's quick check, expect exit 0; restore
cd /verif
if [ -n "$(git -C /repo status --porcelain)" ]; then echo "/repo not clean"; exit 2; fi
for d in benign/*/; do
  id=$(basename $d); pid=$(python3 -c "import json; print(json.load(open('$d/meta.json'))['property'])")
  [ -n "$1" ] && [[ "$id" != $1* ]] && continue
  if python3 -c "import json,sys; sys.exit(0 if json.load(open('$d/meta.json')).get('retired') else 1)"; then echo "$id: retired (see meta.json)"; continue; fi
  git -C /repo apply /verif/$d/patch.diff 2>/dev/null || { echo "$id: patch does not apply (source moved on)"; continue; }
  ./run $pid quick > .work/ben_$id.log 2>&1; rc=$?
  git -C /repo checkout -- .
  echo "$id ($pid): check exit $rc $(grep -E '^VIOLATION|^TIE-DEGRADED' .work/ben_$id.log | head -2 | cut -c1-110 | tr '\n' ';')"
done
git checkout -- lean/PrysmVerif/Generated lean/PrysmVerif/Audit evidence 2>/dev/null
