#!/venv/bin/python
"""Run the repository's pinned test suite (guard OFF) and compare with /root/.vp/BASELINE.json.

usage: tools/baseline.py [repo_dir]      exit 0 iff every stable_pass test passes.
"""
import json, os, subprocess, sys, tempfile, xml.etree.ElementTree as ET

repo = sys.argv[1] if len(sys.argv) > 1 else '/repo'
base = json.load(open('/root/.vp/BASELINE.json'))
env = dict(os.environ)
env.pop('PRYSM_VERIF', None)
with tempfile.TemporaryDirectory() as td:
    xml = os.path.join(td, 'j.xml')
    p = subprocess.run(['/venv/bin/python', '-m', 'pytest', '-ra', '-q', '-p', 'no:cacheprovider', '--timeout=900',
                        '--continue-on-collection-errors', f'--junitxml={xml}'], cwd=repo, env=env,
                       stdout=subprocess.PIPE, stderr=subprocess.STDOUT, text=True)
    passed = set()
    for tc in ET.parse(xml).getroot().iter('testcase'):
        if not any(ch.tag in ('failure', 'error', 'skipped') for ch in tc):
            passed.add(f"{tc.get('classname')}::{tc.get('name')}")
missing = [t for t in base['stable_pass'] if t not in passed]
print(f'baseline: {len(base["stable_pass"]) - len(missing)}/{len(base["stable_pass"])} stable tests pass')
for t in missing[:40]:
    print('  NOT PASSING:', t)
sys.exit(1 if missing else 0)
