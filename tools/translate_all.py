#!/venv/bin/python
"""regenerate every Generated/Cxx.lean from the current working tree (used by setup.sh)"""
import glob, os, sys
sys.path.insert(0, os.path.dirname(os.path.dirname(os.path.abspath(__file__))))
from harness import common as C
for p in sorted(glob.glob(os.path.join(C.VERIF, 'tools', 'gen_c*.py'))):
    pid = os.path.basename(p)[4:-3].upper()
    r = C.translate(pid)
    print(pid, r['status'], 'changed' if r['changed'] else 'unchanged',
          [it['name'] for it in r['items'] if it.get('status') != 'ok'])
