"""translator items for C07 (polynomial families): whole scalar evaluators of prysm/polynomials, loops included.

The value functions (`jacobi`, `hermite_He`, `hermite_H`, `laguerre`, `dickson1/2`, `Qbfs`) are translated
statement by statement into Lean over a generic scalar `K` (`[Num K]`): `if n == c: return …` becomes
`if … then … else`, assignments become `let`, `for i in range(a, b)` becomes `Model.C07.forRange a b` folding
the tuple of loop-assigned variables.  NumPy element-wise arithmetic is read point-wise
(`np.ones_like(x)` ↦ 1).  `recurrence_abc`, `zernike_norm` and the argument wiring of `zernike_nm`, `Qcon`,
`xy`, `hopkins`, the Chebyshev normalisers and the Legendre parameters are translated as expressions.

Shared with tools/gen_c08.py (which translates the `*_seq` functions the same way).
"""
import ast
from pyexpr2lean import (Gen, Tr, Untranslatable, load, get_def, find_assign, find_returns, find_calls, call_arg,
                         lean_int)

M = 'Model.C07'
HDR = 'set_option linter.unusedVariables false\nvariable {K : Type} [Num K]\n'


# ------------------------------------------------------------------------------------------------
# expression translator for array code read point-wise, with integer-typed sub-terms
# ------------------------------------------------------------------------------------------------
class PTr(Tr):
    """`Tr` in mode 'num' plus:
    * `ints`: python names that are Python ints (Lean `Int` variables); in scalar context they appear as
      `(Num.ofInt name)`; in integer context (`range` bounds, comparisons, arguments of `intfuncs`) verbatim;
    * `nats`: names usable as exponents: `x ** m` -> `Num.npow x (Int.toNat m)`;
    * `np.ones_like(x)` -> 1, `np.zeros_like(x)` -> 0, `np.sqrt(e)` -> `sqrt e` (a parameter of the model);
    * `intfuncs`: callee text -> Lean function applied to the arguments translated as integers.
    """

    def __init__(self, env, ints=(), funcs=None, intfuncs=None, sqrt=None):
        super().__init__(env, 'num', funcs)
        self.ints = set(ints)
        self.intfuncs = dict(intfuncs or {})
        self.sqrt = sqrt

    def clone(self, env=None, ints=None):
        return PTr(self.env if env is None else env, self.ints if ints is None else ints, self.funcs,
                   self.intfuncs, self.sqrt)

    def itr(self):
        return Tr({k: k for k in self.ints}, 'int')

    def int_expr(self, e):
        for n in ast.walk(e):
            if isinstance(n, ast.Name) and n.id not in self.ints:
                raise Untranslatable(f'{n.id} used as an integer')
        return self.itr().expr(e)

    def expr(self, e):
        if isinstance(e, ast.Name) and e.id in self.ints and e.id not in self.env:
            return f'(Num.ofInt {e.id})'
        if isinstance(e, ast.BinOp) and isinstance(e.op, ast.Pow) and not isinstance(e.right, ast.Constant):
            return f'(Num.npow {self.expr(e.left)} (Int.toNat {self.int_expr(e.right)}))'
        if isinstance(e, ast.Call):
            f = ast.unparse(e.func)
            if f in ('np.ones_like', 'truenp.ones_like') and len(e.args) == 1:
                return '(Num.ofInt (1))'
            if f in ('np.zeros_like', 'truenp.zeros_like') and len(e.args) == 1:
                return '(Num.ofInt (0))'
            if f in ('np.sqrt', 'truenp.sqrt', 'math.sqrt') and len(e.args) == 1:
                if not self.sqrt:
                    raise Untranslatable('sqrt without a sqrt parameter')
                return f'({self.sqrt} {self.expr(e.args[0])})'
            if f in self.intfuncs:
                return '(' + ' '.join([self.intfuncs[f]] + [self.int_expr(a) for a in e.args]) + ')'
        return super().expr(e)

    def cond(self, e):
        # comparisons between integers are translated in integer mode
        if isinstance(e, ast.Compare):
            names = {n.id for n in ast.walk(e) if isinstance(n, ast.Name)}
            if names and names <= self.ints:
                return self.itr().cond(e)
        if isinstance(e, ast.BoolOp):
            sym = ' ∧ ' if isinstance(e.op, ast.And) else ' ∨ '
            return '(' + sym.join(self.cond(v) for v in e.values) + ')'
        return super().cond(e)


def _proj(k, n):
    """k-th component (0-based) of a right-nested n-tuple `s`"""
    if n == 1:
        return 's'
    return 's' + '.2' * k + ('.1' if k < n - 1 else '')


def _tuple(parts):
    return parts[0] if len(parts) == 1 else '(' + ', '.join(parts) + ')'


def assigned_names(stmts):
    out = []
    for st in stmts:
        for n in ast.walk(st):
            tg = []
            if isinstance(n, ast.Assign):
                tg = n.targets
            elif isinstance(n, ast.AugAssign):
                tg = [n.target]
            for t in tg:
                for el in (t.elts if isinstance(t, ast.Tuple) else [t]):
                    if isinstance(el, ast.Starred):
                        el = el.value
                    if isinstance(el, ast.Name) and el.id not in out:
                        out.append(el.id)
    return out


class Body:
    """statement translator: python statements -> one Lean term (the returned value)"""

    def __init__(self, tr, tuple_funcs=None, hooks=None, indent='  '):
        self.tuple_funcs = dict(tuple_funcs or {})   # callee -> (lean fn, arity of result, which args are scalar)
        self.hooks = hooks or []                      # callables (self, stmt, rest, tr, ind) -> str | None

    def lets_for_assign(self, s, tr):
        """-> (list of 'let a := b', new tr) for an Assign / AugAssign statement"""
        if isinstance(s, ast.AugAssign) and isinstance(s.target, ast.Name):
            s = ast.Assign(targets=[ast.Name(id=s.target.id, ctx=ast.Store())],
                           value=ast.BinOp(left=ast.Name(id=s.target.id, ctx=ast.Load()), op=s.op, right=s.value))
        if not (isinstance(s, ast.Assign) and len(s.targets) == 1):
            raise Untranslatable(f'statement {ast.unparse(s)[:60]}')
        t, v = s.targets[0], s.value
        env = dict(tr.env)
        ints = set(tr.ints)
        lets = []
        if isinstance(t, ast.Name):
            lets.append(f'let {t.id}_ := {tr.expr(v)}')
            env[t.id] = f'{t.id}_'
            ints.discard(t.id)
            return lets, tr.clone(env, ints)
        if isinstance(t, ast.Tuple):
            names = []
            for el in t.elts:
                if isinstance(el, ast.Starred) and ast.unparse(el.value) == '_':
                    names.append(None)          # `a, *_ = f()` : the rest is dropped
                elif isinstance(el, ast.Name):
                    names.append(el.id)
                else:
                    raise Untranslatable(f'assignment target {ast.unparse(t)}')
            if isinstance(v, ast.Tuple) and len(v.elts) == len(names):
                vals = [tr.expr(x) for x in v.elts]     # all right-hand sides in the old environment
                for k, (nm, val) in enumerate(zip(names, vals)):
                    lets.append(f'let {nm}_t{k} := {val}')
                for k, nm in enumerate(names):
                    lets.append(f'let {nm}_ := {nm}_t{k}')
                    env[nm] = f'{nm}_'
                    ints.discard(nm)
                return lets, tr.clone(env, ints)
            if isinstance(v, ast.Call) and ast.unparse(v.func) in self.tuple_funcs:
                lean_fn, arity = self.tuple_funcs[ast.unparse(v.func)]
                args = ' '.join(tr.expr(a) for a in v.args)
                tmp = 't_' + '_'.join(n or 'w' for n in names)
                lets.append(f'let {tmp} := {lean_fn} {args}')
                star = any(isinstance(el, ast.Starred) for el in t.elts)
                if not star and len(names) != arity:
                    raise Untranslatable(f'unpacking {arity} values into {len(names)} names')
                for k, nm in enumerate(names):
                    if nm is None or nm == '_':
                        continue
                    pr = '.2' * k + ('.1' if k < arity - 1 else '')
                    lets.append(f'let {nm}_ := {tmp}{pr}')
                    env[nm] = f'{nm}_'
                    ints.discard(nm)
                return lets, tr.clone(env, ints)
        raise Untranslatable(f'assignment {ast.unparse(s)[:60]}')

    def loop(self, s, tr, ind):
        """for v in range(a, b): body  ->  (lets, new tr)"""
        if not (isinstance(s.target, ast.Name) and isinstance(s.iter, ast.Call) and ast.unparse(s.iter.func) == 'range'
                and len(s.iter.args) == 2 and not s.orelse):
            raise Untranslatable(f'loop header {ast.unparse(s).splitlines()[0]}')
        v = s.target.id
        lo, hi = tr.int_expr(s.iter.args[0]), tr.int_expr(s.iter.args[1])
        names = assigned_names(s.body)
        if not names:
            raise Untranslatable('loop assigns nothing')
        init = [tr.env.get(nm, '(Num.ofInt (0))') if nm not in tr.ints else f'(Num.ofInt {nm})' for nm in names]
        env = dict(tr.env)
        for k, nm in enumerate(names):
            env[nm] = f'{nm}_'
        ints = (set(tr.ints) - set(names)) | {v}
        env.pop(v, None)
        btr = tr.clone(env, ints)
        i2 = ind + '    '
        lines = [f'let {nm}_ := {_proj(k, len(names))}' for k, nm in enumerate(names)]
        for st in s.body:
            if isinstance(st, ast.Expr) and isinstance(st.value, ast.Constant):
                continue
            done = False
            for h in self.hooks:
                r = h(self, st, btr)
                if r is not None:
                    ls, btr = r
                    lines += ls
                    done = True
                    break
            if not done:
                ls, btr = self.lets_for_assign(st, btr)
                lines += ls
        final = _tuple([btr.env[nm] for nm in names])
        ty = ' × '.join(self.state_types.get(nm, 'K') for nm in names) if hasattr(self, 'state_types') else \
            ' × '.join('K' for _ in names)
        body = ('\n' + i2).join(lines + [final])
        loopname = f'loop_{v}'
        lets = [f'let {loopname} := {M}.forRange {lo} {hi} (fun ({v} : Int) (s : {ty}) =>\n{i2}{body}) {_tuple(init)}']
        env2 = dict(tr.env)
        ints2 = set(tr.ints) - set(names)
        for k, nm in enumerate(names):
            env2[nm] = f'{nm}_'
            lets.append(f'let {nm}_ := {_proj(k, len(names)).replace("s", loopname, 1)}')
        return lets, tr.clone(env2, ints2)

    def run(self, stmts, tr, ind='  '):
        if not stmts:
            raise Untranslatable('fell off the end of the function without return')
        s, rest = stmts[0], stmts[1:]
        if isinstance(s, ast.Expr) and isinstance(s.value, ast.Constant):
            return self.run(rest, tr, ind)
        if isinstance(s, ast.Pass):
            return self.run(rest, tr, ind)
        for h in self.hooks:
            r = h(self, s, tr)
            if r is not None:
                ls, tr2 = r
                return ('\n' + ind).join(ls + [self.run(rest, tr2, ind)])
        if isinstance(s, ast.Return):
            if s.value is None:
                raise Untranslatable('bare return')
            return self.ret(s.value, tr)
        if isinstance(s, ast.If):
            c = tr.cond(s.test)
            orelse = s.orelse or []
            then = self.run(s.body + ([] if _returns(s.body) else rest), tr, ind + '  ')
            els = self.run(orelse + ([] if _returns(orelse) else rest), tr, ind + '  ')
            return f'if {c} then\n{ind}  {then}\n{ind}else\n{ind}  {els}'
        if isinstance(s, ast.For):
            ls, tr2 = self.loop(s, tr, ind)
            return ('\n' + ind).join(ls + [self.run(rest, tr2, ind)])
        ls, tr2 = self.lets_for_assign(s, tr)
        return ('\n' + ind).join(ls + [self.run(rest, tr2, ind)])

    def ret(self, value, tr):
        if isinstance(value, ast.Tuple):
            return '(' + ', '.join(tr.expr(x) for x in value.elts) + ')'
        return tr.expr(value)


def _returns(stmts):
    if not stmts:
        return False
    last = stmts[-1]
    if isinstance(last, ast.Return):
        return True
    if isinstance(last, ast.If):
        return _returns(last.body) and _returns(last.orelse or [])
    return False


def translate_fn(fn, lean_name, int_params, k_params, tr_kwargs=None, tuple_funcs=None, extra_binders='',
                 ret='K'):
    tr = PTr({p: p for p in k_params}, ints=int_params, **(tr_kwargs or {}))
    got = [a.arg for a in fn.args.args]
    want = list(int_params) + list(k_params)
    if got[:len(want)] != want and sorted(got) != sorted(want):
        # extra keyword parameters (with defaults) are allowed only if unused by the translation
        missing = [p for p in want if p not in got]
        if missing:
            raise Untranslatable(f'parameters {missing} not found in {got}')
    body = Body(tr, tuple_funcs=tuple_funcs).run(fn.body, tr)
    binders = ' '.join([f'({p} : Int)' for p in int_params] + [f'({p} : K)' for p in k_params])
    return f'def {lean_name} {extra_binders}{binders} : {ret} :=\n  {body}\n'


ABC_TUPLE = {'recurrence_abc': ('abc', 3)}


def _forceable(g):
    """testing aid: VERIF_FORCE_FALLBACK=name1,name2 makes those items untranslatable (exercises the fallback path)"""
    import os
    forced = set(filter(None, os.environ.get('VERIF_FORCE_FALLBACK', '').split(',')))
    orig = g.item

    def item(name, source, node_fn, build, fallback):
        if name in forced or 'ALL' in forced:
            def build():      # noqa
                raise Untranslatable('forced by VERIF_FORCE_FALLBACK')
        return orig(name, source, node_fn, build, fallback)
    g.item = item
    return g


def generate(repo):
    g = Gen('C07', imports=['PrysmVerif.PyPrelude', 'PrysmVerif.Model.C07'], header=HDR)
    g = _forceable(g)
    jac, _ = load(repo, 'prysm/polynomials/jacobi.py')
    che, _ = load(repo, 'prysm/polynomials/cheby.py')
    leg, _ = load(repo, 'prysm/polynomials/legendre.py')
    her, _ = load(repo, 'prysm/polynomials/hermite.py')
    lag, _ = load(repo, 'prysm/polynomials/laguerre.py')
    dic, _ = load(repo, 'prysm/polynomials/dickson.py')
    zer, _ = load(repo, 'prysm/polynomials/zernike.py')
    qp, _ = load(repo, 'prysm/polynomials/qpoly.py')
    xyf, _ = load(repo, 'prysm/polynomials/xy.py')
    ini, _ = load(repo, 'prysm/polynomials/__init__.py')

    # ---- recurrence_abc(n, alpha, beta): n is read as a scalar (it only meets alpha, beta arithmetically)
    def abc():
        fn = get_def(jac, 'recurrence_abc')
        return translate_fn(fn, 'abc', [], ['n', 'alpha', 'beta'], extra_binders='[DecidableEq K] ', ret='K × K × K')
    g.item('recurrence_abc', 'prysm/polynomials/jacobi.py:recurrence_abc', lambda: get_def(jac, 'recurrence_abc'), abc,
           f'def abc [DecidableEq K] (n alpha beta : K) : K × K × K :=\n'
           f'  if n = Num.ofInt 0 ∧ (alpha + beta = Num.ofInt 0 ∨ alpha + beta = Num.ofInt (-1)) then {M}.abc0 alpha beta\n'
           f'  else {M}.abcK n alpha beta')

    # ---- jacobi(n, alpha, beta, x)
    def jacobi():
        fn = get_def(jac, 'jacobi')
        return translate_fn(fn, 'jacobi', ['n'], ['alpha', 'beta', 'x'], tuple_funcs=ABC_TUPLE,
                            extra_binders='[DecidableEq K] ')
    g.item('jacobi', 'prysm/polynomials/jacobi.py:jacobi', lambda: get_def(jac, 'jacobi'), jacobi,
           f'def jacobi [DecidableEq K] (n : Int) (alpha beta x : K) : K := {M}.jacobi n.toNat alpha beta x')

    # ---- Hermite, Laguerre, Dickson
    for (mod, rel, py, lean, ks, model) in [
            (her, 'hermite.py', 'hermite_He', 'hermiteHe', ['x'], 'hermiteHe n.toNat x'),
            (her, 'hermite.py', 'hermite_H', 'hermiteH', ['x'], 'hermiteH n.toNat x'),
            (lag, 'laguerre.py', 'laguerre', 'laguerre', ['alpha', 'x'], 'laguerre n.toNat alpha x'),
            (dic, 'dickson.py', 'dickson1', 'dickson1', ['alpha', 'x'], 'dickson1 n.toNat alpha x'),
            (dic, 'dickson.py', 'dickson2', 'dickson2', ['alpha', 'x'], 'dickson2 n.toNat alpha x')]:
        def build(mod=mod, py=py, lean=lean, ks=ks):
            return translate_fn(get_def(mod, py), lean, ['n'], ks)
        g.item(py, f'prysm/polynomials/{rel}:{py}', (lambda mod=mod, py=py: get_def(mod, py)), build,
               f'def {lean} (n : Int) ({" ".join(ks)} : K) : K := {M}.{model}')

    # ---- Chebyshev: which Jacobi parameters, which normaliser
    def cheby(kind):
        def build():
            fn = get_def(che, f'cheby{kind}')
            c = find_assign(fn, 'c')
            (ret,) = find_returns(fn)
            if not (isinstance(ret, ast.BinOp) and isinstance(ret.op, ast.Mult) and ast.unparse(ret.right) == 'c'):
                raise Untranslatable(f'cheby{kind} does not return <jacobi> * c')
            call = ret.left
            if not (isinstance(call, ast.Call) and ast.unparse(call.func) == 'jacobi' and len(call.args) == 4
                    and ast.unparse(call.args[0]) == 'n' and ast.unparse(call.args[3]) == 'x'):
                raise Untranslatable(f'cheby{kind} value is not jacobi(n, a, b, x)')
            if not (isinstance(c, ast.BinOp) and isinstance(c.op, ast.Div) and isinstance(c.right, ast.Call)
                    and ast.unparse(c.right.func) == 'jacobi' and len(c.right.args) == 4
                    and ast.unparse(c.right.args[0]) == 'n'):
                raise Untranslatable(f'cheby{kind} normaliser is not <num> / jacobi(n, a, b, 1)')
            tr = PTr({}, ints=['n'])
            a, b = tr.expr(call.args[1]), tr.expr(call.args[2])
            a1, b1, x1 = (tr.expr(c.right.args[k]) for k in (1, 2, 3))
            num = tr.expr(c.left)
            return (f'/-- `cheby{kind}(n, x) = jacobi(n, a, b, x) * (num / jacobi(n, a1, b1, x1))` : `(a, b, a1, b1, x1, num)` -/\n'
                    f'def cheby{kind}Params (n : Int) : K × K × K × K × K × K := ({a}, {b}, {a1}, {b1}, {x1}, {num})')
        return build
    fall = {1: ('mhalf', 'mhalf', 'Num.ofInt 1'), 2: ('half', 'half', 'Num.ofInt n + Num.ofInt 1'),
            3: ('mhalf', 'half', 'Num.ofInt 1'), 4: ('half', 'mhalf', 'Num.ofInt 2 * Num.ofInt n + Num.ofInt 1')}
    for kind in (1, 2, 3, 4):
        a, b, num = fall[kind]
        g.item(f'cheby{kind}', f'prysm/polynomials/cheby.py:cheby{kind}', (lambda kind=kind: get_def(che, f'cheby{kind}')),
               cheby(kind),
               f'def cheby{kind}Params (n : Int) : K × K × K × K × K × K := '
               f'({M}.{a}, {M}.{b}, {M}.{a}, {M}.{b}, Num.ofInt 1, {num})')

    # ---- Legendre parameters
    def legendre():
        fn = get_def(leg, 'legendre')
        (ret,) = find_returns(fn)
        if not (isinstance(ret, ast.Call) and ast.unparse(ret.func) == 'jacobi' and len(ret.args) == 4
                and ast.unparse(ret.args[0]) == 'n' and ast.unparse(ret.args[3]) == 'x'):
            raise Untranslatable('legendre is not jacobi(n, a, b, x)')
        tr = PTr({})
        return f'def legendreParams : K × K := ({tr.expr(ret.args[1])}, {tr.expr(ret.args[2])})'
    g.item('legendre', 'prysm/polynomials/legendre.py:legendre', lambda: get_def(leg, 'legendre'), legendre,
           'def legendreParams : K × K := (Num.ofInt 0, Num.ofInt 0)')

    # ---- Zernike: norm (argument of the square root), jacobi arguments, radial power, azimuthal convention
    def znorm():
        fn = get_def(zer, 'zernike_norm')
        (ret,) = find_returns(fn)
        if not (isinstance(ret, ast.Call) and ast.unparse(ret.func) in ('truenp.sqrt', 'np.sqrt') and len(ret.args) == 1):
            raise Untranslatable('zernike_norm is not sqrt(<expr>)')
        tr = PTr({}, ints=['n', 'm'],
                 funcs={'kronecker': lambda a: f'(if {a[0]} = {a[1]} then (Num.ofInt (1)) else (Num.ofInt (0)))'})
        # kronecker's arguments are integers: translate the comparison in integer mode
        tr.funcs['kronecker'] = None
        arg = ret.args[0]

        class KTr(PTr):
            def call(self, e):
                if ast.unparse(e.func) == 'kronecker' and len(e.args) == 2:
                    return (f'(if {self.int_expr(e.args[0])} = {self.int_expr(e.args[1])} '
                            f'then (Num.ofInt (1)) else (Num.ofInt (0)))')
                return super().call(e)
        return f'def zernikeNormSq (n m : Int) : K := {KTr({}, ints=["n", "m"]).expr(arg)}'
    g.item('zernike_norm', 'prysm/polynomials/zernike.py:zernike_norm', lambda: get_def(zer, 'zernike_norm'), znorm,
           f'def zernikeNormSq (n m : Int) : K := {M}.zernikeNormSq n.toNat m')

    def znm():
        fn = get_def(zer, 'zernike_nm')
        x = find_assign(fn, 'x')
        am = find_assign(fn, 'am')
        nj = find_assign(fn, 'n_j')
        out = find_assign(fn, 'out')
        if ast.unparse(am) != 'abs(m)':
            raise Untranslatable('am is not abs(m)')
        if not (isinstance(out, ast.Call) and ast.unparse(out.func) == 'jacobi' and len(out.args) == 4
                and ast.unparse(out.args[0]) == 'n_j' and ast.unparse(out.args[3]) == 'x'):
            raise Untranslatable('radial polynomial is not jacobi(n_j, a, b, x)')
        itr = Tr({'n': 'n', 'am': '(Int.natAbs m : Int)'}, 'int')
        ktr = PTr({'r': 'r', 'am': '(Num.ofInt (Int.natAbs m : Int))'})
        return (f'def zernikeX (r : K) : K := {ktr.expr(x)}\n'
                f'def zernikeNj (n m : Int) : Int := {itr.expr(nj)}\n'
                f'def zernikeAB (m : Int) : K × K := ({ktr.expr(out.args[1])}, {ktr.expr(out.args[2])})')
    g.item('zernike_nm.radial', 'prysm/polynomials/zernike.py:zernike_nm', lambda: get_def(zer, 'zernike_nm'), znm,
           f'def zernikeX (r : K) : K := Num.ofInt 2 * (r * r) - Num.ofInt 1\n'
           f'def zernikeNj (n m : Int) : Int := (n - (Int.natAbs m : Int)) / 2\n'
           f'def zernikeAB (m : Int) : K × K := (Num.ofInt 0, Num.ofInt (Int.natAbs m : Int))')

    def zaz():
        """m < 0 -> r**am * sin(am t) ; m > 0 -> r**am * cos(m t) ; m == 0 -> nothing; then the norm"""
        fn = get_def(zer, 'zernike_nm')
        ifs = [s for s in fn.body if isinstance(s, ast.If)]
        top = [s for s in ifs if ast.unparse(s.test) == 'm != 0']
        if len(top) != 1 or len(top[0].body) != 1 or not isinstance(top[0].body[0], ast.If) or top[0].orelse:
            return False
        inner = top[0].body[0]
        ok = ast.unparse(inner.test) == 'm < 0' \
            and [ast.unparse(s) for s in inner.body] == ['out *= r ** am * np.sin(am * t)'] \
            and [ast.unparse(s) for s in inner.orelse] == ['out *= r ** am * np.cos(m * t)']
        nrm = [s for s in ifs if ast.unparse(s.test) == 'norm']
        ok = ok and len(nrm) == 1 and [ast.unparse(s) for s in nrm[0].body] == ['out *= zernike_norm(n, m)'] \
            and not nrm[0].orelse
        (ret,) = find_returns(fn)
        return ok and ast.unparse(ret) == 'out'
    g.fact('zernikeAzimuthNegSinPosCosTimesRPowAbsM', 'prysm/polynomials/zernike.py:zernike_nm', zaz)

    # ---- Qcon, XY, Hopkins
    def qcon():
        fn = get_def(qp, 'Qcon')
        tr = PTr({'x': 'x'})
        b = Body(tr, tuple_funcs={})
        # straight-line: xx = x**2 ; xx = 2*xx - 1 ; Pn = jacobi(n, 0, 4, xx) ; return Pn * x**4
        calls = find_calls(fn, 'jacobi')
        if len(calls) != 1 or ast.unparse(calls[0].args[0]) != 'n':
            raise Untranslatable('Qcon does not call jacobi(n, …) once')
        c = calls[0]
        ktr = PTr({'x': 'x', 'xx': 'xx'})
        stm = [s for s in fn.body if not (isinstance(s, ast.Expr) and isinstance(s.value, ast.Constant))]
        pre = []
        trc = PTr({'x': 'x'})
        bod = Body(trc)
        k = 0
        while k < len(stm) and not any(isinstance(n, ast.Call) and ast.unparse(n.func) == 'jacobi' for n in ast.walk(stm[k])):
            ls, trc = bod.lets_for_assign(stm[k], trc)
            pre += ls
            k += 1
        if not (isinstance(stm[k], ast.Assign) and stm[k].value is c and isinstance(stm[k + 1], ast.Return)):
            raise Untranslatable('Qcon shape')
        pn = stm[k].targets[0].id
        arg = trc.expr(c.args[3])
        a, bb = trc.expr(c.args[1]), trc.expr(c.args[2])
        env = dict(trc.env)
        env[pn] = 'P'
        retv = trc.clone(env).expr(stm[k + 1].value)
        lets = '\n  '.join(pre)
        return (f'def qconX (x : K) : K :=\n  {lets}\n  {arg}\n'
                f'def qconAB : K × K := ({a}, {bb})\n'
                f'def qconOut (P x : K) : K :=\n  {lets}\n  {retv}')
    g.item('Qcon', 'prysm/polynomials/qpoly.py:Qcon', lambda: get_def(qp, 'Qcon'), qcon,
           'def qconX (x : K) : K := Num.ofInt 2 * (x * x) - Num.ofInt 1\n'
           'def qconAB : K × K := (Num.ofInt 0, Num.ofInt 4)\n'
           'def qconOut (P x : K) : K := P * Num.npow x 4')

    def xy():
        fn = get_def(xyf, 'xy')
        (ret,) = find_returns(fn)
        tr = PTr({'x': 'x', 'y': 'y'}, ints=['m', 'n'])
        return f'def xy (m n : Int) (x y : K) : K := {tr.expr(ret)}'
    g.item('xy', 'prysm/polynomials/xy.py:xy', lambda: get_def(xyf, 'xy'), xy,
           f'def xy (m n : Int) (x y : K) : K := {M}.xy m.toNat n.toNat x y')

    def hopkins():
        fn = get_def(ini, 'hopkins')
        (ret,) = find_returns(fn)
        c2, c3 = find_assign(fn, 'c2'), find_assign(fn, 'c3')
        tr = PTr({'r': 'r', 'H': 'H', 'c1': 'az'}, ints=['b', 'c'])
        tr2 = tr.clone({**tr.env, 'c2': tr.expr(c2), 'c3': tr.expr(c3)})
        first = [s for s in fn.body if isinstance(s, ast.If)]
        if not (len(first) == 1 and ast.unparse(first[0].test) == 'a < 0'
                and [ast.unparse(s) for s in first[0].body] == ['c1 = np.sin(abs(a) * t)']
                and [ast.unparse(s) for s in first[0].orelse] == ['c1 = np.cos(a * t)']):
            raise Untranslatable('azimuthal factor of hopkins is not sin(|a| t) for a < 0, cos(a t) otherwise')
        return f'def hopkins (b c : Int) (az r H : K) : K := {tr2.expr(ret)}'
    g.item('hopkins', 'prysm/polynomials/__init__.py:hopkins', lambda: get_def(ini, 'hopkins'), hopkins,
           f'def hopkins (b c : Int) (az r H : K) : K := {M}.hopkins b.toNat c.toNat az r H')

    # ---- Qbfs: auxiliary f/g/h bodies and the sag polynomial (loop included), sqrt as a parameter
    def fgh():
        f, gq, h = get_def(qp, 'f_qbfs'), get_def(qp, 'g_qbfs'), get_def(qp, 'h_qbfs')
        # h(n-2): n = n_minus_2 + 2 ; return -n (n-1) / (2 f(n-2))
        htr = PTr({'f_qbfs(n_minus_2)': 'f'}, ints=['n_minus_2'])
        hb = Body(htr).run(h.body, htr)
        # g(n-1) = -(1 + g(n-2) h(n-2)) / f(n-1)  for n-1 > 0 ; -1/2 at 0
        if not (len([s for s in gq.body if isinstance(s, ast.If)]) == 1):
            raise Untranslatable('g_qbfs shape')
        gi = [s for s in gq.body if isinstance(s, ast.If)][0]
        if ast.unparse(gi.test) != 'n_minus_1 == 0':
            raise Untranslatable('g_qbfs base case')
        g0 = PTr({}).expr(gi.body[0].value)
        gtr = PTr({'g_qbfs(n_minus_2)': 'g', 'h_qbfs(n_minus_2)': 'h', 'f_qbfs(n_minus_1)': 'f'}, ints=['n_minus_1'])
        gret = [s for s in gi.orelse if isinstance(s, ast.Return)][0].value
        gb = gtr.expr(gret)
        # f(n) = sqrt(n(n+1) + 3 - g(n-1)^2 - h(n-2)^2) ; f(0) = 2 ; f(1) = sqrt(19)/2
        fi = [s for s in f.body if isinstance(s, ast.If)][0]
        if ast.unparse(fi.test) != 'n == 0' or ast.unparse(fi.orelse[0].test) != 'n == 1':
            raise Untranslatable('f_qbfs base cases')
        ftr = PTr({'g_qbfs(n - 1)': 'g', 'h_qbfs(n - 2)': 'h'}, ints=['n'], sqrt='sqrt')
        f0 = ftr.expr(fi.body[0].value)
        f1 = ftr.expr(fi.orelse[0].body[0].value)
        fb = Body(ftr).run(fi.orelse[0].orelse, ftr)
        return (f'def qbfsHBody (n_minus_2 : Int) (f : K) : K :=\n  {hb}\n'
                f'def qbfsG0 : K := {g0}\n'
                f'def qbfsGBody (g h f : K) : K := {gb}\n'
                f'def qbfsF0 (sqrt : K → K) : K := {f0}\n'
                f'def qbfsF1 (sqrt : K → K) : K := {f1}\n'
                f'def qbfsFBody (sqrt : K → K) (n : Int) (g h : K) : K :=\n  {fb}')
    g.item('qbfs.fgh', 'prysm/polynomials/qpoly.py:f_qbfs,g_qbfs,h_qbfs',
           lambda: ast.Module(body=[get_def(qp, 'f_qbfs'), get_def(qp, 'g_qbfs'), get_def(qp, 'h_qbfs')], type_ignores=[]),
           fgh,
           f'def qbfsHBody (n_minus_2 : Int) (f : K) : K := {M}.qbfsH n_minus_2.toNat f\n'
           f'def qbfsG0 : K := Num.ofFrac (-1) 2\n'
           f'def qbfsGBody (g h f : K) : K := -(Num.ofInt 1 + g * h) / f\n'
           f'def qbfsF0 (sqrt : K → K) : K := Num.ofInt 2\n'
           f'def qbfsF1 (sqrt : K → K) : K := sqrt (Num.ofInt 19) / Num.ofInt 2\n'
           f'def qbfsFBody (sqrt : K → K) (n : Int) (g h : K) : K := '
           f'sqrt (Num.ofInt n * (Num.ofInt n + Num.ofInt 1) + Num.ofInt 3 - g * g - h * h)')

    def qbfs():
        fn = get_def(qp, 'Qbfs')
        intf = {'g_qbfs': f'{M}.qbfsGi sqrt', 'h_qbfs': f'{M}.qbfsHi sqrt', 'f_qbfs': f'{M}.qbfsFi sqrt'}
        return translate_fn(fn, 'qbfs', ['n'], ['x'], tr_kwargs={'intfuncs': intf, 'sqrt': 'sqrt'},
                            extra_binders='(sqrt : K → K) ')
    g.item('Qbfs', 'prysm/polynomials/qpoly.py:Qbfs', lambda: get_def(qp, 'Qbfs'), qbfs,
           f'def qbfs (sqrt : K → K) (n : Int) (x : K) : K := {M}.qbfs sqrt n.toNat x')

    return g.finish()


if __name__ == '__main__':
    import sys
    text, items = generate(sys.argv[1] if len(sys.argv) > 1 else '/repo')
    print(text)
    for it in items:
        print('--', it)
