"""translator items for C07 (polynomial families): whole scalar evaluators of prysm/polynomials, loops included.

The value functions (`jacobi`, `hermite_He`, `hermite_H`, `laguerre`, `dickson1/2`, `Qbfs`) are translated
statement by statement into Lean over a generic scalar `K` (`[Num K]`): `if n == c: return …` becomes
`if … then … else`, assignments become `let`, `for i in range(a, b)` becomes `Model.C07.forRange a b` folding
the tuple of loop-assigned variables.  NumPy element-wise arithmetic is read point-wise
(`np.ones_like(x)` ↦ 1).  `recurrence_abc`, `zernike_norm` and the argument wiring of `zernike_nm`, `Qcon`,
`xy`, `hopkins`, the Chebyshev normalisers and the Legendre parameters are translated as expressions.

Shared with tools/gen_c08.py (which translates the `*_seq` functions the same way).
"""
import ast
from pyexpr2lean import (Gen, Tr, Untranslatable, load, get_def, find_assign, find_returns, find_calls, call_arg,
                         lean_int)

M = 'Model.C07'
HDR = 'set_option linter.unusedVariables false\nvariable {K : Type} [Num K]\n'


# ------------------------------------------------------------------------------------------------
# expression translator for array code read point-wise, with integer-typed sub-terms
# ------------------------------------------------------------------------------------------------
class PTr(Tr):
    """`Tr` in mode 'num' plus:
    * `ints`: python names that are Python ints (Lean `Int` variables of the same name); in scalar context they appear as
      `(Num.ofInt name)`; in integer context (`range` bounds, comparisons, integer arguments of calls) verbatim;
    * `x ** m` with an integer `m` -> `Num.npow x (Int.toNat m)`;
    * `np.ones_like(x)` -> 1, `np.zeros_like(x)` -> 0, `np.sqrt(e)` -> `sqrt e` (a parameter of the model);
    * `unary`: callee text -> name of a function parameter `K → K` (np.sin -> sinf, np.cos -> cosf);
    * `intfuncs`: callee text -> Lean function applied to the arguments translated as integers;
    * `mixed`: callee text -> (Lean function, kinds) with kinds a string over {i, k}: integer / scalar arguments;
    * `bools`: names of Python bool parameters (Lean `Bool`).
    """

    def __init__(self, env, ints=(), funcs=None, intfuncs=None, sqrt=None, mixed=None, unary=None, bools=(), rpow=None):
        super().__init__(env, 'num', funcs)
        self.rpow = rpow      # name of a parameter `K → K → K` standing for real exponentiation `base ** exponent`
        self.ints = set(ints)
        self.intfuncs = dict(intfuncs or {})
        self.sqrt = sqrt
        self.mixed = dict(mixed or {})
        self.unary = dict(unary or {})
        self.bools = set(bools)

    def clone(self, env=None, ints=None):
        return PTr(self.env if env is None else env, self.ints if ints is None else ints, self.funcs,
                   self.intfuncs, self.sqrt, self.mixed, self.unary, self.bools, self.rpow)

    def itr(self):
        return Tr({k: k for k in self.ints}, 'int')

    def is_int(self, e):
        """is `e` an integer-valued expression of integer names (no true division, no float literal, no array call)?"""
        for n in ast.walk(e):
            if isinstance(n, ast.Name):
                if n.id not in self.ints and n.id != 'abs':
                    return False
            elif isinstance(n, ast.Constant):
                if not isinstance(n.value, int) or isinstance(n.value, bool):
                    return False
            elif isinstance(n, ast.Call):
                if ast.unparse(n.func) != 'abs':
                    return False
            elif isinstance(n, ast.BinOp):
                if isinstance(n.op, (ast.Div, ast.Pow)):
                    return False
            elif not isinstance(n, (ast.UnaryOp, ast.USub, ast.UAdd, ast.Add, ast.Sub, ast.Mult, ast.FloorDiv, ast.Mod,
                                    ast.Load, ast.expr_context, ast.operator, ast.unaryop)):
                return False
        return any(isinstance(n, ast.Name) and n.id in self.ints for n in ast.walk(e))

    def int_expr(self, e):
        for n in ast.walk(e):
            if isinstance(n, ast.Name) and n.id not in self.ints and n.id != 'abs':
                raise Untranslatable(f'{n.id} used as an integer')
        return self.itr().expr(e)

    def expr(self, e):
        if isinstance(e, ast.Name) and e.id in self.ints and e.id not in self.env:
            return f'(Num.ofInt {e.id})'
        if isinstance(e, ast.BinOp) and isinstance(e.op, ast.Pow) and not isinstance(e.right, ast.Constant):
            if self.rpow and not self.is_int(e.right):
                return f'({self.rpow} {self.expr(e.left)} {self.expr(e.right)})'
            return f'(Num.npow {self.expr(e.left)} (Int.toNat {self.int_expr(e.right)}))'
        if isinstance(e, ast.Call):
            f = ast.unparse(e.func)
            if f in ('np.ones_like', 'truenp.ones_like') and len(e.args) == 1:
                return '(Num.ofInt (1))'
            if f in ('np.zeros_like', 'truenp.zeros_like') and len(e.args) == 1:
                return '(Num.ofInt (0))'
            if f in ('np.sqrt', 'truenp.sqrt', 'math.sqrt') and len(e.args) == 1:
                if not self.sqrt:
                    raise Untranslatable('sqrt without a sqrt parameter')
                return f'({self.sqrt} {self.expr(e.args[0])})'
            if f in self.unary and len(e.args) == 1 and not e.keywords:
                return f'({self.unary[f]} {self.expr(e.args[0])})'
            if f in self.intfuncs:
                return '(' + ' '.join([self.intfuncs[f]] + [self.int_expr(a) for a in e.args]) + ')'
            if f in self.mixed:
                fn, kinds = self.mixed[f]
                if len(e.args) != len(kinds) or e.keywords:
                    raise Untranslatable(f'call {ast.unparse(e)[:50]}: expected {len(kinds)} positional arguments')
                args = [self.int_expr(a) if kd == 'i' else self.expr(a) for a, kd in zip(e.args, kinds)]
                return '(' + ' '.join([fn] + args) + ')'
            if f == 'abs' and len(e.args) == 1 and self.is_int(e.args[0]):
                return f'(Num.ofInt {self.int_expr(e)})'
        if self.is_int(e) and not isinstance(e, ast.Name):
            # an integer sub-expression meeting scalars: computed in Python ints, then converted
            return f'(Num.ofInt {self.int_expr(e)})'
        return super().expr(e)

    def cond(self, e):
        if isinstance(e, ast.Name) and e.id in self.bools:
            return f'({e.id} = true)'
        # comparisons between integers are translated in integer mode
        if isinstance(e, ast.Compare):
            names = {n.id for n in ast.walk(e) if isinstance(n, ast.Name)} - {'abs'}
            if names and names <= self.ints:
                return self.itr().cond(e)
        if isinstance(e, ast.BoolOp):
            sym = ' ∧ ' if isinstance(e.op, ast.And) else ' ∨ '
            return '(' + sym.join(self.cond(v) for v in e.values) + ')'
        if isinstance(e, ast.UnaryOp) and isinstance(e.op, ast.Not):
            return f'(¬ {self.cond(e.operand)})'
        return super().cond(e)



# ------------------------------------------------------------------------------------------------
# same-module straight-line helpers are inlined symbolically before translation
# ------------------------------------------------------------------------------------------------
# callees the translators map to Lean functions themselves (translated items / modelled primitives): never inlined
KEEP_CALLS = {'Qbfs', 'gamma', 'abc_q2d', 'F_q2d', 'G_q2d', 'f_q2d', 'g_q2d', 'jacobi', 'recurrence_abc', 'zernike_norm', 'kronecker', 'f_qbfs', 'g_qbfs', 'h_qbfs', 'hermite_He', 'hermite_H', 'jacobi_seq',
              'jacobi_der_seq', 'dickson1_seq', 'dickson2_seq', 'optimize_xy_separable', '_as_sequence', 'laguerre', 'laguerre_seq'}


def inline_helpers(fn, mod, depth=3):
    """Return a copy of `fn` in which every call `h(a1, …, ak)` to a function `h` defined at the top level of the same module whose
    body is (docstring +) a single `return <expr>` is replaced by `<expr>` with the parameters substituted by the argument
    expressions (positional or keyword arguments, no defaults needed, no *args).  Recursive / multi-statement helpers are left alone."""
    import copy
    single = {}
    for f in mod.body:
        if isinstance(f, ast.FunctionDef) and not f.decorator_list:
            body = [st for st in f.body if not (isinstance(st, ast.Expr) and isinstance(st.value, ast.Constant))]
            if len(body) == 1 and isinstance(body[0], ast.Return) and body[0].value is not None \
                    and not f.args.vararg and not f.args.kwarg and not f.args.kwonlyargs:
                single[f.name] = (f, body[0].value)

    class Sub(ast.NodeTransformer):
        def __init__(self, m):
            self.m = m

        def visit_Name(self, node):
            if isinstance(node.ctx, ast.Load) and node.id in self.m:
                return copy.deepcopy(self.m[node.id])
            return node

    class Inl(ast.NodeTransformer):
        changed = False

        def visit_Call(self, node):
            self.generic_visit(node)
            if isinstance(node.func, ast.Name) and node.func.id in single and node.func.id != fn.name and node.func.id not in KEEP_CALLS:
                f, ret = single[node.func.id]
                params = [a.arg for a in f.args.args]
                m = {}
                for p_, a in zip(params, node.args):
                    m[p_] = a
                for kw in node.keywords:
                    if kw.arg in params and kw.arg not in m:
                        m[kw.arg] = kw.value
                ndef = len(f.args.defaults)
                for p_, d in zip(params[len(params) - ndef:], f.args.defaults):
                    m.setdefault(p_, d)
                if set(m) != set(params) or len(node.args) > len(params):
                    return node
                Inl.changed = True
                return Sub(m).visit(copy.deepcopy(ret))
            return node
    out = copy.deepcopy(fn)
    for _ in range(depth):
        Inl.changed = False
        out = Inl().visit(out)
        if not Inl.changed:
            break
    return ast.fix_missing_locations(out)


def get_def_inlined(mod, name, extra=()):
    """`extra`: further modules whose single-`return` helpers may be inlined too (e.g. prysm.mathops.sign)"""
    both = mod if not extra else ast.Module(body=list(mod.body) + [st for e in extra for st in e.body], type_ignores=[])
    return inline_helpers(positional_calls(get_def(mod, name), both), both)


def positional_calls(fn, mod):
    """calls `h(a, k=b)` to a function `h` defined at the top level of `mod` with keyword arguments -> all-positional calls
    (so that `F_q2d(n=0, m=m)` and `F_q2d(0, m)` translate alike); a keyword that is not a parameter of `h` is left alone"""
    import copy
    sigs = {f.name: [a.arg for a in f.args.args] for f in mod.body
            if isinstance(f, ast.FunctionDef) and not f.args.vararg and not f.args.kwarg and not f.args.kwonlyargs}

    class Pos(ast.NodeTransformer):
        def visit_Call(self, node):
            self.generic_visit(node)
            if isinstance(node.func, ast.Name) and node.func.id in sigs and node.keywords:
                params = sigs[node.func.id]
                slots = dict(zip(params, node.args))
                for kw in node.keywords:
                    if kw.arg is None or kw.arg not in params or kw.arg in slots:
                        return node
                    slots[kw.arg] = kw.value
                if list(slots) and sorted(slots, key=params.index) == params[:len(slots)]:
                    return ast.copy_location(ast.Call(func=node.func, args=[slots[q] for q in params[:len(slots)]], keywords=[]), node)
            return node
    return ast.fix_missing_locations(Pos().visit(copy.deepcopy(fn)))


def _proj(k, n):
    """k-th component (0-based) of a right-nested n-tuple `s`"""
    if n == 1:
        return 's'
    return 's' + '.2' * k + ('.1' if k < n - 1 else '')


def _tuple(parts):
    return parts[0] if len(parts) == 1 else '(' + ', '.join(parts) + ')'


def assigned_names(stmts):
    out = []
    for st in stmts:
        for n in ast.walk(st):
            tg = []
            if isinstance(n, ast.Assign):
                tg = n.targets
            elif isinstance(n, ast.AugAssign):
                tg = [n.target]
            for t in tg:
                for el in (t.elts if isinstance(t, ast.Tuple) else [t]):
                    if isinstance(el, ast.Starred):
                        el = el.value
                    if isinstance(el, ast.Name) and el.id not in out:
                        out.append(el.id)
    return out


class Body:
    """statement translator: python statements -> one Lean term (the returned value)"""

    def __init__(self, tr, tuple_funcs=None, fname='f'):
        self.tuple_funcs = dict(tuple_funcs or {})   # callee -> (lean fn, arity of result)
        self.fname = fname                            # prefix of the loop-state accessor abbreviations
        self.prelude = []                             # Lean declarations emitted before the function
        self.int_hints = set()                        # names read inside `range(...)` bounds: an int literal assigned to one stays an Int

    def lets_for_assign(self, s, tr):
        """-> (list of 'let a := b', new tr) for an Assign / AugAssign statement"""
        if isinstance(s, ast.AugAssign) and isinstance(s.target, ast.Name):
            s = ast.Assign(targets=[ast.Name(id=s.target.id, ctx=ast.Store())],
                           value=ast.BinOp(left=ast.Name(id=s.target.id, ctx=ast.Load()), op=s.op, right=s.value))
        if not (isinstance(s, ast.Assign) and len(s.targets) == 1):
            raise Untranslatable(f'statement {ast.unparse(s)[:60]}')
        t, v = s.targets[0], s.value
        env = dict(tr.env)
        ints = set(tr.ints)
        lets = []
        if isinstance(t, ast.Name):
            lit = isinstance(v, ast.Constant) and isinstance(v.value, int) and not isinstance(v.value, bool)
            if tr.is_int(v) or (lit and t.id in self.int_hints):
                # a Python int computed from Python ints stays a Lean Int of the same name
                lets.append(f'let {t.id} : Int := {tr.int_expr(v)}')
                env.pop(t.id, None)
                ints.add(t.id)
                return lets, tr.clone(env, ints)
            lets.append(f'let {t.id}_ := {tr.expr(v)}')
            env[t.id] = f'{t.id}_'
            ints.discard(t.id)
            return lets, tr.clone(env, ints)
        if isinstance(t, ast.Tuple):
            names = []
            for el in t.elts:
                if isinstance(el, ast.Starred) and ast.unparse(el.value) == '_':
                    names.append(None)          # `a, *_ = f()` : the rest is dropped
                elif isinstance(el, ast.Name):
                    names.append(el.id)
                else:
                    raise Untranslatable(f'assignment target {ast.unparse(t)}')
            if isinstance(v, ast.Tuple) and len(v.elts) == len(names):
                vals = [tr.expr(x) for x in v.elts]     # all right-hand sides in the old environment
                for k, (nm, val) in enumerate(zip(names, vals)):
                    lets.append(f'let {nm}_t{k} := {val}')
                for k, nm in enumerate(names):
                    lets.append(f'let {nm}_ := {nm}_t{k}')
                    env[nm] = f'{nm}_'
                    ints.discard(nm)
                return lets, tr.clone(env, ints)
            if isinstance(v, ast.Call) and ast.unparse(v.func) in self.tuple_funcs:
                lean_fn, arity = self.tuple_funcs[ast.unparse(v.func)]
                args = ' '.join(tr.expr(a) for a in v.args)
                tmp = 't_' + '_'.join(n or 'w' for n in names)
                lets.append(f'let {tmp} := {lean_fn} {args}')
                star = any(isinstance(el, ast.Starred) for el in t.elts)
                if not star and len(names) != arity:
                    raise Untranslatable(f'unpacking {arity} values into {len(names)} names')
                for k, nm in enumerate(names):
                    if nm is None or nm == '_':
                        continue
                    pr = '.2' * k + ('.1' if k < arity - 1 else '')
                    lets.append(f'let {nm}_ := {tmp}{pr}')
                    env[nm] = f'{nm}_'
                    ints.discard(nm)
                return lets, tr.clone(env, ints)
        raise Untranslatable(f'assignment {ast.unparse(s)[:60]}')

    def var(self, nm, tr):
        if nm in tr.ints:
            return nm
        return tr.env.get(nm, '(Num.ofInt (0))')

    def block(self, stmts, tr, ind):
        """statements without return / loop -> (lines, tr)"""
        lines = []
        for st in stmts:
            if isinstance(st, ast.Expr) and isinstance(st.value, ast.Constant) or isinstance(st, ast.Pass) or is_identity_prologue(st):
                continue
            if isinstance(st, ast.If):
                ls, tr = self.cond_update(st, tr, ind)
            else:
                ls, tr = self.lets_for_assign(st, tr)
            lines += ls
        return lines, tr

    def cond_update(self, s, tr, ind):
        """`if c: <assignments> [else: <assignments>]` (no return inside) -> the assigned names, in sorted order, as one tuple"""
        orelse = s.orelse or []
        if _returns(s.body) or _returns(orelse):
            raise Untranslatable('return inside a conditional block')
        c = tr.cond(s.test)
        names = sorted(set(assigned_names(s.body)) | set(assigned_names(orelse)))
        i2 = ind + '    '
        l1, t1 = self.block(s.body, tr, i2)
        l2, t2 = self.block(orelse, tr, i2)
        if {nm for nm in names if nm in t1.ints} != {nm for nm in names if nm in t2.ints}:
            raise Untranslatable('a name is an int in one branch and an array in the other')
        tys = ' × '.join('Int' if nm in t1.ints else 'K' for nm in names)
        then = ('\n' + i2).join(l1 + [_tuple([self.var(nm, t1) for nm in names])])
        els = ('\n' + i2).join(l2 + [_tuple([self.var(nm, t2) for nm in names])])
        tag = 'st_' + '_'.join(names)
        out = [f'let {tag} : {tys} := if {c} then\n{i2}{then}\n{ind}  else\n{i2}{els}']
        env, ints = dict(tr.env), set(tr.ints)
        for k, nm in enumerate(names):
            pr = _proj(k, len(names)).replace('s', tag, 1)
            if nm in t1.ints:
                out.append(f'let {nm} : Int := {pr}')
                ints.add(nm)
                env.pop(nm, None)
            else:
                out.append(f'let {nm}_ := {pr}')
                env[nm] = f'{nm}_'
                ints.discard(nm)
        return out, tr.clone(env, ints)

    def loop(self, s, tr, ind):
        """for v in range(a, b): body  ->  (lets, new tr).  The loop-assigned variables are carried as a tuple in SORTED
        name order; accessor abbreviations `<fn>_st_<var>` are emitted so that proofs never use positions."""
        if not (isinstance(s.target, ast.Name) and isinstance(s.iter, ast.Call) and ast.unparse(s.iter.func) == 'range'
                and len(s.iter.args) == 2 and not s.orelse):
            raise Untranslatable(f'loop header {ast.unparse(s).splitlines()[0]}')
        v = s.target.id
        lo, hi = tr.int_expr(s.iter.args[0]), tr.int_expr(s.iter.args[1])
        names = sorted(assigned_names(s.body))
        if not names:
            raise Untranslatable('loop assigns nothing')
        int_names = {nm for nm in names if nm in tr.ints}
        for _ in range(3):      # which carried names are Python ints: fixpoint over the body
            env = {k_: v_ for k_, v_ in tr.env.items() if k_ not in int_names}
            for nm in names:
                if nm not in int_names:
                    env[nm] = f'{nm}_'
            env.pop(v, None)
            btr = tr.clone(env, (set(tr.ints) - set(names)) | int_names | {v})
            i2 = ind + '    '
            lines, btr2 = self.block(s.body, btr, i2)
            new_int = {nm for nm in names if nm in btr2.ints}
            if new_int == int_names:
                break
            int_names = new_int
        else:
            raise Untranslatable('loop variable types do not stabilise')
        tys = ['Int' if nm in int_names else 'K' for nm in names]
        sty = ' × '.join(tys)
        acc = {nm: f'{self.fname}_st_{nm}' for nm in names}
        for k, nm in enumerate(names):
            self.prelude.append(f'abbrev {acc[nm]} {{K : Type}} (s : {sty}) : {tys[k]} := {_proj(k, len(names))}')
        head = [f'let {nm} : Int := {acc[nm]} s' if nm in int_names else f'let {nm}_ := {acc[nm]} s' for nm in names]
        final = _tuple([self.var(nm, btr2) for nm in names])
        init = [(nm if nm in tr.ints else '(0 : Int)') if nm in int_names else tr.env.get(nm, '(Num.ofInt (0))') for nm in names]
        body = ('\n' + i2).join(head + lines + [final])
        loopname = f'loop_{v}'
        lets = [f'let {loopname} := {M}.forRange {lo} {hi} (fun ({v} : Int) (s : {sty}) =>\n{i2}{body}) {_tuple(init)}']
        env2, ints2 = dict(tr.env), set(tr.ints)
        for nm in names:
            if nm in int_names:
                lets.append(f'let {nm} : Int := {acc[nm]} {loopname}')
                ints2.add(nm)
                env2.pop(nm, None)
            else:
                lets.append(f'let {nm}_ := {acc[nm]} {loopname}')
                env2[nm] = f'{nm}_'
                ints2.discard(nm)
        return lets, tr.clone(env2, ints2)

    def run(self, stmts, tr, ind='  '):
        if not stmts:
            raise Untranslatable('fell off the end of the function without return')
        s, rest = stmts[0], stmts[1:]
        if isinstance(s, ast.Expr) and isinstance(s.value, ast.Constant):
            return self.run(rest, tr, ind)
        if isinstance(s, ast.Pass) or is_identity_prologue(s):
            return self.run(rest, tr, ind)
        if isinstance(s, ast.Return):
            if s.value is None:
                raise Untranslatable('bare return')
            return self.ret(s.value, tr)
        if isinstance(s, ast.If) and (_returns(s.body) or _returns(s.orelse or []) or _has_return(s)):
            # a branch that returns early somewhere inside and otherwise falls through: the continuation is translated once per branch
            c = tr.cond(s.test)
            orelse = s.orelse or []
            then = self.run(s.body + ([] if _returns(s.body) else rest), tr, ind + '  ')
            els = self.run(orelse + ([] if _returns(orelse) else rest), tr, ind + '  ')
            return f'if {c} then\n{ind}  {then}\n{ind}else\n{ind}  {els}'
        if isinstance(s, ast.If):
            ls, tr2 = self.cond_update(s, tr, ind)
        elif isinstance(s, ast.For):
            ls, tr2 = self.loop(s, tr, ind)
        else:
            ls, tr2 = self.lets_for_assign(s, tr)
        return ('\n' + ind).join(ls + [self.run(rest, tr2, ind)])

    def ret(self, value, tr):
        if isinstance(value, ast.Tuple):
            return '(' + ', '.join(tr.expr(x) for x in value.elts) + ')'
        return tr.expr(value)


def is_identity_prologue(st):
    """`x = np.asarray(x)` / `x = np.asarray(x, dtype=np.result_type(x, 1.0))`: container / dtype normalisation of a coordinate
    argument -- the point-wise identity on values (the dtype of the rows is read by separate items)"""
    if not (isinstance(st, ast.Assign) and len(st.targets) == 1 and isinstance(st.targets[0], ast.Name)):
        return False
    nm = st.targets[0].id
    return ast.unparse(st.value) in (f'np.asarray({nm})', f'np.asarray({nm}, dtype=np.result_type({nm}, 1.0))',
                                     f'np.asanyarray({nm})', f'np.asarray({nm}, dtype=float)')


def _has_return(node):
    return any(isinstance(n, ast.Return) for n in ast.walk(node))


def _returns(stmts):
    if not stmts:
        return False
    last = stmts[-1]
    if isinstance(last, ast.Return):
        return True
    if isinstance(last, ast.If):
        return _returns(last.body) and _returns(last.orelse or [])
    return False


def translate_fn(fn, lean_name, int_params, k_params, tr_kwargs=None, tuple_funcs=None, extra_binders='',
                 ret='K', bool_params=(), allow_extra=()):
    """whole function -> Lean.  Parameters must be exactly int_params + k_params + bool_params (+ allow_extra, which the body
    must not read)."""
    kw = dict(tr_kwargs or {})
    kw['bools'] = set(bool_params)
    tr = PTr({p: p for p in k_params}, ints=int_params, **kw)
    got = [a.arg for a in fn.args.args]
    want = list(int_params) + list(k_params) + list(bool_params)
    if sorted(set(got) - set(allow_extra)) != sorted(want):
        raise Untranslatable(f'parameters {got}, expected {want}')
    for n in ast.walk(ast.Module(body=fn.body, type_ignores=[])):
        if isinstance(n, ast.Name) and n.id in allow_extra:
            raise Untranslatable(f'body reads {n.id}')
    bd = Body(tr, tuple_funcs=tuple_funcs, fname=lean_name)
    bd.int_hints = {n.id for c in ast.walk(fn) if isinstance(c, ast.Call) and ast.unparse(c.func) == 'range'
                    for a in c.args for n in ast.walk(a) if isinstance(n, ast.Name)}
    body = bd.run(fn.body, tr)
    binders = ' '.join([f'({p} : Int)' for p in int_params] + [f'({p} : K)' for p in k_params]
                       + [f'({p} : Bool)' for p in bool_params])
    pre = ''.join(x + '\n' for x in dict.fromkeys(bd.prelude))
    return f'{pre}def {lean_name} {extra_binders}{binders} : {ret} :=\n  {body}\n'


ABC_TUPLE = {'recurrence_abc': ('abc', 3)}


def _forceable(g):
    """testing aid: VERIF_FORCE_FALLBACK=name1,name2 makes those items untranslatable (exercises the fallback path)"""
    import os
    forced = set(filter(None, os.environ.get('VERIF_FORCE_FALLBACK', '').split(',')))
    orig = g.item

    def item(name, source, node_fn, build, fallback):
        if name in forced or 'ALL' in forced:
            def build():      # noqa
                raise Untranslatable('forced by VERIF_FORCE_FALLBACK')
        return orig(name, source, node_fn, build, fallback)
    g.item = item
    return g


def generate(repo):
    g = Gen('C07', imports=['PrysmVerif.PyPrelude', 'PrysmVerif.Model.C07'], header=HDR)
    g = _forceable(g)
    jac, _ = load(repo, 'prysm/polynomials/jacobi.py')
    che, _ = load(repo, 'prysm/polynomials/cheby.py')
    leg, _ = load(repo, 'prysm/polynomials/legendre.py')
    her, _ = load(repo, 'prysm/polynomials/hermite.py')
    lag, _ = load(repo, 'prysm/polynomials/laguerre.py')
    dic, _ = load(repo, 'prysm/polynomials/dickson.py')
    zer, _ = load(repo, 'prysm/polynomials/zernike.py')
    qp, _ = load(repo, 'prysm/polynomials/qpoly.py')
    xyf, _ = load(repo, 'prysm/polynomials/xy.py')
    ini, _ = load(repo, 'prysm/polynomials/__init__.py')

    # ---- recurrence_abc(n, alpha, beta): n is read as a scalar (it only meets alpha, beta arithmetically)
    def abc():
        fn = get_def_inlined(jac, 'recurrence_abc')
        return translate_fn(fn, 'abc', [], ['n', 'alpha', 'beta'], extra_binders='[DecidableEq K] ', ret='K × K × K')
    g.item('recurrence_abc', 'prysm/polynomials/jacobi.py:recurrence_abc', lambda: get_def(jac, 'recurrence_abc'), abc,
           f'def abc [DecidableEq K] (n alpha beta : K) : K × K × K :=\n'
           f'  if n = Num.ofInt 0 ∧ (alpha + beta = Num.ofInt 0 ∨ alpha + beta = Num.ofInt (-1)) then {M}.abc0 alpha beta\n'
           f'  else {M}.abcK n alpha beta')

    # ---- weight(alpha, beta, x): the weight the library reports for the Jacobi family (real powers as a parameter `rpow`)
    def weight():
        return translate_fn(get_def_inlined(jac, 'weight'), 'weight', [], ['alpha', 'beta', 'x'], tr_kwargs={'rpow': 'rpow'},
                            extra_binders='(rpow : K → K → K) ')
    g.item('weight', 'prysm/polynomials/jacobi.py:weight', lambda: get_def(jac, 'weight'), weight,
           'def weight (rpow : K → K → K) (alpha beta x : K) : K := rpow (Num.ofInt 1 - x) alpha * rpow (Num.ofInt 1 + x) beta')

    # ---- jacobi(n, alpha, beta, x)
    def jacobi():
        fn = get_def_inlined(jac, 'jacobi')
        return translate_fn(fn, 'jacobi', ['n'], ['alpha', 'beta', 'x'], tuple_funcs=ABC_TUPLE,
                            extra_binders='[DecidableEq K] ')
    g.item('jacobi', 'prysm/polynomials/jacobi.py:jacobi', lambda: get_def(jac, 'jacobi'), jacobi,
           f'def jacobi [DecidableEq K] (n : Int) (alpha beta x : K) : K := {M}.jacobi n.toNat alpha beta x')

    # ---- Hermite, Laguerre, Dickson
    for (mod, rel, py, lean, ks, model) in [
            (her, 'hermite.py', 'hermite_He', 'hermiteHe', ['x'], 'hermiteHe n.toNat x'),
            (her, 'hermite.py', 'hermite_H', 'hermiteH', ['x'], 'hermiteH n.toNat x'),
            (lag, 'laguerre.py', 'laguerre', 'laguerre', ['alpha', 'x'], 'laguerre n.toNat alpha x'),
            (dic, 'dickson.py', 'dickson1', 'dickson1', ['alpha', 'x'], 'dickson1 n.toNat alpha x'),
            (dic, 'dickson.py', 'dickson2', 'dickson2', ['alpha', 'x'], 'dickson2 n.toNat alpha x')]:
        def build(mod=mod, py=py, lean=lean, ks=ks):
            return translate_fn(get_def_inlined(mod, py), lean, ['n'], ks)
        g.item(py, f'prysm/polynomials/{rel}:{py}', (lambda mod=mod, py=py: get_def(mod, py)), build,
               f'def {lean} (n : Int) ({" ".join(ks)} : K) : K := {M}.{model}')

    JAC = {'jacobi': ('jacobi', 'ikkk')}

    # ---- Chebyshev of the four kinds, Legendre, Qcon: whole bodies (they call the translated `jacobi`)
    fall = {1: 'cheby1', 2: 'cheby2', 3: 'cheby3', 4: 'cheby4'}
    for kind in (1, 2, 3, 4):
        def build(kind=kind):
            return translate_fn(get_def_inlined(che, f'cheby{kind}'), f'cheby{kind}', ['n'], ['x'], tr_kwargs={'mixed': JAC},
                                extra_binders='[DecidableEq K] ')
        g.item(f'cheby{kind}', f'prysm/polynomials/cheby.py:cheby{kind}', (lambda kind=kind: get_def(che, f'cheby{kind}')), build,
               f'def cheby{kind} [DecidableEq K] (n : Int) (x : K) : K := {M}.cheby{kind} n.toNat x')

    def legendre():
        return translate_fn(get_def_inlined(leg, 'legendre'), 'legendre', ['n'], ['x'], tr_kwargs={'mixed': JAC},
                            extra_binders='[DecidableEq K] ')
    g.item('legendre', 'prysm/polynomials/legendre.py:legendre', lambda: get_def(leg, 'legendre'), legendre,
           f'def legendre [DecidableEq K] (n : Int) (x : K) : K := {M}.legendre n.toNat x')

    def qcon():
        return translate_fn(get_def_inlined(qp, 'Qcon'), 'qcon', ['n'], ['x'], tr_kwargs={'mixed': JAC}, extra_binders='[DecidableEq K] ')
    g.item('Qcon', 'prysm/polynomials/qpoly.py:Qcon', lambda: get_def(qp, 'Qcon'), qcon,
           f'def qcon [DecidableEq K] (n : Int) (x : K) : K := {M}.qcon n.toNat x')

    # ---- Zernike: norm and the whole body of zernike_nm (sin, cos, sqrt are parameters)
    KRON = {'kronecker': (f'{M}.kroneckerK', 'ii')}

    def znorm():
        return translate_fn(get_def_inlined(zer, 'zernike_norm'), 'zernikeNorm', ['n', 'm'], [], tr_kwargs={'mixed': KRON, 'sqrt': 'sqrt'},
                            extra_binders='(sqrt : K → K) ')
    g.item('zernike_norm', 'prysm/polynomials/zernike.py:zernike_norm', lambda: get_def(zer, 'zernike_norm'), znorm,
           f'def zernikeNorm (sqrt : K → K) (n m : Int) : K := sqrt ({M}.zernikeNormSq n.toNat m)')

    def znm():
        return translate_fn(get_def_inlined(zer, 'zernike_nm'), 'zernikeNm', ['n', 'm'], ['r', 't'], bool_params=['norm'],
                            tr_kwargs={'mixed': {**JAC, 'zernike_norm': ('zernikeNorm sqrt', 'ii')},
                                       'unary': {'np.sin': 'sinf', 'np.cos': 'cosf'}},
                            extra_binders='[DecidableEq K] (sinf cosf sqrt : K → K) ')
    g.item('zernike_nm', 'prysm/polynomials/zernike.py:zernike_nm', lambda: get_def(zer, 'zernike_nm'), znm,
           f'def zernikeNm [DecidableEq K] (sinf cosf sqrt : K → K) (n m : Int) (r t : K) (norm : Bool) : K :=\n'
           f'  {M}.zernike n.toNat m r (if m < 0 then sinf (Num.ofInt (Int.natAbs m) * t) else cosf (Num.ofInt m * t))\n'
           f'    (if norm = true then zernikeNorm sqrt n m else Num.ofInt 1)')

    # ---- XY, Hopkins
    def xy():
        fn = get_def_inlined(xyf, 'xy')
        stm = [st for st in fn.body if not (isinstance(st, ast.Expr) and isinstance(st.value, ast.Constant))]
        # the only statement besides the return may be the separable-grid shortcut, which reshapes x and y (point-wise identity)
        if len(stm) == 2 and isinstance(stm[0], ast.If) and not stm[0].orelse \
                and [ast.unparse(q) for q in stm[0].body] == ['x, y = optimize_xy_separable(x, y)']:
            stm = stm[1:]
        if len(stm) != 1 or not isinstance(stm[0], ast.Return):
            raise Untranslatable('xy has statements other than the separable-grid shortcut and the return')
        tr = PTr({'x': 'x', 'y': 'y'}, ints=['m', 'n'])
        return f'def xy (m n : Int) (x y : K) : K := {tr.expr(stm[0].value)}'
    g.item('xy', 'prysm/polynomials/xy.py:xy', lambda: get_def(xyf, 'xy'), xy,
           f'def xy (m n : Int) (x y : K) : K := {M}.xy m.toNat n.toNat x y')

    def hopkins():
        return translate_fn(get_def_inlined(ini, 'hopkins'), 'hopkins', ['a', 'b', 'c'], ['r', 't', 'H'],
                            tr_kwargs={'unary': {'np.sin': 'sinf', 'np.cos': 'cosf'}}, extra_binders='(sinf cosf : K → K) ')
    g.item('hopkins', 'prysm/polynomials/__init__.py:hopkins', lambda: get_def(ini, 'hopkins'), hopkins,
           f'def hopkins (sinf cosf : K → K) (a b c : Int) (r t H : K) : K :=\n'
           f'  {M}.hopkins b.toNat c.toNat (if a < 0 then sinf (Num.ofInt (Int.natAbs a) * t) else cosf (Num.ofInt a * t)) r H')

    # ---- Qbfs: whole bodies of the mutually recursive auxiliary f/g/h (recursive calls -> the model's functions), sqrt a parameter
    REC = {'f_qbfs': f'{M}.qbfsFi sqrt', 'g_qbfs': f'{M}.qbfsGi sqrt', 'h_qbfs': f'{M}.qbfsHi sqrt'}
    for (py, lean) in (('f_qbfs', 'qbfsFBody'), ('g_qbfs', 'qbfsGBody'), ('h_qbfs', 'qbfsHBody')):
        def build(py=py, lean=lean):
            fn = get_def_inlined(qp, py)
            (par,) = [a.arg for a in fn.args.args]
            return translate_fn(fn, lean, [par], [], tr_kwargs={'intfuncs': REC, 'sqrt': 'sqrt'}, extra_binders='(sqrt : K → K) ')
        g.item(py, f'prysm/polynomials/qpoly.py:{py}', (lambda py=py: get_def(qp, py)), build,
               f'def {lean} (sqrt : K → K) (k : Int) : K := {M}.qbfs{py[0].upper()}i sqrt k')

    def qbfs():
        fn = get_def_inlined(qp, 'Qbfs')
        intf = {'g_qbfs': f'{M}.qbfsGi sqrt', 'h_qbfs': f'{M}.qbfsHi sqrt', 'f_qbfs': f'{M}.qbfsFi sqrt'}
        return translate_fn(fn, 'qbfs', ['n'], ['x'], tr_kwargs={'intfuncs': intf, 'sqrt': 'sqrt'},
                            extra_binders='(sqrt : K → K) ')
    g.item('Qbfs', 'prysm/polynomials/qpoly.py:Qbfs', lambda: get_def(qp, 'Qbfs'), qbfs,
           f'def qbfs (sqrt : K → K) (n : Int) (x : K) : K := {M}.qbfs sqrt n.toNat x')

    # ---- 2D-Q: A.3 coefficients, gamma, F, G, f, g (recursive calls -> the model's functions) and the whole body of Q2d
    mo, _ = load(repo, 'prysm/mathops.py')

    def abc_q2d():
        return translate_fn(get_def_inlined(qp, 'abc_q2d', [mo]), 'abcQ2d', [], ['n', 'm'], ret='K × K × K')
    g.item('abc_q2d', 'prysm/polynomials/qpoly.py:abc_q2d', lambda: get_def(qp, 'abc_q2d'), abc_q2d,
           f'def abcQ2d (n m : K) : K × K × K := {M}.q2dAbcK n m')

    def gamma_body():
        return translate_fn(get_def_inlined(mo, 'gamma'), 'gammaBody', ['n', 'm'], [], tr_kwargs={'intfuncs': {'gamma': f'{M}.q2dGammaI'}})
    g.item('gamma', 'prysm/mathops.py:gamma', lambda: get_def(mo, 'gamma'), gamma_body,
           f'def gammaBody (n m : Int) : K := {M}.q2dGammaI n m')

    SPECIAL = {'special.factorial2': f'{M}.fact2I', 'special.factorial': f'{M}.factI', 'gamma': f'{M}.q2dGammaI'}
    for (py, lean, model) in (('G_q2d', 'q2dGBody', 'q2dGI'), ('F_q2d', 'q2dFBody', 'q2dFI')):
        def build(py=py, lean=lean):
            return translate_fn(get_def_inlined(qp, py, [mo]), lean, ['n', 'm'], [], tr_kwargs={'intfuncs': SPECIAL, 'mixed': KRON})
        g.item(py, f'prysm/polynomials/qpoly.py:{py}', (lambda py=py: get_def(qp, py)), build,
               f'def {lean} (n m : Int) : K := {M}.{model} n m')

    FG = {'F_q2d': f'{M}.q2dFI', 'G_q2d': f'{M}.q2dGI', 'f_q2d': f'{M}.q2dfI sqrt', 'g_q2d': f'{M}.q2dgI sqrt'}
    for (py, lean, model) in (('g_q2d', 'q2dgBody', 'q2dgI'), ('f_q2d', 'q2dfBody', 'q2dfI')):
        def build(py=py, lean=lean):
            return translate_fn(get_def_inlined(qp, py, [mo]), lean, ['n', 'm'], [], tr_kwargs={'intfuncs': FG, 'sqrt': 'sqrt'},
                                extra_binders='(sqrt : K → K) ')
        g.item(py, f'prysm/polynomials/qpoly.py:{py}', (lambda py=py: get_def(qp, py)), build,
               f'def {lean} (sqrt : K → K) (n m : Int) : K := {M}.{model} sqrt n m')

    def q2d():
        fn = get_def_inlined(qp, 'Q2d', [mo])
        text = translate_fn(fn, 'q2d', ['n', 'm'], ['r', 't'],
                            tr_kwargs={'intfuncs': {'f_q2d': f'{M}.q2dfI sqrt', 'g_q2d': f'{M}.q2dgI sqrt'}, 'mixed': {'Qbfs': ('qbfs sqrt', 'ik')},
                                       'unary': {'np.sin': 'sinf', 'np.cos': 'cosf'}, 'sqrt': 'sqrt'},
                            tuple_funcs={'abc_q2d': ('abcQ2d', 3)}, extra_binders='(sinf cosf sqrt : K → K) ')
        # the proof of gen_q2d addresses the let-bindings of this text by position (extract_lets): any other statement shape
        # (a behaviour-preserving rewrite included) is refused -> fallback text, TIE-DEGRADED, widened correspondence
        import re
        import hashlib
        seq = ' '.join(re.findall(r'\blet (\w+)', text))
        if hashlib.sha256(seq.encode()).hexdigest()[:16] != '402520c63f6858bb':
            raise Untranslatable('the statement sequence of Q2d differs from the one the proof of gen_q2d was written for')
        return text
    g.item('Q2d', 'prysm/polynomials/qpoly.py:Q2d', lambda: get_def(qp, 'Q2d'), q2d,
           f'def q2d (sinf cosf sqrt : K → K) (n m : Int) (r t : K) : K :=\n'
           f'  {M}.q2d sqrt n.toNat m r (if m < 0 then sinf (Num.ofInt (Int.natAbs m) * t) else cosf (Num.ofInt (Int.natAbs m) * t))')

    # ---- the cosine (a) and the sine (b) halves of the 2D-Q sum are the same code up to a <-> b
    def q2d_branches_symmetric():
        """compute_z_zprime_Q2d: the `if Na >= 0:` block, with a -> b in every identifier (Na->Nb, a_coef->b_coef, alphas_a->alphas_b,
        Sa->Sb, Sprimea->Sprimeb), is the `if Nb >= 0:` block: same guards (also of the m == 1 correction), same constants, same indices.
        None when the two blocks are not found in this shape."""
        fn = get_def(qp, 'compute_z_zprime_Q2d')
        blocks = {}
        for n in ast.walk(fn):
            if isinstance(n, ast.If) and isinstance(n.test, ast.Compare) and isinstance(n.test.left, ast.Name) and n.test.left.id in ('Na', 'Nb') \
                    and any(isinstance(c, ast.Call) and 'clenshaw' in ast.unparse(c.func) for c in ast.walk(n)):
                blocks.setdefault(n.test.left.id, []).append(n)
        if sorted(blocks) != ['Na', 'Nb'] or len(blocks['Na']) != 1 or len(blocks['Nb']) != 1:
            return None
        ren = {'Na': 'Nb', 'a_coef': 'b_coef', 'alphas_a': 'alphas_b', 'Sa': 'Sb', 'Sprimea': 'Sprimeb'}

        class R(ast.NodeTransformer):
            def visit_Name(self, node):
                return ast.copy_location(ast.Name(id=ren.get(node.id, node.id), ctx=node.ctx), node)
        import copy
        a = R().visit(copy.deepcopy(blocks['Na'][0]))
        return ast.dump(a) == ast.dump(blocks['Nb'][0])
    g.fact('q2dSumBranchesSymmetric', 'prysm/polynomials/qpoly.py:compute_z_zprime_Q2d', q2d_branches_symmetric)

    # ---- the m = 1 correction of the 2D-Q sum (Forbes B.7): guard and constants of every `S -= c * alphas[k][i]` under `if m == M and N > K`
    def q2d_m1_correction():
        fn = get_def(qp, 'compute_z_zprime_Q2d')
        rows = []
        for n in ast.walk(fn):
            if not (isinstance(n, ast.If) and isinstance(n.test, ast.BoolOp) and isinstance(n.test.op, ast.And) and len(n.test.values) == 2):
                continue
            c1, c2 = n.test.values
            if not (isinstance(c1, ast.Compare) and ast.unparse(c1.left) == 'm' and len(c1.ops) == 1 and isinstance(c1.ops[0], ast.Eq)
                    and isinstance(c1.comparators[0], ast.Constant)):
                continue
            if not (isinstance(c2, ast.Compare) and isinstance(c2.left, ast.Name) and len(c2.ops) == 1 and isinstance(c2.comparators[0], ast.Constant)
                    and isinstance(c2.comparators[0].value, int)):
                raise Untranslatable(f'guard {ast.unparse(n.test)}')
            k = c2.comparators[0].value
            if isinstance(c2.ops[0], ast.GtE):
                k -= 1                                   # N >= k  is  N > k - 1
            elif not isinstance(c2.ops[0], ast.Gt):
                raise Untranslatable(f'guard {ast.unparse(n.test)}')
            if n.orelse:
                raise Untranslatable('correction with an else branch')
            for st in n.body:
                if not (isinstance(st, ast.AugAssign) and isinstance(st.op, ast.Sub) and isinstance(st.value, ast.BinOp) and isinstance(st.value.op, ast.Mult)):
                    raise Untranslatable(f'statement {ast.unparse(st)}')
                from fractions import Fraction
                cst, arr = st.value.left, st.value.right
                if isinstance(cst, ast.BinOp) and isinstance(cst.op, ast.Div) and all(isinstance(q, ast.Constant) and isinstance(q.value, int) for q in (cst.left, cst.right)):
                    fr = Fraction(cst.left.value, cst.right.value)
                elif isinstance(cst, ast.Constant) and isinstance(cst.value, (int, float)):
                    fr = Fraction(repr(cst.value))
                else:
                    raise Untranslatable(f'constant {ast.unparse(cst)}')
                if not (isinstance(arr, ast.Subscript) and isinstance(arr.value, ast.Subscript) and isinstance(arr.slice, ast.Constant)
                        and isinstance(arr.value.slice, ast.Constant)):
                    raise Untranslatable(f'operand {ast.unparse(arr)}')
                rows.append((c1.comparators[0].value, k, fr.numerator, fr.denominator, arr.value.slice.value, arr.slice.value))
        if not rows:
            raise Untranslatable('no `if m == … and N… > …:` correction found')
        body = ', '.join('(' + ', '.join(lean_int(v) for v in r) + ')' for r in rows)
        return f'def q2dSumM1Correction : List (Int × Int × Int × Int × Int × Int) := [{body}]'
    g.item('q2d_sum_m1_correction', 'prysm/polynomials/qpoly.py:compute_z_zprime_Q2d', lambda: get_def(qp, 'compute_z_zprime_Q2d'), q2d_m1_correction,
           'def q2dSumM1Correction : List (Int × Int × Int × Int × Int × Int) :=\n'
           '  [(1, 2, 2, 5, 0, 3), (1, 2, 2, 5, 1, 3), (1, 2, 2, 5, 0, 3), (1, 2, 2, 5, 1, 3)]')

    # ---- no state that outlives a call in the polynomial modules, other than functools caches of hashable scalars
    def no_state_between_calls():
        """True iff, in every prysm/polynomials/*.py:  no `id(...)` call;  no `is` / `is not` between two non-constant expressions;
        no `global` / `nonlocal`;  and no function stores anything that depends on one of its parameters into state that outlives the
        call (a module-level container, a function attribute, a mutable default argument) unless it is a table store `T[key] = value`
        whose key mentions every parameter the value depends on by VALUE (not through id(), .shape, .ndim, len())."""
        import glob
        import os
        ok = True
        for path in sorted(glob.glob(os.path.join(repo, 'prysm', 'polynomials', '*.py'))):
            mod = ast.parse(open(path).read())
            top = set()
            for st in mod.body:
                if isinstance(st, (ast.Assign, ast.AnnAssign, ast.AugAssign)):
                    for t in (st.targets if isinstance(st, ast.Assign) else [st.target]):
                        top |= {n.id for n in ast.walk(t) if isinstance(n, ast.Name)}
            funcs = {f.name for f in ast.walk(mod) if isinstance(f, (ast.FunctionDef, ast.AsyncFunctionDef))}
            for fn in [f for f in ast.walk(mod) if isinstance(f, (ast.FunctionDef, ast.AsyncFunctionDef))]:
                params = {a.arg for a in fn.args.args + fn.args.kwonlyargs + fn.args.posonlyargs}
                if fn.args.vararg:
                    params.add(fn.args.vararg.arg)
                if fn.args.kwarg:
                    params.add(fn.args.kwarg.arg)
                mutable_defaults = set()
                pos = fn.args.posonlyargs + fn.args.args
                for a, d in list(zip(pos[len(pos) - len(fn.args.defaults):], fn.args.defaults)) + \
                        [(a, d) for a, d in zip(fn.args.kwonlyargs, fn.args.kw_defaults) if d is not None]:
                    if isinstance(d, (ast.List, ast.Dict, ast.Set, ast.ListComp, ast.DictComp)) or \
                            (isinstance(d, ast.Call) and ast.unparse(d.func).split('.')[-1] in ('dict', 'list', 'set', 'defaultdict', 'OrderedDict')):
                        mutable_defaults.add(a.arg)
                # which parameters does each local depend on (fixpoint over the assignments of the body)
                deps = {q: {q} for q in params}

                def dep(e):
                    out = set()
                    for n in ast.walk(e):
                        if isinstance(n, ast.Name):
                            out |= deps.get(n.id, set())
                    return out
                for _ in range(6):
                    for n in ast.walk(fn):
                        if isinstance(n, (ast.Assign, ast.AugAssign, ast.AnnAssign)) and getattr(n, 'value', None) is not None:
                            for t in (n.targets if isinstance(n, ast.Assign) else [n.target]):
                                for nm in [q for q in ast.walk(t) if isinstance(q, ast.Name) and isinstance(q.ctx, ast.Store)]:
                                    deps[nm.id] = deps.get(nm.id, set()) | dep(n.value)
                        elif isinstance(n, ast.For):
                            for nm in [q for q in ast.walk(n.target) if isinstance(q, ast.Name)]:
                                deps[nm.id] = deps.get(nm.id, set()) | dep(n.iter)

                def by_value(key):
                    """parameters the key expression mentions by value: not under id(), len(), .shape, .ndim, .size"""
                    hidden = set()
                    for n in ast.walk(key):
                        if isinstance(n, ast.Call) and ast.unparse(n.func) in ('id', 'len'):
                            hidden |= {id(q) for a in n.args for q in ast.walk(a)}
                        if isinstance(n, ast.Attribute) and n.attr in ('shape', 'ndim', 'size'):
                            hidden |= {id(q) for q in ast.walk(n.value)}
                    out = set()
                    for n in ast.walk(key):
                        if isinstance(n, ast.Name) and id(n) not in hidden:
                            out |= deps.get(n.id, set())
                    return out

                def lasting(root):
                    return isinstance(root, ast.Name) and ((root.id in top and root.id not in params and root.id not in
                                                            {q for q in deps if q not in params and q not in top})
                                                           or root.id in funcs or root.id in mutable_defaults)
                for n in ast.walk(fn):
                    if isinstance(n, (ast.Global, ast.Nonlocal)):
                        ok = False
                    if isinstance(n, ast.Call) and ast.unparse(n.func) == 'id':
                        ok = False
                    if isinstance(n, ast.Compare) and any(isinstance(o, (ast.Is, ast.IsNot)) for o in n.ops):
                        if not any(isinstance(o, ast.Constant) for o in [n.left] + n.comparators):
                            ok = False
                    if isinstance(n, (ast.Assign, ast.AugAssign)):
                        for t in (n.targets if isinstance(n, ast.Assign) else [n.target]):
                            for el in (t.elts if isinstance(t, (ast.Tuple, ast.List)) else [t]):
                                if not isinstance(el, (ast.Subscript, ast.Attribute)):
                                    continue
                                root = el
                                while isinstance(root, (ast.Subscript, ast.Attribute)):
                                    root = root.value
                                if not lasting(root) or not dep(n.value) | (dep(el.slice) if isinstance(el, ast.Subscript) else set()):
                                    continue
                                table = isinstance(el, ast.Subscript) and not isinstance(el.slice, ast.Slice) and isinstance(n, ast.Assign)
                                if not (table and dep(n.value) <= by_value(el.slice)):
                                    ok = False
                    if isinstance(n, ast.Call) and isinstance(n.func, ast.Attribute) and \
                            n.func.attr in ('append', 'extend', 'update', 'setdefault', 'insert', 'add', 'appendleft', '__setitem__'):
                        root = n.func.value
                        while isinstance(root, (ast.Subscript, ast.Attribute)):
                            root = root.value
                        if lasting(root) and set().union(*[dep(a) for a in n.args], *[dep(k.value) for k in n.keywords]):
                            if not (n.func.attr in ('setdefault', '__setitem__') and len(n.args) == 2 and dep(n.args[1]) <= by_value(n.args[0])):
                                ok = False
        return ok
    g.fact('polynomialsKeepNoStateBetweenCalls', 'prysm/polynomials/*.py', no_state_between_calls)

    return g.finish()


if __name__ == '__main__':
    import sys
    text, items = generate(sys.argv[1] if len(sys.argv) > 1 else '/repo')
    print(text)
    for it in items:
        print('--', it)
