#!/bin/bash
# tools/try_all_mutants.sh <Cxx> <out_dir>   -> one summary line per m<i>
pid=$1; out=$2
for d in $out/m*.diff; do
  i=$(basename $d .diff)
  r=$(/verif/tools/try_mutant.sh $pid $d $out/${i}_demo.py 2>&1)
  echo "$pid $i | $(echo "$r" | grep -E 'demo on clean|demo with change|baseline:|check exit|check on restored|VIOLATION|patch does not' | tr '\n' ';' | cut -c1-400)"
done
