#!/bin/bash
# tools/ev_regress.sh <EV dir> <out-summary> <seeded-id> [...]  : apply seeded/<id>/patch.diff in $EV/repo, run the property's quick check of
# $EV/verif against it, re-run the recorded replay, restore.  Expect: exit 1, VIOLATION with a replay that reproduces.
EV=$1; sum=$2; shift 2
for id in "$@"; do
  d=/verif/seeded/$id; pid=$(python3 -c "import json; print(json.load(open('$d/meta.json'))['property'])")
  if python3 -c "import json,sys; sys.exit(0 if json.load(open('$d/meta.json')).get('retired') else 1)"; then echo "$id | retired" >> $sum; continue; fi
  cd $EV/repo; git checkout -q -- .
  p=$d/patch.diff; git apply --check $p 2>/dev/null || { alt=$(ls /verif/notes/*${id}_rebased*.diff /verif/notes/seeded_${id}_rebased.diff 2>/dev/null | head -1); [ -n "$alt" ] && p=$alt; }
  git apply $p 2>/dev/null || { echo "$id | patch does not apply" >> $sum; continue; }
  cd $EV/verif; PRYSM_REPO=$EV/repo nice ./run $pid quick > .work/reg_$id.log 2>&1; rc=$?
  v=$(grep -h '^VIOLATION' .work/reg_$id.log | head -1); rp=$(echo "$v" | sed -n 's/.*replay=\([^ ]*\).*/\1/p'); rr=-
  if [ -n "$rp" ] && [ -f "$rp" ]; then PRYSM_REPO=$EV/repo ./run --replay "$rp" > .work/regreplay_$id.log 2>&1; rr=$?; fi
  git -C $EV/repo checkout -q -- .
  echo "$id ($pid) | check exit $rc | replay exit $rr | $v | $(tail -1 .work/reg_$id.log | grep -o 'translated.*' | cut -c1-120)" >> $sum
done
cd $EV/verif; git checkout -q -- lean/PrysmVerif/Generated lean/PrysmVerif/Audit evidence 2>/dev/null
echo "STREAM-DONE $EV" >> $sum
