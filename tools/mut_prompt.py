#!/usr/bin/env python3
"""print the prompt for an independent mutation-seeding sub-agent (gets ONLY the property text and a scratch worktree)"""
import json, sys
pid, wt, k = sys.argv[1], sys.argv[2], (sys.argv[3] if len(sys.argv) > 3 else '3')
p = [json.loads(l) for l in open('/verif/properties.jsonl') if json.loads(l)['id'] == pid][0]
print(f"""You are testing a verification effort by seeding realistic bugs.  You have your own scratch git worktree of the
Python library prysm (numerical optics) at {wt} .  Work ONLY inside {wt} (do not read or write /verif or /repo;
do not look for any verification machinery — your changes must be independent of it).  Python is /venv/bin/python
(prysm's dependencies are installed; run things with `cd {wt} && /venv/bin/python ...` so that `import prysm`
picks up your worktree — check `prysm.__file__`).  The test suite is run with
`cd {wt} && /venv/bin/python -m pytest -q -p no:cacheprovider --timeout=900 --continue-on-collection-errors -x -q tests prysm 2>&1 | tail -5`
(29 tests fail on the untouched tree because they need a network download or numpy.trapz; ignore exactly those:
run the suite once BEFORE changing anything and save the list of failing test ids).

The semantic property under study:

id: {p['id']}
title: {p['title']}
statement: {p['statement']}
quantifier: {p['quantifier']['text']}
anchors (where the mechanism lives): {json.dumps(p['anchors'].get('mechanism', []))}

Task: produce {k} DIFFERENT changes to prysm's source, each of which (a) breaks this property, (b) still imports and
passes the existing test suite exactly as before (same set of failing tests as the untouched tree), and (c) needs something
specific to manifest — a particular parity / non-square shape / unusual parameter / multi-step sequence of operations /
two cooperating sites that each look fine alone — NOT something ordinary use would expose at once.  Make them
realistic (the kind of slip a maintainer could make in a refactor or "optimisation"), small, and different in kind
from one another (different functions or different mechanisms).  Do not merely revert a recent commit of the
repository's history.

For each change i = 1..{k} deliver, under {wt}_out/ (create it):
  m<i>.diff      `git diff` of the change against HEAD (one change per diff; reset the worktree between changes with
                 `git checkout -- .`)
  m<i>_demo.py   a small standalone program that exits 0 on the untouched tree and exits 1 (printing what is wrong) with
                 the change applied, demonstrating the violation of the property through prysm's public API
  m<i>.json      {{"property": "{pid}", "what": "<one sentence>", "needs": "<what it takes to manifest>", "files": [...]}}
Verify each yourself: demo passes without the change, fails with it, test suite result identical with it.
Leave the worktree clean (git checkout -- .) when done.  Final message: one line per change.""")
