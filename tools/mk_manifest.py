#!/venv/bin/python
"""(re)write MANIFEST.json from the per-property harness modules (harness/cXX.py: MANIFEST_ENTRY)."""
import importlib, json, os, sys
ROOT = os.path.dirname(os.path.dirname(os.path.abspath(__file__)))
sys.path.insert(0, ROOT)
props = [json.loads(l) for l in open(os.path.join(ROOT, 'properties.jsonl'))]
checks, na = [], []
for p in props:
    pid = p['id']
    path = os.path.join(ROOT, 'harness', f'{pid.lower()}.py')
    entry = None
    if os.path.exists(path):
        mod = importlib.import_module(f'harness.{pid.lower()}')
        entry = getattr(mod, 'MANIFEST_ENTRY', None)
    if entry is None:
        na.append({'property_id': pid, 'reason': 'check not built yet in this round (design in DESIGN.md section 4); '
                   'no claim is made until its model, theorems and correspondence run green'})
        continue
    checks.append({
        'property_id': pid,
        'quick_cmd': f'./run {pid} quick',
        'thorough_cmd': f'./run {pid} thorough',
        'evidence_file': f'evidence/{pid}.json',
        'replay_cmd_template': './run --replay {path}',
        'engine': 'lean4+translator+correspondence',
        'level_claimed': {'category': 'proof', 'text': entry['text'], 'design_ref': f'DESIGN.md section 4, {pid}'},
        'level_note': entry['note'],
        'technique': entry['technique'],
    })
for extra in (getattr(importlib.import_module('harness.na'), 'NOT_APPLICABLE', []) if os.path.exists(os.path.join(ROOT, 'harness', 'na.py')) else []):
    na = [x for x in na if x['property_id'] != extra['property_id']] + [extra]
man = {
    'version': 1,
    'setup_cmd': './setup.sh',
    'hooks': {
        'guard': 'PRYSM_VERIF',
        'enable': 'export PRYSM_VERIF=1 (set by ./run); no source hook is currently needed, the implementation is imported in-process from /repo',
        'baseline_off_cmd': 'env -u PRYSM_VERIF /venv/bin/python /verif/tools/baseline.py /repo',
        'source_commits': [],
        'add_only': True,
    },
    'engines': [{
        'name': 'lean4+translator+correspondence',
        'path': 'lean/ tools/ harness/',
        'serves_properties': [c['property_id'] for c in checks],
        'kind_free_text': 'Lean 4 theorems over hand-written executable models and over definitions regenerated from '
                          '/repo by a Python-ast translator on every run; correspondence check (Lean driver vs real prysm, '
                          'same inputs); failing-input search on the real code when anything is red',
    }],
    'checks': checks,
    'notes': 'Fix commits in /repo are listed in KNOWN_FINDINGS.txt (fixed: lines); see DESIGN.md.',
    'not_applicable': na,
}
json.dump(man, open(os.path.join(ROOT, 'MANIFEST.json'), 'w'), indent=1)
print(f'{len(checks)} checks, {len(na)} not claimed')
