#!/bin/bash
# tools/ev_all.sh <EV dir> <out-summary> <file> [<file> ...]   each file = /tmp/mut6/gN_out/Cxx_m<i>.diff
export EV=$1; sum=$2; shift 2
for d in "$@"; do
  b=$(basename $d .diff); pid=${b%%_*}; o=$(dirname $d)
  r=$(/verif/tools/ev_mutant.sh $pid $d $o/${b}_demo.py 2>&1)
  echo "$b | $(echo "$r" | grep -E 'demo on clean|demo with change|baseline:|check exit|replay on changed|VIOLATION|patch does not|not clean' | tr '\n' ';' | cut -c1-500)" >> $sum
done
echo "STREAM-DONE $EV" >> $sum
