"""translator items for C06 (backprop companions).

What is pulled out of the current source, and why:
  * the Q / shift arithmetic and the call wiring of focus/unfocus_fixed_sampling(_backprop) and of
    to_fpm_and_back(_backprop) (a small symbolic executor over the straight-line bodies, inlining the callees),
    the sign in front of the mask-and-back adjoint, whether the mask is conjugated, how babinet_backprop
    combines the two terms;
  * the slice-assignment statements of SpatialGradient2D (as data for the interpreter `Model.C06.sgApply`);
  * the closed-form expressions of the cost functions, the activation nodes, the softmax / Gumbel / encoder
    backprops, Wavefront.intensity_backprop / from_amp_and_phase_backprop_phase;
  * structural facts about mdft.dft2_backprop / idft2_backprop, sum_of_2d_modes_backprop, DM.render_backprop.
"""
import ast
from pyexpr2lean import (Gen, Tr, Untranslatable, load, get_def, find_assign, find_returns, find_calls,
                         call_arg, lean_rat, fn_to_lean)
from fractions import Fraction

M = 'Model.C06'


def canon_src(fn):
    """source text of a function with its LOCAL names (assigned inside the body, not parameters) renamed v0, v1, ... in order
    of first assignment, docstrings and comments dropped: recognisers that compare text are then blind to renamed locals"""
    import copy
    fn = copy.deepcopy(fn)
    params = {a.arg for a in fn.args.args}
    order = []
    for n in ast.walk(fn):
        pass
    class V(ast.NodeVisitor):
        def visit_Name(self, n):
            if isinstance(n.ctx, ast.Store) and n.id not in params and n.id not in order:
                order.append(n.id)
    for st in fn.body:          # statement order = assignment order
        V().visit(st)
    ren = {nm: f'v{k}' for k, nm in enumerate(order)}
    for n in ast.walk(fn):
        if isinstance(n, ast.Name) and n.id in ren:
            n.id = ren[n.id]
    fn.body = [st for st in fn.body if not (isinstance(st, ast.Expr) and isinstance(st.value, ast.Constant) and isinstance(st.value.value, str))]
    return ast.unparse(fn)


def fact3(g, name, source, node_fn, check):
    """a structural fact with three outcomes: check() -> True / False (positively recognised) or None
    (shape of the source not recognised: recorded as untranslatable, the hand model is assumed and the
    correspondence is widened) -- a harmless refactor must not turn into a false `false`."""
    def build():
        v = check()
        if v is None:
            raise Untranslatable('source shape not recognised')
        return f'def {name} : Bool := {"true" if v else "false"}'
    g.item(name, source, node_fn, build, f'def {name} : Bool := true')


# ------------------------------------------------------------------------------------------------
# symbolic executor for the straight-line propagation glue (rational arithmetic, per-axis pairs)
# ------------------------------------------------------------------------------------------------
class Sym:
    """values:  ('s', lean_term) scalar | ('p', (t0, t1)) per-axis pair | ('arr', tree) array | ('c', python_const)"""

    OPAQUE = {'Q_for_sampling': 'qForSampling'}   # calls emitted as applications of a generated definition

    def __init__(self, mod, env, inline=()):
        self.mod = mod
        self.env = dict(env)
        self.inline = set(inline)     # names of module-level functions that are executed symbolically when called
        self.calls = []               # records of mdft.* calls

    def bind(self, fn, e):
        params = [a.arg for a in fn.args.args]
        defaults = fn.args.defaults
        bound = {}
        for i, a in enumerate(e.args):
            bound[params[i]] = self.ev(a)
        for k in e.keywords:
            bound[k.arg] = self.ev(k.value)
        for p, d in zip(params[len(params) - len(defaults):], defaults):
            if p not in bound:
                bound[p] = Sym(self.mod, {}, self.inline).ev(d)
        missing = [p for p in params if p not in bound]
        if missing:
            raise Untranslatable(f'call {fn.name}: no value for {missing}')
        return params, bound

    # ---- expressions
    def ev(self, e):
        key = ast.unparse(e)
        if key in self.env:
            return self.env[key]
        if isinstance(e, ast.Constant):
            if isinstance(e.value, (int, float)) and not isinstance(e.value, bool):
                return ('s', lean_rat(Fraction(repr(e.value))))
            return ('c', e.value)
        if isinstance(e, ast.Name):
            raise Untranslatable(f'free name {e.id}')
        if isinstance(e, ast.Tuple) or isinstance(e, ast.List):
            vs = [self.ev(x) for x in e.elts]
            if len(vs) == 2 and all(v[0] == 's' for v in vs):
                return ('p', (vs[0][1], vs[1][1]))
            raise Untranslatable(f'tuple {key}')
        if isinstance(e, ast.Subscript):
            base = self.ev(e.value)
            if base[0] == 'p' and isinstance(e.slice, ast.Constant) and e.slice.value in (0, 1):
                return ('s', base[1][e.slice.value])
            raise Untranslatable(f'subscript {key}')
        if isinstance(e, ast.Attribute):
            if e.attr == 'shape':
                raise Untranslatable(f'unknown shape {key}')
            raise Untranslatable(f'attribute {key}')
        if isinstance(e, ast.UnaryOp) and isinstance(e.op, ast.USub):
            v = self.ev(e.operand)
            if v[0] == 's':
                return ('s', f'(-{v[1]})')
            if v[0] == 'arr':
                return ('arr', ('neg', v[1]))
            raise Untranslatable(f'negation of {key}')
        if isinstance(e, ast.BinOp):
            a, b = self.ev(e.left), self.ev(e.right)
            sym = {ast.Add: '+', ast.Sub: '-', ast.Mult: '*', ast.Div: '/'}.get(type(e.op))
            if sym is None:
                raise Untranslatable(f'operator in {key}')
            if a[0] == 's' and b[0] == 's':
                return ('s', f'({a[1]} {sym} {b[1]})')
            if a[0] == 'arr' and b[0] == 'arr' and sym == '*':
                return ('arr', ('mul', a[1], b[1]))
            raise Untranslatable(f'operands of {key}')
        if isinstance(e, (ast.ListComp, ast.GeneratorExp)):
            if len(e.generators) != 1 or e.generators[0].ifs or not isinstance(e.generators[0].target, ast.Name):
                raise Untranslatable(f'comprehension {key}')
            it = self.ev(e.generators[0].iter)
            if it[0] != 'p':
                raise Untranslatable(f'comprehension over non-pair {key}')
            out = []
            for comp in it[1]:
                sub = Sym(self.mod, {**self.env, e.generators[0].target.id: ('s', comp)}, self.inline)
                v = sub.ev(e.elt)
                if v[0] != 's':
                    raise Untranslatable(f'comprehension element {key}')
                out.append(v[1])
            return ('p', tuple(out))
        if isinstance(e, ast.Call):
            return self.call(e)
        raise Untranslatable(f'expression {key}')

    def call(self, e):
        f = ast.unparse(e.func)
        if f in ('tuple', 'list') and len(e.args) == 1:
            return self.ev(e.args[0])
        if f == 'max' and len(e.args) == 1:
            v = self.ev(e.args[0])
            if v[0] == 'p':
                return ('s', f'(max {v[1][0]} {v[1][1]})')
        if f.endswith('.conj') and not e.args:          # fpm.conj()
            v = self.ev(e.func.value)
            if v[0] == 'arr':
                return ('arr', ('conj', v[1]))
        if f in ('np.conj', 'np.conjugate') and len(e.args) == 1:
            v = self.ev(e.args[0])
            if v[0] == 'arr':
                return ('arr', ('conj', v[1]))
        if f.startswith('mdft.'):
            rec = {'func': f, 'args': [self.ev(a) for a in e.args],
                   'kw': {k.arg: self.ev(k.value) for k in e.keywords}}
            self.calls.append(rec)
            return ('arr', ('call', rec))
        if f in self.OPAQUE:
            params, bound = self.bind(get_def(self.mod, f), e)
            if any(bound[p][0] != 's' for p in params):
                raise Untranslatable(f'non-scalar argument of {f}')
            return ('s', '(' + self.OPAQUE[f] + ' ' + ' '.join(bound[p][1] for p in params) + ')')
        if f in self.inline:
            fn = get_def(self.mod, f)
            params, bound = self.bind(fn, e)
            env = dict(bound)
            for p, v in bound.items():
                if v[0] == 'arr':
                    env[p + '.shape'] = self.shape_of(v[1])
            sub = Sym(self.mod, env, self.inline)
            ret = sub.run(fn.body)
            self.calls.extend(sub.calls)
            return ret
        raise Untranslatable(f'call {ast.unparse(e)[:70]}')

    def shape_of(self, tree):
        """shape of an array tree (pair), from the names' shapes / mdft call semantics"""
        k = tree[0]
        if k == 'name':
            return self.env[tree[1] + '.shape']
        if k in ('neg', 'conj', 'condconj'):
            return self.shape_of(tree[1])
        if k == 'mul':
            return self.shape_of(tree[1])
        if k == 'call':
            rec = tree[1]
            f = rec['func']
            if f in ('mdft.dft2', 'mdft.idft2', 'czt.czt2', 'czt.iczt2'):
                return rec['kw'].get('samples_out') or rec['args'][2]
            if f == 'mdft.dft2_backprop':
                return rec['kw'].get('samples_in') or rec['args'][2]
            if f == 'mdft.idft2_backprop':
                return rec['kw'].get('samples_out') or rec['args'][2]
        raise Untranslatable(f'shape of {tree[0]}')

    # ---- conditions
    def static(self, t):
        """True / False when the test is decided by the configuration, None when it is data dependent"""
        s = ast.unparse(t)
        if isinstance(t, ast.Name) and self.env.get(t.id, ('?',))[0] == 'c':
            return bool(self.env[t.id][1])
        if s.startswith('not isinstance(') and s.endswith('Iterable)'):
            return False                                  # shapes / samples are given as tuples
        if s.startswith('isinstance(') and s.endswith(', Wavefront)'):
            return False                                  # masks are plain arrays
        if s.endswith(' is None'):
            v = self.env.get(s[:-8])
            return v is not None and v == ('c', None)
        if s.endswith(' is not None'):
            v = self.env.get(s[:-12])
            return not (v is not None and v == ('c', None))
        if isinstance(t, ast.Compare) and len(t.ops) == 1 and isinstance(t.ops[0], ast.Eq):
            a = self.env.get(ast.unparse(t.left))
            if a is not None and a[0] == 'c' and isinstance(t.comparators[0], ast.Constant):
                return a[1] == t.comparators[0].value
        return None

    def cond(self, t):
        if isinstance(t, ast.BoolOp):
            sym = ' ∧ ' if isinstance(t.op, ast.And) else ' ∨ '
            return '(' + sym.join(self.cond(v) for v in t.values) + ')'
        if isinstance(t, ast.Compare) and len(t.ops) == 1:
            sym = {ast.NotEq: '≠', ast.Eq: '=', ast.Lt: '<', ast.Gt: '>', ast.LtE: '≤', ast.GtE: '≥'}.get(type(t.ops[0]))
            a, b = self.ev(t.left), self.ev(t.comparators[0])
            if sym and a[0] == 's' and b[0] == 's':
                return f'({a[1]} {sym} {b[1]})'
        raise Untranslatable(f'condition {ast.unparse(t)}')

    # ---- statements
    def run(self, stmts):
        for s in stmts:
            r = self.step(s)
            if r is not None:
                return r
        return None

    def assign(self, name, v):
        self.env[name] = v
        if v[0] == 'arr':
            try:
                self.env[name + '.shape'] = self.shape_of(v[1])
            except (Untranslatable, KeyError):
                self.env.pop(name + '.shape', None)

    def step(self, s):
        if isinstance(s, ast.Expr) and isinstance(s.value, ast.Constant):
            return None
        if isinstance(s, ast.Pass):
            return None
        if isinstance(s, ast.Return):
            if isinstance(s.value, ast.Tuple):
                return self.ev(s.value.elts[0])
            return self.ev(s.value)
        if isinstance(s, ast.Raise):
            raise Untranslatable('raise reached')
        if isinstance(s, ast.Assign) and len(s.targets) == 1 and isinstance(s.targets[0], ast.Name):
            self.assign(s.targets[0].id, self.ev(s.value))
            return None
        if isinstance(s, ast.AugAssign) and isinstance(s.target, ast.Name):
            v = self.ev(ast.BinOp(left=ast.Name(id=s.target.id, ctx=ast.Load()), op=s.op, right=s.value))
            self.assign(s.target.id, v)
            return None
        if isinstance(s, ast.If):
            st = self.static(s.test)
            if st is True:
                return self.run(s.body)
            if st is False:
                return self.run(s.orelse)
            t = ast.unparse(s.test)
            if t.startswith('np.iscomplexobj('):
                # only shape accepted: `if np.iscomplexobj(X): X = X.conj()` -> conditional conjugation of X
                arg = t[len('np.iscomplexobj('):-1]
                ok = (len(s.body) == 1 and not s.orelse and isinstance(s.body[0], ast.Assign)
                      and ast.unparse(s.body[0].targets[0]) == arg)
                if arg in self.env and self.env[arg][0] == 'arr' and ok:
                    sub = Sym(self.mod, self.env, self.inline)
                    sub.step(s.body[0])
                    new = sub.env[arg]
                    if new == ('arr', ('conj', self.env[arg][1])):
                        self.assign(arg, ('arr', ('condconj', self.env[arg][1])))
                        return None
                    raise Untranslatable(f'iscomplexobj branch does something else: {ast.unparse(s.body[0])}')
                # the test is applied to something that is not the array (e.g. its dtype): never true in NumPy
                if arg.endswith('.dtype'):
                    return None
                raise Untranslatable(f'iscomplexobj test {t}')
            # data-dependent scalar condition: both branches may only assign; merge with if-then-else terms
            c = self.cond(s.test)
            a = Sym(self.mod, self.env, self.inline)
            b = Sym(self.mod, self.env, self.inline)
            if a.run(s.body) is not None or b.run(s.orelse) is not None:
                raise Untranslatable('return inside a data-dependent branch')
            for name in set(a.env) | set(b.env):
                va, vb = a.env.get(name), b.env.get(name)
                if va == vb:
                    if va is not None:
                        self.env[name] = va
                    continue
                if va is None or vb is None or va[0] != vb[0]:
                    raise Untranslatable(f'{name} has different kinds in the two branches')
                if va[0] == 's':
                    self.env[name] = ('s', f'(if {c} then {va[1]} else {vb[1]})')
                elif va[0] == 'p':
                    self.env[name] = ('p', tuple(f'(if {c} then {x} else {y})' for x, y in zip(va[1], vb[1])))
                else:
                    raise Untranslatable(f'{name}: array differs between branches')
            return None
        raise Untranslatable(f'statement {ast.unparse(s)[:60]}')


def _pair(v, what):
    if v[0] == 'p':
        return v[1]
    if v[0] == 's':
        return (v[1], v[1])          # MatrixDFTExecutor._key broadcasts a scalar Q / shift to both axes
    raise Untranslatable(f'{what} is not a scalar or pair')


def _mdft_call(tree):
    if tree[0] != 'call':
        raise Untranslatable(f'expected an mdft call, found {tree[0]}')
    return tree[1]


def _leg(rec, ary_kw_names=('ary', 'fbar')):
    """(func, array tree, Q pair, samples pair, shift pair) of an mdft call record"""
    args, kw = rec['args'], rec['kw']
    ary = args[0] if args else next(kw[k] for k in ary_kw_names if k in kw)
    Q = args[1] if len(args) > 1 else kw['Q']
    samp = args[2] if len(args) > 2 else next(kw[k] for k in ('samples_out', 'samples_in') if k in kw)
    shift = args[3] if len(args) > 3 else kw.get('shift', ('p', (lean_rat(0), lean_rat(0))))
    sampkw = None if len(args) > 2 else next(k for k in ('samples_out', 'samples_in') if k in kw)
    return rec['func'], ary[1], _pair(Q, 'Q'), _pair(samp, 'samples'), _pair(shift, 'shift'), sampkw


RAT7 = '(a0 a1 b0 b1 inputDx propDist wavelength outputDx sx sy : Rat)'


def _defs(prefix, Q, shift, binder=RAT7):
    return (f'def {prefix}Qy {binder} : Rat := {Q[0]}\n'
            f'def {prefix}Qx {binder} : Rat := {Q[1]}\n'
            f'def {prefix}ShiftX {binder} : Rat := {shift[0]}\n'
            f'def {prefix}ShiftY {binder} : Rat := {shift[1]}\n')


def fixed_sampling_items(g, pr):
    """focus/unfocus_fixed_sampling and their backprops, as functions of
    (a0,a1) = shape of the forward INPUT, (b0,b1) = shape of the forward OUTPUT."""
    def qfs_def():
        fn = get_def(pr, 'Q_for_sampling')
        return fn_to_lean(fn, 'qForSampling', ['input_diameter', 'prop_dist', 'wavelength', 'output_dx'], 'Rat', mode='rat')
    g.item('Q_for_sampling', 'prysm/propagation.py:Q_for_sampling', lambda: get_def(pr, 'Q_for_sampling'), qfs_def,
           f'def qForSampling (input_diameter prop_dist wavelength output_dx : Rat) : Rat := {M}.qForSampling input_diameter prop_dist wavelength output_dx')

    base = {'input_dx': ('s', 'inputDx'), 'prop_dist': ('s', 'propDist'), 'wavelength': ('s', 'wavelength'),
            'output_dx': ('s', 'outputDx'), 'shift': ('p', ('sx', 'sy')), 'method': ('c', 'mdft')}

    def run(fname, fwd):
        fn = get_def(pr, fname)
        env = dict(base)
        env['wavefunction'] = ('arr', ('name', 'wavefunction'))
        if fwd:
            env['wavefunction.shape'] = ('p', ('a0', 'a1'))
            env['output_samples'] = ('p', ('b0', 'b1'))
        else:
            env['wavefunction.shape'] = ('p', ('b0', 'b1'))
            env['output_samples'] = ('p', ('a0', 'a1'))
        sx = Sym(pr, env)
        ret = sx.run(fn.body)
        if ret is None or ret[0] != 'arr':
            raise Untranslatable(f'{fname} does not return an array')
        return _leg(_mdft_call(ret[1]))

    specs = [('ffsFwd', 'focus_fixed_sampling', True, 'mdft.dft2', 'samples_out', 'b'),
             ('ffsBack', 'focus_fixed_sampling_backprop', False, 'mdft.dft2_backprop', 'samples_in', 'a'),
             ('ufsFwd', 'unfocus_fixed_sampling', True, 'mdft.idft2', 'samples_out', 'b'),
             ('ufsBack', 'unfocus_fixed_sampling_backprop', False, 'mdft.idft2_backprop', 'samples_out', 'a')]
    for prefix, fname, fwd, want_func, want_kw, want_s in specs:
        def build(prefix=prefix, fname=fname, fwd=fwd, want_func=want_func, want_kw=want_kw, want_s=want_s):
            func, ary, Q, samp, shift, sampkw = run(fname, fwd)
            wired = (func == want_func and ary == ('name', 'wavefunction') and samp == (want_s + '0', want_s + '1')
                     and sampkw in (want_kw, None))
            return _defs(prefix, Q, shift) + f'def {prefix}Wired : Bool := {"true" if wired else "false"}\n'
        fb = ''.join(f'def {prefix}{nm} {RAT7} : Rat := {M}.fixedQ {s} inputDx propDist wavelength outputDx\n'
                     for nm, s in (('Qy', 'a0'), ('Qx', 'a1'))) + \
            f'def {prefix}ShiftX {RAT7} : Rat := (if ((sx ≠ (0 : Rat)) ∨ (sy ≠ (0 : Rat))) then (sx / outputDx) else sx)\ndef {prefix}ShiftY {RAT7} : Rat := (if ((sx ≠ (0 : Rat)) ∨ (sy ≠ (0 : Rat))) then (sy / outputDx) else sy)\n' \
            f'def {prefix}Wired : Bool := true\n'
        g.item(fname, f'prysm/propagation.py:{fname}', lambda fname=fname: get_def(pr, fname), build, fb)


FPM_BINDER = '(p0 p1 m0 m1 dx efl wavelength fpmDx sx sy : Rat)'


def _sign_and_core(tree):
    """strip negations: returns (sign, tree)"""
    sign = 1
    while tree[0] == 'neg':
        sign, tree = -sign, tree[1]
    return sign, tree


def fpm_items(g, pr):
    inline = ('focus_fixed_sampling', 'unfocus_fixed_sampling', 'focus_fixed_sampling_backprop',
              'unfocus_fixed_sampling_backprop')

    def run(fname):
        fn = get_def(pr, fname)
        env = {'wavefunction': ('arr', ('name', 'wavefunction')), 'wavefunction.shape': ('p', ('p0', 'p1')),
               'fpm': ('arr', ('name', 'fpm')), 'fpm.shape': ('p', ('m0', 'm1')),
               'dx': ('s', 'dx'), 'efl': ('s', 'efl'), 'wavelength': ('s', 'wavelength'), 'fpm_dx': ('s', 'fpmDx'),
               'shift': ('p', ('sx', 'sy')), 'method': ('c', 'mdft'), 'return_more': ('c', False)}
        sx = Sym(pr, env, inline)
        return sx.run(fn.body)

    def legs(fname):
        ret = run(fname)
        if ret is None or ret[0] != 'arr':
            raise Untranslatable(f'{fname} does not return an array')
        s_out, outer = _sign_and_core(ret[1])
        f2, ary2, Q2, samp2, shift2, _ = _leg(_mdft_call(outer))
        s_mid, mid = _sign_and_core(ary2)
        if mid[0] != 'mul':
            raise Untranslatable('argument of the second transform is not (field * mask)')
        sa, A = _sign_and_core(mid[1])
        sb, B = _sign_and_core(mid[2])
        # which factor is the mask?
        def is_mask(t):
            while t[0] in ('conj', 'condconj'):
                t = t[1]
            return t == ('name', 'fpm')
        if is_mask(B) and not is_mask(A):
            field, mask = A, B
        elif is_mask(A) and not is_mask(B):
            field, mask = B, A
        else:
            raise Untranslatable('cannot tell the mask from the field')
        s_in, inner = _sign_and_core(field)
        f1, ary1, Q1, samp1, shift1, _ = _leg(_mdft_call(inner))
        s0, src = _sign_and_core(ary1)
        sign = s_out * s_mid * sa * sb * s_in * s0
        conj = {'name': 'never', 'condconj': 'iff_complex', 'conj': 'always'}[mask[0]]
        return dict(sign=sign, conj=conj, first=(f1, src, Q1, samp1, shift1), second=(f2, Q2, samp2, shift2))

    def fwd():
        r = legs('to_fpm_and_back')
        f1, src, Q1, samp1, shift1 = r['first']
        f2, Q2, samp2, shift2 = r['second']
        wired = (f1 == 'mdft.dft2' and f2 == 'mdft.idft2' and src == ('name', 'wavefunction')
                 and samp1 == ('m0', 'm1') and samp2 == ('p0', 'p1') and r['conj'] == 'never' and r['sign'] == 1)
        return (_defs('fpmFwdOut', Q1, shift1, FPM_BINDER) + _defs('fpmFwdRet', Q2, shift2, FPM_BINDER)
                + f'def fpmFwdWired : Bool := {"true" if wired else "false"}\n')
    fb_f = (''.join(f'def fpmFwdOut{nm} {FPM_BINDER} : Rat := {t}\n' for nm, t in
                    (('Qy', f'{M}.fixedQ p0 dx efl wavelength fpmDx'), ('Qx', f'{M}.fixedQ p1 dx efl wavelength fpmDx'),
                     ('ShiftX', '(if ((sx ≠ (0 : Rat)) ∨ (sy ≠ (0 : Rat))) then (sx / fpmDx) else sx)'), ('ShiftY', '(if ((sx ≠ (0 : Rat)) ∨ (sy ≠ (0 : Rat))) then (sy / fpmDx) else sy)')))
            + ''.join(f'def fpmFwdRet{nm} {FPM_BINDER} : Rat := {t}\n' for nm, t in
                      (('Qy', f'{M}.fixedQ m0 fpmDx efl wavelength dx'), ('Qx', f'{M}.fixedQ m1 fpmDx efl wavelength dx'),
                       ('ShiftX', '(if ((((sx * dx) / fpmDx) ≠ (0 : Rat)) ∨ (((sy * dx) / fpmDx) ≠ (0 : Rat))) then (((sx * dx) / fpmDx) / dx) else ((sx * dx) / fpmDx))'), ('ShiftY', '(if ((((sx * dx) / fpmDx) ≠ (0 : Rat)) ∨ (((sy * dx) / fpmDx) ≠ (0 : Rat))) then (((sy * dx) / fpmDx) / dx) else ((sy * dx) / fpmDx))')))
            + 'def fpmFwdWired : Bool := true\n')
    g.item('to_fpm_and_back', 'prysm/propagation.py:to_fpm_and_back', lambda: get_def(pr, 'to_fpm_and_back'), fwd, fb_f)

    def back():
        r = legs('to_fpm_and_back_backprop')
        f1, src, Q1, samp1, shift1 = r['first']       # executed first: adjoint of the RETURN leg
        f2, Q2, samp2, shift2 = r['second']           # executed second: adjoint of the OUTWARD leg
        wired = (f1 == 'mdft.idft2_backprop' and f2 == 'mdft.dft2_backprop' and src == ('name', 'wavefunction')
                 and samp1 == ('m0', 'm1') and samp2 == ('p0', 'p1'))
        return (_defs('fpmBackRet', Q1, shift1, FPM_BINDER) + _defs('fpmBackOut', Q2, shift2, FPM_BINDER)
                + f'def fpmBackWired : Bool := {"true" if wired else "false"}\n'
                + f'def fpmBackSign : Int := {r["sign"]}\n'
                + f'def fpmBackConjMaskIffComplex : Bool := {"true" if r["conj"] in ("iff_complex", "always") else "false"}\n')
    fb_b = (fb_f.replace('fpmFwd', 'fpmBack') + 'def fpmBackSign : Int := 1\ndef fpmBackConjMaskIffComplex : Bool := true\n')
    g.item('to_fpm_and_back_backprop', 'prysm/propagation.py:to_fpm_and_back_backprop',
           lambda: get_def(pr, 'to_fpm_and_back_backprop'), back, fb_b)


def babinet_items(g, pr):
    def facts():
        fwd = get_def(pr, 'Wavefront.babinet')
        bk = get_def(pr, 'Wavefront.babinet_backprop')
        src_f, src_b = ast.unparse(fwd), ast.unparse(bk)
        one_minus_f = any(isinstance(n, ast.Assign) and ast.unparse(n) == 'fpm = 1 - fpm' for n in fwd.body)
        one_minus_b = any(isinstance(n, ast.Assign) and ast.unparse(n) == 'fpm = 1 - fpm' for n in bk.body)
        fwd_form = ('field_at_lyot = self.data - field.data' in src_f and 'field_after_lyot = lyot * field_at_lyot' in src_f)
        # what is handed to the mask-and-back adjoint (`cbar`), by SYMBOLIC EXECUTION of the body under the three kinds of Lyot stop
        # (absent / real array / complex array): if/else, default-then-override, early assignment ... all give the same term
        def cbar_term(kind):
            import copy
            static = {'isinstance(fpm, Wavefront)': False, 'isinstance(lyot, Wavefront)': False,
                      'lyot is not None': kind != 'none', 'lyot is None': kind == 'none',
                      'np.iscomplexobj(lyot)': kind == 'complex', 'np.isrealobj(lyot)': kind == 'real'}
            env = {}

            def subst(e):
                class S(ast.NodeTransformer):
                    def visit_Name(self, n):
                        return copy.deepcopy(env[n.id]) if (isinstance(n.ctx, ast.Load) and n.id in env) else n
                return S().visit(copy.deepcopy(e))

            def test(t):
                if isinstance(t, ast.UnaryOp) and isinstance(t.op, ast.Not):
                    return not test(t.operand)
                if isinstance(t, ast.BoolOp):
                    vs = [test(v) for v in t.values]
                    return all(vs) if isinstance(t.op, ast.And) else any(vs)
                k = ast.unparse(t)
                if k not in static:
                    raise Untranslatable(f'babinet_backprop branches on {k}')
                return static[k]

            def run(stmts):
                for st in stmts:
                    if isinstance(st, ast.If):
                        run(st.body if test(st.test) else st.orelse)
                    elif isinstance(st, ast.Assign) and len(st.targets) == 1 and isinstance(st.targets[0], ast.Name):
                        env[st.targets[0].id] = subst(st.value)
                    elif isinstance(st, ast.AugAssign) and isinstance(st.target, ast.Name):
                        cur = env.get(st.target.id, ast.Name(id=st.target.id, ctx=ast.Load()))
                        env[st.target.id] = ast.BinOp(left=copy.deepcopy(cur), op=st.op, right=subst(st.value))
            run(bk.body)
            call = find_calls(bk, 'Wavefront')
            # the array wrapped for the mask-and-back adjoint: first argument of the Wavefront(...) built before that call
            tgt = None
            for n in ast.walk(bk):
                if isinstance(n, ast.Assign) and isinstance(n.value, ast.Call) and ast.unparse(n.value.func) == 'Wavefront' and n.value.args:
                    tgt = n.value.args[0]
            if tgt is None:
                raise Untranslatable('no Wavefront(cbar, ...) handed to the mask-and-back adjoint')
            e = env.get(tgt.id) if isinstance(tgt, ast.Name) else None
            if e is None:
                raise Untranslatable('cbar not assigned by recognised statements')

            def tr(x):
                u = ast.unparse(x)
                if u == 'self.data':
                    return 'd'
                if u == 'lyot':
                    if kind == 'none':
                        raise Untranslatable('lyot used although absent')
                    return 'L'
                if isinstance(x, ast.Constant) and isinstance(x.value, int) and not isinstance(x.value, bool):
                    return f'(({x.value} : Int) : C)'
                if isinstance(x, ast.BinOp) and type(x.op) in (ast.Mult, ast.Add, ast.Sub):
                    return '(' + tr(x.left) + ' ' + {ast.Mult: '*', ast.Add: '+', ast.Sub: '-'}[type(x.op)] + ' ' + tr(x.right) + ')'
                if isinstance(x, ast.Call):
                    f = ast.unparse(x.func)
                    if f in ('np.conj', 'np.conjugate') and len(x.args) == 1:
                        return f'(conj {tr(x.args[0])})'
                    if isinstance(x.func, ast.Attribute) and x.func.attr in ('conj', 'conjugate') and not x.args:
                        return f'(conj {tr(x.func.value)})'
                raise Untranslatable(f'cbar expression {u[:60]}')
            return tr(e)
        CB = '{C : Type} [Mul C] [Add C] [Sub C] [IntCast C] (conj : C → C) (d L : C) : C'
        cbar_defs = (f'def babinetBackCbarNone {CB} := {cbar_term("none")}\n'
                     f'def babinetBackCbarReal {CB} := {cbar_term("real")}\n'
                     f'def babinetBackCbarComplex {CB} := {cbar_term("complex")}\n')
        # the adjoint of to_fpm_and_back is applied to cbar, with the same arguments as the forward call
        calls = find_calls(bk, 'cbarW.to_fpm_and_back_backprop')
        fcalls = find_calls(fwd, 'self.to_fpm_and_back')
        def kws(c):
            return {k.arg: ast.unparse(k.value) for k in c.keywords if k.arg != 'return_more'}
        if len(calls) != 1 or len(fcalls) < 1 or calls[0].args or any(c.args for c in fcalls):
            raise Untranslatable('call of the mask-and-back adjoint not in the recognised (keyword) shape')
        same_args = all(kws(c) == kws(calls[0]) for c in fcalls)
        if not same_args:
            plain = lambda v: v.replace('_', '').replace('.', '').isalnum()
            diff_vals = [v for c in fcalls for k_, v in kws(c).items() if kws(calls[0]).get(k_) != v] + \
                        [v for k_, v in kws(calls[0]).items() if any(kws(c).get(k_) != v for c in fcalls)]
            if not all(plain(v) for v in diff_vals):
                raise Untranslatable('arguments of the mask-and-back calls differ by expressions this recogniser cannot compare')
        if not (one_minus_f and one_minus_b):
            raise Untranslatable('`fpm = 1 - fpm` not found as a statement on both sides')
        if not fwd_form:
            raise Untranslatable('forward babinet not in the recognised shape')
        # how the two terms are combined
        coef = None
        for n in bk.body:
            if isinstance(n, ast.AugAssign) and ast.unparse(n.target) == 'abar.data' and ast.unparse(n.value) == 'cbar':
                if isinstance(n.op, ast.Add):
                    coef = 1
            if isinstance(n, ast.Assign) and ast.unparse(n.targets[0]) == 'abar.data' and isinstance(n.value, ast.BinOp):
                l, r = ast.unparse(n.value.left), ast.unparse(n.value.right)
                if isinstance(n.value.op, ast.Sub) and (l, r) == ('cbar', 'abar.data'):
                    coef = -1
                if isinstance(n.value.op, ast.Add) and {l, r} == {'cbar', 'abar.data'}:
                    coef = 1
        if coef is None:
            raise Untranslatable('cannot read how babinet_backprop combines cbar and the mask-and-back adjoint')
        rets = [ast.unparse(r) for r in find_returns(bk)]
        if rets != ['abar']:
            raise Untranslatable('babinet_backprop does not return abar')
        b = lambda x: 'true' if x else 'false'
        return (f'def babinetBackCoef : Int := {coef}\n'
                f'def babinetMaskIsOneMinusInBoth : Bool := {b(one_minus_f and one_minus_b)}\n'
                f'def babinetFwdIsLyotTimesDataMinusField : Bool := {b(fwd_form)}\n'
                + cbar_defs +
                f'def babinetBackSameCallArgs : Bool := {b(same_args)}\n')
    g.item('babinet_backprop', 'prysm/propagation.py:Wavefront.babinet_backprop',
           lambda: get_def(pr, 'Wavefront.babinet_backprop'), facts,
           'def babinetBackCoef : Int := -1\ndef babinetMaskIsOneMinusInBoth : Bool := true\n'
           'def babinetFwdIsLyotTimesDataMinusField : Bool := true\n'
           'def babinetBackCbarNone {C : Type} [Mul C] [Add C] [Sub C] [IntCast C] (conj : C → C) (d L : C) : C := d\n'
           'def babinetBackCbarReal {C : Type} [Mul C] [Add C] [Sub C] [IntCast C] (conj : C → C) (d L : C) : C := (d * L)\n'
           'def babinetBackCbarComplex {C : Type} [Mul C] [Add C] [Sub C] [IntCast C] (conj : C → C) (d L : C) : C := (d * (conj L))\n'
           'def babinetBackSameCallArgs : Bool := true\n')


def spatial_gradient_items(g, op):
    def one(method, lean):
        fn = get_def(op, f'SpatialGradient2D.{method}')
        arg = fn.args.args[1].arg
        # the extent variable: whatever local is assigned `<arg>.shape[k]` (its name does not matter)
        ext = [(st.targets[0].id, st.value) for st in fn.body
               if isinstance(st, ast.Assign) and len(st.targets) == 1 and isinstance(st.targets[0], ast.Name)
               and isinstance(st.value, ast.Subscript) and ast.unparse(st.value.value) == f'{arg}.shape'
               and isinstance(st.value.slice, ast.Constant) and st.value.slice.value in (0, 1)]
        if len(ext) != 1:
            raise Untranslatable('no unique extent variable = <arg>.shape[k]')
        endname, end = ext[0]
        end_axis = end.slice.value
        # the output variable: whatever local is assigned np.zeros_like(<arg>)
        outs = [st.targets[0].id for st in fn.body
                if isinstance(st, ast.Assign) and len(st.targets) == 1 and isinstance(st.targets[0], ast.Name)
                and ast.unparse(st.value) == f'np.zeros_like({arg})']
        if len(outs) != 1:
            raise Untranslatable('no unique zero-initialised output array')
        outname = outs[0]
        tr = Tr({endname: 'e'})
        slices = {}
        views = {}          # local name -> terms: a hoisted (combination of) slice(s) of the INPUT array, which is never written
        upds = []
        axes = set()
        zero_init = False

        def sl(node):
            """subscript `[:, S]` / `[S, :]` -> (axis, lo, hi)"""
            if not (isinstance(node, ast.Tuple) and len(node.elts) == 2):
                raise Untranslatable(f'index {ast.unparse(node)}')
            full = [isinstance(x, ast.Slice) and x.lower is None and x.upper is None and x.step is None for x in node.elts]
            if full == [True, False]:
                ax, s_ = 1, node.elts[1]
            elif full == [False, True]:
                ax, s_ = 0, node.elts[0]
            else:
                raise Untranslatable(f'index {ast.unparse(node)}')
            if isinstance(s_, ast.Name) and s_.id in slices:
                lo, hi = slices[s_.id]
            elif isinstance(s_, ast.Slice) and s_.step is None and s_.lower is not None and s_.upper is not None:
                lo, hi = tr.expr(s_.lower), tr.expr(s_.upper)
            else:
                raise Untranslatable(f'slice {ast.unparse(s_)}')
            return ax, lo, hi

        def terms(node, sign):
            if isinstance(node, ast.BinOp) and isinstance(node.op, (ast.Add, ast.Sub)):
                return terms(node.left, sign) + terms(node.right, sign if isinstance(node.op, ast.Add) else -sign)
            if isinstance(node, ast.UnaryOp) and isinstance(node.op, ast.USub):
                return terms(node.operand, -sign)
            if isinstance(node, ast.Subscript) and ast.unparse(node.value) == arg:
                ax, lo, hi = sl(node.slice)
                axes.add(ax)
                return [(sign, lo, hi)]
            if isinstance(node, ast.Name) and node.id in views:
                return [(sign * sg, lo, hi) for sg, lo, hi in views[node.id]]
            raise Untranslatable(f'right-hand side {ast.unparse(node)}')

        for st in fn.body:
            if isinstance(st, ast.Expr) and isinstance(st.value, ast.Constant):
                continue
            if isinstance(st, ast.Assert):
                continue
            if isinstance(st, ast.Return):
                if ast.unparse(st.value) != outname:
                    raise Untranslatable('does not return the output array')
                continue
            if isinstance(st, ast.Assign) and isinstance(st.targets[0], ast.Name):
                nm = st.targets[0].id
                if nm == endname:
                    continue
                if nm == outname:
                    zero_init = True
                    continue
                if isinstance(st.value, ast.Call) and ast.unparse(st.value.func) == 'slice' and len(st.value.args) == 2:
                    slices[nm] = (tr.expr(st.value.args[0]), tr.expr(st.value.args[1]))
                    continue
                if nm not in (arg, outname, endname) and nm not in slices:
                    views[nm] = terms(st.value, 1)      # raises Untranslatable unless a combination of slices of the input
                    continue
                raise Untranslatable(f'statement {ast.unparse(st)}')
            tgt = st.targets[0] if isinstance(st, ast.Assign) else st.target if isinstance(st, ast.AugAssign) else None
            if tgt is not None and isinstance(tgt, ast.Subscript) and ast.unparse(tgt.value) == outname:
                ax, lo, hi = sl(tgt.slice)
                axes.add(ax)
                opc = 0 if isinstance(st, ast.Assign) else 1 if isinstance(st.op, ast.Add) else -1 if isinstance(st.op, ast.Sub) else None
                if opc is None:
                    raise Untranslatable(f'statement {ast.unparse(st)}')
                upds.append((opc, lo, hi, terms(st.value, 1)))
                continue
            raise Untranslatable(f'statement {ast.unparse(st)}')
        if not zero_init or len(axes) != 1:
            raise Untranslatable('mixed axes or no zero initialisation')
        def i(k):
            return f'({k} : Int)' if k >= 0 else f'(-{-k} : Int)'
        items = ', '.join('⟨%s, %s, %s, [%s]⟩' % (i(o), lo, hi, ', '.join(f'({i(sg)}, {a}, {b})' for sg, a, b in ts))
                          for o, lo, hi, ts in upds)
        return (f'def {lean}EndAxis : Nat := {end_axis}\n'
                f'def {lean}SliceAxis : Nat := {axes.pop()}\n'
                f'def {lean} (e : Int) : List {M}.SgUpd := [{items}]\n')

    fwd_fb = '[⟨(0 : Int), (1 : Int), (e - (1 : Int)), [((1 : Int), (2 : Int), e), ((-1 : Int), (1 : Int), (e - (1 : Int)))]⟩]'
    bk_fb = ('[⟨(1 : Int), (2 : Int), e, [((1 : Int), (1 : Int), (e - (1 : Int)))]⟩, '
             '⟨(-1 : Int), (1 : Int), (e - (1 : Int)), [((1 : Int), (1 : Int), (e - (1 : Int)))]⟩]')
    for method, lean, ax, fb in (('forward_x', 'sgForwardX', 1, fwd_fb), ('backprop_x', 'sgBackpropX', 1, bk_fb),
                                 ('forward_y', 'sgForwardY', 0, fwd_fb), ('backprop_y', 'sgBackpropY', 0, bk_fb)):
        g.item(f'SpatialGradient2D.{method}', f'prysm/x/optym/operators.py:SpatialGradient2D.{method}',
               lambda method=method: get_def(op, f'SpatialGradient2D.{method}'),
               lambda method=method, lean=lean: one(method, lean),
               f'def {lean}EndAxis : Nat := {ax}\ndef {lean}SliceAxis : Nat := {ax}\n'
               f'def {lean} (e : Int) : List {M}.SgUpd := {fb}\n')


# ------------------------------------------------------------------------------------------------
# array-expression translator for the optimisation-toolkit nodes (generic scalar K with [Num K])
# ------------------------------------------------------------------------------------------------
def _num(v):
    fr = Fraction(repr(v)) if isinstance(v, float) else Fraction(v)
    if fr.denominator == 1:
        return f'(Num.ofInt ({fr.numerator}))'
    return f'(Num.ofFrac ({fr.numerator}) {fr.denominator})'


class VecTr:
    """values: ('s', term) scalar | ('v', body) vector of `n` entries, `body` is a term in the index `i`
    funcs:  callee text -> python callable(list of values) -> value
    Shape-only operations (reshape, broadcast_to, newaxis subscripts) are the identity here; the subscripts
    met are recorded in `self.subscripts` so that the caller can check them."""

    def __init__(self, env, funcs=None, static=None):
        self.env = dict(env)
        self.funcs = dict(funcs or {})
        self.static_tests = dict(static or {})
        self.subscripts = []
        self.lets = []          # (lean name, type, term) in order
        self._n = {}

    def bind_name(self, name, v):
        k = self._n.get(name, 0)
        self._n[name] = k + 1
        ln = f'{name}_' if k == 0 else f'{name}_{k}'
        if v[0] == 's':
            self.lets.append(f'let {ln} : K := {v[1]}')
            self.env[name] = ('s', ln)
        else:
            self.lets.append(f'let {ln} : Nat → K := fun i => {v[1]}')
            self.env[name] = ('v', f'({ln} i)')

    def prefix(self):
        return ''.join('  ' + l + '\n' for l in self.lets)

    def lift(self, v):
        return v[1]

    def ev(self, e):
        key = ast.unparse(e)
        if key in self.env:
            return self.env[key]
        if isinstance(e, ast.Constant) and isinstance(e.value, (int, float)) and not isinstance(e.value, bool):
            return ('s', _num(e.value))
        if isinstance(e, ast.Name):
            raise Untranslatable(f'free name {e.id}')
        if isinstance(e, ast.UnaryOp) and isinstance(e.op, ast.USub):
            if isinstance(e.operand, ast.Constant) and isinstance(e.operand.value, (int, float)):
                return ('s', _num(-e.operand.value))
            v = self.ev(e.operand)
            return (v[0], f'(-{v[1]})')
        if isinstance(e, ast.BinOp):
            if isinstance(e.op, ast.Pow):
                if isinstance(e.right, ast.Constant) and isinstance(e.right.value, int) and e.right.value >= 0:
                    v = self.ev(e.left)
                    return (v[0], f'(Num.npow {v[1]} {e.right.value})')
                raise Untranslatable(f'power {key}')
            sym = {ast.Add: '+', ast.Sub: '-', ast.Mult: '*', ast.Div: '/'}.get(type(e.op))
            if sym is None:
                raise Untranslatable(f'operator {key}')
            a, b = self.ev(e.left), self.ev(e.right)
            kind = 'v' if 'v' in (a[0], b[0]) else 's'
            return (kind, f'({a[1]} {sym} {b[1]})')
        if isinstance(e, ast.Subscript):
            self.subscripts.append((ast.unparse(e.value), ast.unparse(e.slice)))
            return self.ev(e.value)
        if isinstance(e, ast.Attribute):
            if e.attr == 'size':
                v = self.ev(e.value)
                if v[0] == 'v':
                    return ('s', '(Num.ofInt (n : Int))')
            raise Untranslatable(f'attribute {key}')
        if isinstance(e, ast.Call):
            f = ast.unparse(e.func)
            if f in self.funcs:
                return self.funcs[f]([self.ev(a) for a in e.args])
            if isinstance(e.func, ast.Attribute) and e.func.attr in ('sum', 'mean') and not e.args \
                    and all(k.arg == 'axis' and ast.unparse(k.value) in ('-1', '1') for k in e.keywords):
                v = self.ev(e.func.value)
                if v[0] != 'v':
                    raise Untranslatable(f'{e.func.attr} of a scalar: {key}')
                tot = f'(Num.sumTo n (fun i => {v[1]}))'
                return ('s', tot if e.func.attr == 'sum' else f'({tot} / (Num.ofInt (n : Int)))')
            if isinstance(e.func, ast.Attribute) and e.func.attr == 'reshape':
                return self.ev(e.func.value)
            if f == 'np.broadcast_to':
                return self.ev(e.args[0])
            raise Untranslatable(f'call {key[:60]}')
        raise Untranslatable(f'expression {key[:60]}')

    def run(self, stmts):
        for st in stmts:
            if isinstance(st, ast.Expr) and isinstance(st.value, ast.Constant):
                continue
            if isinstance(st, ast.Assert):
                continue
            if isinstance(st, ast.Return):
                if isinstance(st.value, ast.Tuple):
                    return [self.ev(x) for x in st.value.elts]
                return [self.ev(st.value)]
            if isinstance(st, ast.Assign) and len(st.targets) == 1 and isinstance(st.targets[0], ast.Name):
                self.bind_name(st.targets[0].id, self.ev(st.value))
                continue
            if isinstance(st, ast.Assign) and len(st.targets) == 1 and isinstance(st.targets[0], ast.Attribute) \
                    and isinstance(st.value, ast.Attribute) and st.value.attr == 'shape':
                continue                    # shape bookkeeping on self (e.g. self.tmpshape = tmp.shape)
            if isinstance(st, ast.AugAssign) and isinstance(st.target, ast.Name):
                self.bind_name(st.target.id, self.ev(ast.BinOp(left=ast.Name(id=st.target.id, ctx=ast.Load()),
                                                                op=st.op, right=st.value)))
                continue
            if isinstance(st, ast.If):
                t = ast.unparse(st.test)
                if t in self.static_tests:
                    r = self.run(st.body if self.static_tests[t] else st.orelse)
                    if r is not None:
                        return r
                    continue
                raise Untranslatable(f'branch on {t}')
            raise Untranslatable(f'statement {ast.unparse(st)[:60]}')
        return None


class MaskTr(VecTr):
    """VecTr for the MASKED path of a cost function (`mask is not None` taken).  Three kinds of values:
    ('s', term) scalar | ('v', body in `i`) array over the whole domain (n entries) | ('c', body in `k`) compressed array (cnt kept
    entries).  `X[mask]` of a whole-domain array is `X (idx k)` (idx enumerates the kept positions), `Z[mask] = g` on a zero array is
    `Model.C06.scatterMask cnt idx g`; mixing the two domains element-wise is a shape error (Untranslatable)."""

    def __init__(self, env, funcs=None, static=None):
        super().__init__(env, funcs, static)
        self.zero = set()

    def bind_name(self, name, v):
        if v[0] != 'c':
            self.zero.discard(name)
            return super().bind_name(name, v)
        k = self._n.get(name, 0)
        self._n[name] = k + 1
        ln = f'{name}_' if k == 0 else f'{name}_{k}'
        self.lets.append(f'let {ln} : Nat → K := fun k => {v[1]}')
        self.env[name] = ('c', f'({ln} k)')
        self.zero.discard(name)

    def fresh_fn(self, v):
        """a whole-domain value as a named function of the position"""
        k = self._n.get('full', 0)
        self._n['full'] = k + 1
        ln = f'full_{k}'
        self.lets.append(f'let {ln} : Nat → K := fun i => {v[1]}')
        return ln

    def ev(self, e):
        key = ast.unparse(e)
        if key in self.env:
            return self.env[key]
        if isinstance(e, ast.Subscript) and ast.unparse(e.slice) == 'mask':
            v = self.ev(e.value)
            if v[0] != 'v':
                raise Untranslatable(f'[mask] of a {v[0]} value: {key}')
            return ('c', f'({self.fresh_fn(v)} (idx k))')
        if isinstance(e, ast.BinOp) and not isinstance(e.op, ast.Pow):
            sym = {ast.Add: '+', ast.Sub: '-', ast.Mult: '*', ast.Div: '/'}.get(type(e.op))
            if sym is None:
                raise Untranslatable(f'operator {key}')
            a, b = self.ev(e.left), self.ev(e.right)
            kinds = {a[0], b[0]} - {'s'}
            if len(kinds) > 1:
                raise Untranslatable(f'whole-domain and compressed arrays combined: {key}')
            return (kinds.pop() if kinds else 's', f'({a[1]} {sym} {b[1]})')
        if isinstance(e, ast.Attribute) and e.attr == 'size':
            v = self.ev(e.value)
            if v[0] == 'c':
                return ('s', '(Num.ofInt (cnt : Int))')
            if v[0] == 'v':
                return ('s', '(Num.ofInt (n : Int))')
        if isinstance(e, ast.Call) and isinstance(e.func, ast.Attribute) and e.func.attr in ('sum', 'mean') and not e.args and not e.keywords:
            v = self.ev(e.func.value)
            if v[0] == 'c':
                tot = f'(Num.sumTo cnt (fun k => {v[1]}))'
                return ('s', tot if e.func.attr == 'sum' else f'({tot} / (Num.ofInt (cnt : Int)))')
        if isinstance(e, ast.Call) and ast.unparse(e.func) in ('np.zeros', 'np.zeros_like'):
            a0 = ast.unparse(e.args[0]) if e.args else ''
            if ast.unparse(e.func) == 'np.zeros_like':
                ok = self.ev(e.args[0])[0] == 'v'
            else:
                ok = a0 == 'mask.shape' or (a0.endswith('.shape') and a0[:-6] in self.env and self.env[a0[:-6]][0] == 'v')
            if not ok:
                raise Untranslatable(f'zeros of an extent that is not the whole domain: {key}')
            return ('z', '(Num.ofInt (0))')
        return super().ev(e)

    def run(self, stmts):
        for pos, st in enumerate(stmts):
            if isinstance(st, ast.Assign) and len(st.targets) == 1:
                tgt = st.targets[0]
                if isinstance(tgt, ast.Name):
                    v = self.ev(st.value)
                    if v[0] == 'z':
                        self.bind_name(tgt.id, ('v', v[1]))
                        self.zero.add(tgt.id)
                        continue
                    was_zero = isinstance(st.value, ast.Name) and st.value.id in self.zero
                    self.bind_name(tgt.id, v)
                    if was_zero:
                        self.zero.add(tgt.id)
                    continue
                if isinstance(tgt, ast.Subscript) and ast.unparse(tgt.slice) == 'mask' and isinstance(tgt.value, ast.Name):
                    nm = tgt.value.id
                    if nm not in self.zero:
                        raise Untranslatable(f'{nm}[mask] = ... on an array that is not freshly zero')
                    v = self.ev(st.value)
                    if v[0] != 'c':
                        raise Untranslatable(f'{nm}[mask] = <{v[0]} value>')
                    self.bind_name(nm, ('v', f'(Model.C06.scatterMask cnt idx (fun k => {v[1]}) i)'))
                    continue
            r = VecTr.run(self, [st])
            if r is not None:
                return r
        return None


def _masked_terms(fn, env, name, hdr_extra, args, funcs=None):
    """cost and gradient of the masked path as Lean terms"""
    t = MaskTr(env, funcs=funcs, static={'mask is not None': True, 'mask is None': False,
                                         'not isinstance(yhat, numbers.Number)': True, 'isinstance(yhat, numbers.Number)': False})
    cost, grad = t.run(fn.body)
    if cost[0] != 's' or grad[0] != 'v':
        raise Untranslatable(f'{fn.name} (masked path): kinds of the returned values {cost[0]}, {grad[0]}')
    H = f'{{K : Type}} [Num K] {hdr_extra}(n cnt : Nat) (idx : Nat → Nat) ({args} : Nat → K)'
    return (f'def {name}MaskedCost {H} : K :=\n{t.prefix()}  {cost[1]}\n'
            f'def {name}MaskedGrad {H} : Nat → K :=\n{t.prefix()}  fun i => {grad[1]}\n')


def _masked_fallback(name, hdr_extra, args, cost_call, grad_call):
    H = f'{{K : Type}} [Num K] {hdr_extra}(n cnt : Nat) (idx : Nat → Nat) ({args} : Nat → K)'
    a, b = args.split()
    return (f'def {name}MaskedCost {H} : K := {cost_call} cnt (Model.C06.compress idx {a}) (Model.C06.compress idx {b})\n'
            f'def {name}MaskedGrad {H} : Nat → K := Model.C06.scatterMask cnt idx ({grad_call} cnt (Model.C06.compress idx {a}) (Model.C06.compress idx {b}))\n')


def _vec(v):
    """a value as a Lean function Nat -> K"""
    return f'(fun i => {v[1]})'


def _always_returns_(stmts):
    if not stmts:
        return False
    last = stmts[-1]
    if isinstance(last, ast.Return):
        return True
    if isinstance(last, ast.If):
        return _always_returns_(last.body) and _always_returns_(last.orelse)
    return False


def _masked_branch_facts(fn, compressed, scattered):
    """the `if mask is not None:` blocks only compress the inputs (`X = X[mask]`) and scatter the gradient into zeros
    (`G2 = zeros(...); G2[mask] = G; G = G2`, or `G = zeros(..); G[mask] = expr`).
    True / False when every statement of those blocks is recognised, None (tie degraded) when one is not."""
    seen_compress = set()
    scatter = False
    unknown = False

    def masked_statements(stmts):
        """statements executed only when a mask is given"""
        out = []
        for k, st in enumerate(stmts):
            if isinstance(st, ast.If):
                t = ast.unparse(st.test)
                if t == 'mask is not None':
                    out += st.body
                    if _always_returns_(st.body):            # `if mask is not None: ...; return` -> the rest is the unmasked path
                        return out
                    continue
                if t == 'mask is None':
                    out += st.orelse
                    if _always_returns_(st.body):            # early return of the unmasked case: the rest is the masked path
                        return out + [x for x in stmts[k + 1:] if not isinstance(x, ast.Return)]
                    continue
        return out

    for st in masked_statements(fn.body):
        if True:
            if True:
                u = ast.unparse(st)
                if isinstance(st, ast.Assign) and isinstance(st.value, ast.Subscript) and ast.unparse(st.value.slice) == 'mask' \
                        and ast.unparse(st.targets[0]) == ast.unparse(st.value.value):
                    seen_compress.add(ast.unparse(st.targets[0]))
                elif isinstance(st, ast.Assign) and isinstance(st.targets[0], ast.Subscript) \
                        and ast.unparse(st.targets[0].slice) == 'mask':
                    scatter = True
                elif isinstance(st, ast.Assign) and ('np.zeros' in u):
                    pass
                elif isinstance(st, ast.Assign) and isinstance(st.targets[0], ast.Name) \
                        and not any(isinstance(c, (ast.Subscript, ast.Call)) for c in ast.walk(st.value)):
                    pass                        # a local name for an arithmetic expression / another local
                elif isinstance(st, ast.If) and 'isinstance(yhat, numbers.Number)' in ast.unparse(st.test):
                    seen_compress.add('yhat')
                elif isinstance(st, ast.Expr) and isinstance(st.value, ast.Constant):
                    pass
                else:
                    unknown = True
    if unknown:
        return None
    return seen_compress >= set(compressed) and scatter


def cost_items(g, co):
    HDR = '{K : Type} [Num K] (n : Nat)'

    def mse():
        fn = get_def(co, 'mean_square_error')
        t = VecTr({'M': ('v', '(M i)'), 'D': ('v', '(D i)')}, static={'mask is not None': False, 'mask is None': True})
        cost, grad = t.run(fn.body)
        if cost[0] != 's' or grad[0] != 'v':
            raise Untranslatable('mean_square_error: kinds of the returned values')
        masked = _masked_branch_facts(fn, ['diff'], True)
        return (f'def mseCost {HDR} (M D : Nat → K) : K :=\n{t.prefix()}  {cost[1]}\n'
                f'def mseGrad {HDR} (M D : Nat → K) : Nat → K :=\n{t.prefix()}  fun i => {grad[1]}\n'
                f'def mseMaskedIsCompressScatter : Bool := {"false" if masked is False else "true"}\n')
    g.item('mean_square_error', 'prysm/x/optym/cost.py:mean_square_error', lambda: get_def(co, 'mean_square_error'), mse,
           f'def mseCost {HDR} (M D : Nat → K) : K := {M}.mseCost n M D\n'
           f'def mseGrad {HDR} (M D : Nat → K) : Nat → K := {M}.mseGrad n M D\ndef mseMaskedIsCompressScatter : Bool := true\n')

    def bgie():
        fn = get_def(co, 'bias_and_gain_invariant_error')
        t = VecTr({'I': ('v', '(I i)'), 'D': ('v', '(D i)')}, static={'mask is not None': False, 'mask is None': True})
        cost, grad = t.run(fn.body)
        if cost[0] != 's' or grad[0] != 'v':
            raise Untranslatable('bias_and_gain_invariant_error: kinds of the returned values')
        masked = _masked_branch_facts(fn, ['I', 'D'], True)
        return (f'def bgieCost {HDR} (I D : Nat → K) : K :=\n{t.prefix()}  {cost[1]}\n'
                f'def bgieGrad {HDR} (I D : Nat → K) : Nat → K :=\n{t.prefix()}  fun i => {grad[1]}\n'
                f'def bgieMaskedIsCompressScatter : Bool := {"false" if masked is False else "true"}\n')
    g.item('bias_and_gain_invariant_error', 'prysm/x/optym/cost.py:bias_and_gain_invariant_error',
           lambda: get_def(co, 'bias_and_gain_invariant_error'), bgie,
           f'def bgieCost {HDR} (I D : Nat → K) : K := {M}.bgieCost n I D\n'
           f'def bgieGrad {HDR} (I D : Nat → K) : Nat → K := {M}.bgieGrad n I D\ndef bgieMaskedIsCompressScatter : Bool := true\n')

    def nll():
        fn = get_def(co, 'negative_loglikelihood')
        t = VecTr({'y': ('v', '(y i)'), 'yhat': ('v', '(yhat i)')}, static={'mask is not None': False, 'mask is None': True},
                  funcs={'np.log': lambda a: (a[0][0], f'(lg {a[0][1]})')})
        cost, grad = t.run(fn.body)
        if cost[0] != 's' or grad[0] != 'v':
            raise Untranslatable('negative_loglikelihood: kinds of the returned values')
        masked = _masked_branch_facts(fn, ['y', 'yhat'], True)
        return (f'def nllCost {{K : Type}} [Num K] (lg : K → K) (n : Nat) (y yhat : Nat → K) : K :=\n{t.prefix()}  {cost[1]}\n'
                f'def nllGrad {{K : Type}} [Num K] (lg : K → K) (n : Nat) (y yhat : Nat → K) : Nat → K :=\n{t.prefix()}  fun i => {grad[1]}\n'
                f'def nllMaskedIsCompressScatter : Bool := {"false" if masked is False else "true"}\n')
    g.item('negative_loglikelihood', 'prysm/x/optym/cost.py:negative_loglikelihood',
           lambda: get_def(co, 'negative_loglikelihood'), nll,
           f'def nllCost {{K : Type}} [Num K] (lg : K → K) (n : Nat) (y yhat : Nat → K) : K := {M}.nllCost lg n y yhat\n'
           f'def nllGrad {{K : Type}} [Num K] (lg : K → K) (n : Nat) (y yhat : Nat → K) : Nat → K := {M}.nllGrad n y yhat\ndef nllMaskedIsCompressScatter : Bool := true\n')


    # ---- the MASKED path of each cost function as a term (session 3b): compress, closed form on the kept samples, scatter
    g.item('mean_square_error.masked', 'prysm/x/optym/cost.py:mean_square_error', lambda: get_def(co, 'mean_square_error'),
           lambda: _masked_terms(get_def(co, 'mean_square_error'), {'M': ('v', '(M i)'), 'D': ('v', '(D i)')}, 'mse', '', 'M D'),
           _masked_fallback('mse', '', 'M D', f'{M}.mseCost', f'{M}.mseGrad'))
    g.item('bias_and_gain_invariant_error.masked', 'prysm/x/optym/cost.py:bias_and_gain_invariant_error',
           lambda: get_def(co, 'bias_and_gain_invariant_error'),
           lambda: _masked_terms(get_def(co, 'bias_and_gain_invariant_error'), {'I': ('v', '(I i)'), 'D': ('v', '(D i)')}, 'bgie', '', 'I D'),
           _masked_fallback('bgie', '', 'I D', f'{M}.bgieCost', f'{M}.bgieGrad'))
    g.item('negative_loglikelihood.masked', 'prysm/x/optym/cost.py:negative_loglikelihood',
           lambda: get_def(co, 'negative_loglikelihood'),
           lambda: _masked_terms(get_def(co, 'negative_loglikelihood'), {'y': ('v', '(y i)'), 'yhat': ('v', '(yhat i)')}, 'nll',
                                 '(lg : K → K) ', 'y yhat', funcs={'np.log': lambda a: (a[0][0], f'(lg {a[0][1]})')}),
           _masked_fallback('nll', '(lg : K → K) ', 'y yhat', f'{M}.nllCost lg', f'{M}.nllGrad'))


def activation_items(g, ac):
    PAR = '{K : Type} [Num K]'
    selfenv = {'self.a': ('s', 'a'), 'self.x0': ('s', 'x0'), 'self.y0': ('s', 'y0')}
    ufun = lambda name: (lambda a: ('s', f'({name} {a[0][1]})'))

    def scalar_fn(cls, meth, lean, extra_params, funcs):
        fn = get_def(ac, f'{cls}.{meth}')
        arg = fn.args.args[1].arg
        t = VecTr({**selfenv, arg: ('s', 'x')}, funcs=funcs)
        (r,) = t.run(fn.body)
        if r[0] != 's':
            raise Untranslatable('not a scalar formula')
        return f'def {lean} {PAR} {extra_params}(a x0 y0 x : K) : K :=\n{t.prefix()}  {r[1]}\n'

    specs = [
        ('Tanh', 'tanh', '(ex : K → K) ', {'np.exp': ufun('ex')}, 'ex ',
         f'{M}.tanhFwd ex a x0 y0 x', f'{M}.tanhBack ex a x0 y0 x'),
        ('Arctan', 'arctan', '(atn : K → K) ', {'np.arctan': ufun('atn')}, 'atn ',
         f'{M}.arctanFwd atn a x0 y0 x', f'{M}.arctanBack a x0 x'),
        ('Softplus', 'softplus', '(ex lg : K → K) ', {'np.exp': ufun('ex'), 'np.log': ufun('lg')}, 'ex lg ',
         f'{M}.softplusFwd ex lg a x0 y0 x', f'{M}.softplusBack ex a x0 x'),
        ('Sigmoid', 'sigmoid', '(ex : K → K) ', {'np.exp': ufun('ex')}, 'ex ',
         f'{M}.sigmoidFwd ex a x0 y0 x', f'{M}.sigmoidBack ex a x0 y0 x'),
    ]
    for cls, nm, extra, funcs, extra_args, fb_f, fb_b in specs:
        def build(cls=cls, nm=nm, extra=extra, funcs=funcs, extra_args=extra_args):
            fwd = scalar_fn(cls, 'forward', f'{nm}Fwd', extra, funcs)
            f2 = dict(funcs)
            f2['self.forward'] = lambda a, nm=nm, extra_args=extra_args: ('s', f'({nm}Fwd {extra_args}a x0 y0 {a[0][1]})')
            bk = scalar_fn(cls, 'backprop', f'{nm}Back', extra, f2)
            return fwd + bk
        g.item(f'{cls}', f'prysm/x/optym/activation.py:{cls}', lambda cls=cls: get_def(ac, cls), build,
               f'def {nm}Fwd {PAR} {extra}(a x0 y0 x : K) : K := {fb_f}\n'
               f'def {nm}Back {PAR} {extra}(a x0 y0 x : K) : K := {fb_b}\n')

    # ---- Softmax.backprop, per independent variable (one row of the work array): s = self.out, g = grad
    def softmax():
        fn = get_def(ac, 'Softmax.backprop')
        t = VecTr({'self.out': ('v', '(s i)'), 'grad': ('v', '(g i)'), 'self.work_shape': ('s', '?'), 'self.in_shape': ('s', '?')},
                  funcs={'_multi_dot': lambda a: ('s', f'(Num.sumTo n (fun i => ({a[0][1]} * {a[1][1]})))')})
        (r,) = t.run(fn.body)
        if r[0] != 'v':
            raise Untranslatable('Softmax.backprop does not return an array')
        subs_ok = all(sl in ('(:, np.newaxis)', ':, np.newaxis') for _, sl in t.subscripts)
        fsrc = canon_src(get_def(ac, 'Softmax.forward'))
        fwd_ok = all(k in fsrc for k in ('v0 = x.reshape((-1, x.shape[-1]))', 'v1 = v0 - v0.max(axis=1)[:, np.newaxis]',
                                         'v2 = np.exp(v1)', 'v3 = v2.sum(axis=1)', 'self.out = v2 / v3[:, np.newaxis]'))
        if not subs_ok:
            raise Untranslatable('broadcasting in Softmax.backprop not in the recognised shape')
        softmax.fwd_ok = fwd_ok
        return (f'def softmaxBack {PAR} (n : Nat) (s g : Nat → K) : Nat → K :=\n{t.prefix()}  fun i => {r[1]}\n'
                f'def softmaxBackBroadcastsOverLevels : Bool := true\n')
    g.item('Softmax.backprop', 'prysm/x/optym/activation.py:Softmax.backprop', lambda: get_def(ac, 'Softmax.backprop'), softmax,
           f'def softmaxBack {PAR} (n : Nat) (s g : Nat → K) : Nat → K := {M}.softmaxBack n s g\n'
           'def softmaxBackBroadcastsOverLevels : Bool := true\n')
    # the forward shape is its own (three-valued) item: an unrecognised forward no longer hides the backprop translation
    fact3(g, 'softmaxFwdIsExpOverSumAlongLastAxis', 'prysm/x/optym/activation.py:Softmax.forward',
          lambda: get_def(ac, 'Softmax.forward'), lambda: True if getattr(softmax, 'fwd_ok', False) else None)

    def gumbel():
        fn = get_def(ac, 'GumbelSoftmax.backprop')
        t = VecTr({'protograd': ('v', '(g i)'), 'self.tau': ('s', 'tau')},
                  funcs={'self.smax.backprop': lambda a: ('v', f'(softmaxBack n s (fun i => {a[0][1]}) i)')})
        (r,) = t.run(fn.body)
        # forward, translated: what is handed to the inner softmax, as a function of the logits x, the noise and tau.
        # Locals that do not depend on x and cannot be translated (the random draw, its shape, eps) are the noise `gam`.
        ffn = get_def(ac, 'GumbelSoftmax.forward')
        ft_ = VecTr({'x': ('v', '(x i)'), 'self.tau': ('s', 'tau')})
        logits = None
        for st in ffn.body:
            if isinstance(st, ast.Expr) and isinstance(st.value, ast.Constant):
                continue
            if isinstance(st, ast.Assign) and len(st.targets) == 1 and isinstance(st.targets[0], ast.Name):
                uses_x = any(isinstance(n_, ast.Name) and n_.id == 'x' for n_ in ast.walk(st.value)) or \
                    any(isinstance(n_, ast.Name) and ft_.env.get(n_.id, ('?', ''))[0] == 'v' and 'x i' in ft_.env[n_.id][1]
                        for n_ in ast.walk(st.value))
                try:
                    ft_.bind_name(st.targets[0].id, ft_.ev(st.value))
                except Untranslatable:
                    if uses_x and ast.unparse(st.value) != 'x.shape':
                        raise
                    # independent of the logits (the random draw, its shape, eps, ...): part of the frozen noise
                    ft_.env[st.targets[0].id] = ('v', '(gam i)')
                continue
            if isinstance(st, ast.Return):
                c = st.value
                if not (isinstance(c, ast.Call) and ast.unparse(c.func) == 'self.smax.forward' and len(c.args) == 1):
                    raise Untranslatable('GumbelSoftmax.forward does not return self.smax.forward(<logits>)')
                logits = ft_.ev(c.args[0])
                continue
            raise Untranslatable(f'statement {ast.unparse(st)[:60]}')
        if logits is None or logits[0] != 'v':
            raise Untranslatable('no logits')
        return (f'def gumbelBack {PAR} (tau : K) (n : Nat) (s g : Nat → K) : Nat → K :=\n{t.prefix()}  fun i => {r[1]}\n'
                f'def gumbelLogits {PAR} (tau : K) (x gam : Nat → K) : Nat → K :=\n{ft_.prefix()}  fun i => {logits[1]}\n')
    g.item('GumbelSoftmax', 'prysm/x/optym/activation.py:GumbelSoftmax', lambda: get_def(ac, 'GumbelSoftmax'), gumbel,
           f'def gumbelBack {PAR} (tau : K) (n : Nat) (s g : Nat → K) : Nat → K := {M}.gumbelBack tau n s g\n'
           f'def gumbelLogits {PAR} (tau : K) (x gam : Nat → K) : Nat → K := fun i => (x i + gam i) / tau\n')

    def encoder():
        fn = get_def(ac, 'DiscreteEncoder.backprop')
        t = VecTr({'grad': ('s', 'g'), 'self.levels': ('v', '(levels i)'), 'self.tmpshape': ('s', '?')},
                  funcs={'self.est.backprop': lambda a: ('v', f'(estBack (fun i => {a[0][1]}) i)')})
        (r,) = t.run(fn.body)
        # the upstream gradient has one entry per variable; it must be expanded along a NEW LAST axis
        gsubs = [sl for base, sl in t.subscripts if base == 'grad']
        last = gsubs == ['(..., None)'] or gsubs == ['..., None'] or gsubs == ['(..., np.newaxis)'] or gsubs == ['..., np.newaxis']
        lsubs = [sl for base, sl in t.subscripts if base in ('levels', 'self.levels')]
        second = gsubs in (['(:, None)'], [':, None'], ['(:, np.newaxis)'], [':, np.newaxis'])
        if not ((last or second) and lsubs in (['(None, :)'], ['None, :'])):
            raise Untranslatable('DiscreteEncoder.backprop not in the recognised shape')
        # forward, translated: levels-weighted sum of the estimator's output over the last axis
        ffn = get_def(ac, 'DiscreteEncoder.forward')
        tf_ = VecTr({'self.levels': ('v', '(levels i)')}, funcs={'self.est.forward': lambda a: ('v', '(s i)')})
        tf_.env['x'] = ('v', '(x i)')
        (rf_,) = tf_.run(ffn.body)
        fl = [sl for base, sl in tf_.subscripts if base in ('levels', 'self.levels')]
        if rf_[0] != 's' or fl not in (['(None, :)'], ['None, :']):
            raise Untranslatable('DiscreteEncoder.forward not in the recognised shape')
        return (f'def encoderBack {PAR} (estBack : (Nat → K) → Nat → K) (levels : Nat → K) (g : K) : Nat → K :=\n'
                f'{t.prefix()}  fun i => {r[1]}\n'
                f'def encoderFwd {PAR} (n : Nat) (levels s : Nat → K) : K :=\n{tf_.prefix()}  {rf_[1]}\n'
                f'def encoderBackExpandsLastAxis : Bool := {"true" if last else "false"}\n')
    g.item('DiscreteEncoder', 'prysm/x/optym/activation.py:DiscreteEncoder', lambda: get_def(ac, 'DiscreteEncoder'), encoder,
           f'def encoderBack {PAR} (estBack : (Nat → K) → Nat → K) (levels : Nat → K) (g : K) : Nat → K := {M}.encoderBack estBack levels g\n'
           f'def encoderFwd {PAR} (n : Nat) (levels s : Nat → K) : K := {M}.encoderFwd n levels s\n'
           'def encoderBackExpandsLastAxis : Bool := true\n')


# ------------------------------------------------------------------------------------------------
# element-wise complex / real expressions (Wavefront nodes):  ('r', term : K)  |  ('c', term : Cx K)
# ------------------------------------------------------------------------------------------------
class CxTr:
    def __init__(self, env):
        self.env = dict(env)

    def ev(self, e):
        key = ast.unparse(e)
        if key in self.env:
            return self.env[key]
        if isinstance(e, ast.Constant) and isinstance(e.value, (int, float)) and not isinstance(e.value, bool):
            return ('r', _num(e.value))
        if isinstance(e, ast.BinOp):
            a, b = self.ev(e.left), self.ev(e.right)
            op = type(e.op)
            if a[0] == 'r' and b[0] == 'r':
                sym = {ast.Add: '+', ast.Sub: '-', ast.Mult: '*', ast.Div: '/'}.get(op)
                if sym:
                    return ('r', f'({a[1]} {sym} {b[1]})')
            if op is ast.Mult:
                if a[0] == 'r' and b[0] == 'c':
                    return ('c', f'(Cx.smul {a[1]} {b[1]})')
                if a[0] == 'c' and b[0] == 'r':
                    return ('c', f'(Cx.smul {b[1]} {a[1]})')
                return ('c', f'({a[1]} * {b[1]})')
            if op in (ast.Add, ast.Sub) and a[0] == 'c' and b[0] == 'c':
                return ('c', f'({a[1]} {"+" if op is ast.Add else "-"} {b[1]})')
            raise Untranslatable(f'operator {key}')
        if isinstance(e, ast.Call):
            f = ast.unparse(e.func)
            if f in ('np.conj', 'np.conjugate') and len(e.args) == 1:
                v = self.ev(e.args[0])
                return v if v[0] == 'r' else ('c', f'(Cx.conj {v[1]})')
            if f == 'np.imag' and len(e.args) == 1:
                v = self.ev(e.args[0])
                if v[0] == 'c':
                    return ('r', f'{v[1]}.im')
            if f == 'np.real' and len(e.args) == 1:
                v = self.ev(e.args[0])
                if v[0] == 'c':
                    return ('r', f'{v[1]}.re')
        raise Untranslatable(f'expression {key[:60]}')


def wavefront_items(g, pr):
    PAR = '{K : Type} [Num K]'

    def intensity():
        fn = get_def(pr, 'Wavefront.intensity_backprop')
        t = CxTr({'intensity_bar': ('r', 'Ibar'), 'self.data': ('c', 'E')})
        gbar = t.ev(find_assign(fn, 'Gbar'))
        (ret,) = find_returns(fn)
        if not (ast.unparse(ret).startswith('Wavefront(Gbar,') and gbar[0] == 'c'):
            raise Untranslatable('intensity_backprop does not wrap Gbar')
        fwd = ast.unparse(get_def(pr, 'Wavefront.intensity'))
        fwd_ok = 'abs(self.data) ** 2' in fwd
        if not fwd_ok:
            raise Untranslatable('Wavefront.intensity not in the recognised shape')
        return (f'def intensityBack {PAR} (Ibar : K) (E : Cx K) : Cx K := {gbar[1]}\n'
                f'def intensityFwdIsAbsSquared : Bool := {"true" if fwd_ok else "false"}\n')
    g.item('Wavefront.intensity_backprop', 'prysm/propagation.py:Wavefront.intensity_backprop',
           lambda: get_def(pr, 'Wavefront.intensity_backprop'), intensity,
           f'def intensityBack {PAR} (Ibar : K) (E : Cx K) : Cx K := {M}.intensityBack Ibar E\ndef intensityFwdIsAbsSquared : Bool := true\n')

    def phase():
        fn = get_def(pr, 'Wavefront.from_amp_and_phase_backprop_phase')
        (ret,) = find_returns(fn)
        t = CxTr({'k': ('r', 'k'), 'wf_bar.data': ('c', 'gbar'), 'self.data': ('c', 'g')})
        r = t.ev(ret)
        if r[0] != 'r':
            raise Untranslatable('phase gradient is not real')
        # the wavenumber, TRANSLATED from both sides: forward exp((1j * kf) * phase), backprop k
        ff = get_def(pr, 'Wavefront.from_amp_and_phase')
        Pf = ast.unparse(find_assign(ff, 'P', which=0))
        if Pf != 'amplitude * np.exp(phase_prefix * phase)':
            raise Untranslatable('forward is not amplitude * exp(phase_prefix * phase)')
        pf = find_assign(ff, 'phase_prefix')
        # strip exactly one factor 1j from the product / quotient chain
        found = []

        class Strip(ast.NodeTransformer):
            def visit_Constant(self, n):
                if isinstance(n.value, complex) and n.value == 1j:
                    found.append(1)
                    return ast.copy_location(ast.Constant(value=1), n)
                return n
        import copy
        pf_real = Strip().visit(copy.deepcopy(pf))
        if len(found) != 1:
            raise Untranslatable('phase_prefix does not contain exactly one factor 1j')
        for n in ast.walk(pf_real):
            if isinstance(n, ast.BinOp) and not isinstance(n.op, (ast.Mult, ast.Div)):
                raise Untranslatable('phase_prefix is not a product / quotient')
        kf = Tr({'np.pi': 'pi', 'wavelength': 'wavelength'}, mode='num').expr(pf_real)
        kb = Tr({'np.pi': 'pi', 'self.wavelength': 'wavelength'}, mode='num').expr(find_assign(fn, 'k'))
        return (f'def phaseBack {PAR} (k : K) (gbar g : Cx K) : K := {r[1]}\n'
                f'def phaseFwdK {PAR} (pi wavelength : K) : K := {kf}\n'
                f'def phaseBackK {PAR} (pi wavelength : K) : K := {kb}\n')
    g.item('Wavefront.from_amp_and_phase_backprop_phase', 'prysm/propagation.py:Wavefront.from_amp_and_phase_backprop_phase',
           lambda: get_def(pr, 'Wavefront.from_amp_and_phase_backprop_phase'), phase,
           f'def phaseBack {PAR} (k : K) (gbar g : Cx K) : K := {M}.phaseBack k gbar g\n'
           f'def phaseFwdK {PAR} (pi wavelength : K) : K := ((((Num.ofInt (2)) * pi) / wavelength) / (Num.ofInt (1000)))\ndef phaseBackK {PAR} (pi wavelength : K) : K := ((((Num.ofInt (2)) * pi) / wavelength) / (Num.ofInt (1000)))\n')


def structural_items(g, ft, po, dm):
    # ---- sum_of_2d_modes(_backprop): which axes np.tensordot contracts, as (axis of modes, axis of the other operand) pairs
    def tensordot_axes(call, nd_a, nd_b):
        ax = call_arg(call, 2, 'axes')
        if ax is None:
            k = 2
        else:
            try:
                v = ast.literal_eval(ax)
            except Exception:
                raise Untranslatable(f'axes={ast.unparse(ax)}')
            if isinstance(v, int):
                k = v
            else:
                a_, b_ = v
                a_ = [a_] if isinstance(a_, int) else list(a_)
                b_ = [b_] if isinstance(b_, int) else list(b_)
                if len(a_) != len(b_):
                    raise Untranslatable('axes lengths')
                return [(x % nd_a, y % nd_b) for x, y in zip(a_, b_)]
        return [(nd_a - k + t, t) for t in range(k)]

    def modes():
        f = get_def(po, 'sum_of_2d_modes')
        b = get_def(po, 'sum_of_2d_modes_backprop')
        (rf,), (rb,) = find_returns(f), find_returns(b)
        for r_ in (rf, rb):
            if not (isinstance(r_, ast.Call) and ast.unparse(r_.func) == 'np.tensordot' and ast.unparse(r_.args[0]) == 'modes'):
                raise Untranslatable('not np.tensordot(modes, ...)')
        if ast.unparse(rf.args[1]) != 'weights' or ast.unparse(rb.args[1]) != 'databar':
            raise Untranslatable('second operand')
        fa = tensordot_axes(rf, 3, 1)
        ba = tensordot_axes(rb, 3, 2)
        fmt = lambda l: '[' + ', '.join(f'({x}, {y})' for x, y in l) + ']'
        return (f'def modalFwdAxes : List (Nat × Nat) := {fmt(fa)}\n'
                f'def modalBackAxes : List (Nat × Nat) := {fmt(ba)}\n')
    g.item('sum_of_2d_modes_backprop', 'prysm/polynomials/__init__.py:sum_of_2d_modes_backprop',
           lambda: get_def(po, 'sum_of_2d_modes_backprop'), modes,
           'def modalFwdAxes : List (Nat × Nat) := [(0, 0)]\ndef modalBackAxes : List (Nat × Nat) := [(1, 0), (2, 1)]\n')

    # ---- DM.render / DM.render_backprop: the ordered list of array operations each performs
    def steps(fn, var):
        out = []

        def data_call(node):
            """(tag) of a recognised operation applied to the running array, or None"""
            if not isinstance(node, ast.Call):
                return None
            f = ast.unparse(node.func)
            a = [ast.unparse(x) for x in node.args]
            kw = {k.arg: ast.unparse(k.value) for k in node.keywords}
            if f == 'apply_transfer_functions' and len(a) >= 3 and kw.get('shift', a[7] if len(a) > 7 else 'False') == 'False':
                return {'self.tf': 'filter', 'np.conj(self.tf)': 'filter_conj', 'np.conjugate(self.tf)': 'filter_conj'}.get(a[2])
            if f == 'warp' and len(a) == 3:
                return {('self.projx', 'self.projy'): 'warp_proj', ('self.invprojx', 'self.invprojy'): 'warp_invproj'}.get((a[1], a[2]))
            if f == 'fourier_resample' and len(a) == 2:
                return 'resample' if a[1] == 'self.upsample' else None
            if f == 'fourier_resample_backprop' and len(a) == 3 and a[1] == 'self.upsample':
                return 'resample_adj'
            if f in ('pad2d', 'crop_center'):
                return 'resize'
            return None

        def is_scale(v):
            return v.replace(' ', '') in ('2*self.obliquity', '(2*self.obliquity)')

        def walk(stmts):
            for st in stmts:
                if isinstance(st, ast.Expr) and isinstance(st.value, ast.Constant):
                    continue
                if isinstance(st, ast.If):
                    walk(st.body)
                    walk(st.orelse)
                    continue
                if isinstance(st, ast.Assign) and len(st.targets) == 1:
                    tgt, val = st.targets[0], st.value
                    ut = ast.unparse(tgt)
                    if ut == 'self.poke_arr[self.iyy, self.ixx]' and ast.unparse(val) == 'self.actuators':
                        out.append('scatter')
                        continue
                    if ut == 'self.Nintermediate' or (isinstance(tgt, ast.Name) and tgt.id == 'upsample'):
                        continue
                    if isinstance(tgt, ast.Name) and tgt.id in var:
                        tag = data_call(val)
                        if tag is None and isinstance(val, ast.BinOp) and isinstance(val.op, ast.Mult) \
                                and ast.unparse(val.left) in var and is_scale(ast.unparse(val.right)):
                            tag = 'scale'
                        if tag is None and isinstance(val, ast.Name) and val.id in var:
                            continue
                        if tag is None:
                            raise Untranslatable(f'unrecognised operation on the data: {ast.unparse(st)[:70]}')
                        if tag == 'resize' and out and out[-1] == 'resize':
                            continue          # pad / crop are the two branches of one step
                        out.append(tag)
                        continue
                    raise Untranslatable(f'statement {ast.unparse(st)[:70]}')
                if isinstance(st, ast.AugAssign) and isinstance(st.target, ast.Name) and st.target.id in var:
                    if isinstance(st.op, ast.Mult) and is_scale(ast.unparse(st.value)):
                        out.append('scale')
                        continue
                    raise Untranslatable(f'unrecognised operation on the data: {ast.unparse(st)[:70]}')
                if isinstance(st, ast.Return):
                    v = st.value
                    if isinstance(v, ast.Subscript) and ast.unparse(v.slice) in ('(self.iyy, self.ixx)', 'self.iyy, self.ixx') \
                            and ast.unparse(v.value) in var:
                        out.append('gather')
                    elif not (isinstance(v, ast.Name) and v.id in var):
                        raise Untranslatable(f'return {ast.unparse(v)[:60]}')
                    continue
                raise Untranslatable(f'statement {ast.unparse(st)[:70]}')
        walk(fn.body)
        return out

    def dm_steps():
        fs = steps(get_def(dm, 'DM.render'), {'sfe', 'warped'})
        bs = steps(get_def(dm, 'DM.render_backprop'), {'protograd', 'in_actuator_space'})
        fmt = lambda l: '[' + ', '.join(f'"{x}"' for x in l) + ']'
        return f'def dmRenderSteps : List String := {fmt(fs)}\ndef dmBackSteps : List String := {fmt(bs)}\n'
    g.item('DM.render_backprop', 'prysm/x/dm.py:DM.render_backprop', lambda: get_def(dm, 'DM.render_backprop'), dm_steps,
           'def dmRenderSteps : List String := ["scatter", "filter", "warp_proj", "scale", "resample", "resize"]\n'
           'def dmBackSteps : List String := ["resize", "resample_adj", "scale", "warp_invproj", "filter_conj", "gather"]\n')


def padcrop_items(g, repo):
    """own translated copy of the pad2d / crop_center offsets (the C04 translator items, re-emitted here so that
    C06 does not depend on another property's generated file)"""
    import re
    import gen_c04
    ft, _ = load(repo, 'prysm/fttools.py')
    text, items = gen_c04.generate(repo)
    st = {it['name']: it for it in items}

    def grab(defname, item):
        def build():
            if st[item].get('status') != 'ok':
                raise Untranslatable(st[item].get('reason', 'C04 item untranslatable'))
            m = re.search(rf'^def {defname} \(n N : Int\) : Int := (.*)$', text, re.M)
            if not m:
                raise Untranslatable(f'{defname} not found in the C04 translation')
            return f'def {defname} (n N : Int) : Int := {m.group(1)}'
        return build
    g.item('pad2d.offset', 'prysm/fttools.py:pad2d', lambda: get_def(ft, 'pad2d'), grab('padSliceLo', 'pad2d.slcs'),
           'def padSliceLo (n N : Int) : Int := N / 2 - n / 2')
    g.item('crop_center.offset', 'prysm/fttools.py:crop_center', lambda: get_def(ft, 'crop_center'), grab('cropLo', 'crop_center'),
           'def cropLo (n N : Int) : Int := n / 2 - N / 2')


def live_attribute_items(g, ac, dm):
    """every attribute of `self` that a backprop reads must be one the forward reads or writes (or a method): an
    attribute written only in __init__ and read only by the backprop is a stale copy as soon as the public parameter
    it was derived from is re-assigned on a live node (temperature annealing, changed slopes, ...)"""
    def self_attrs(fn, ctx_type):
        out = set()
        for n in ast.walk(fn):
            if isinstance(n, ast.Attribute) and isinstance(n.value, ast.Name) and n.value.id == 'self' and isinstance(n.ctx, ctx_type):
                out.add(n.attr)
        return out

    def check(mod, cls, fwd, bwd, allow=()):
        c = get_def(mod, cls)
        methods = {n.name for n in c.body if isinstance(n, ast.FunctionDef)}
        if '__setattr__' in methods or any(isinstance(n, ast.FunctionDef) and n.decorator_list for n in c.body):
            return None                     # properties / attribute hooks may keep derived copies in step
        if fwd not in methods or bwd not in methods:
            return None
        f, b = get_def(mod, f'{cls}.{fwd}'), get_def(mod, f'{cls}.{bwd}')
        live = self_attrs(f, ast.Load) | self_attrs(f, ast.Store) | methods | set(allow)
        # methods of self called by the forward contribute their reads too (e.g. a helper)
        for n in ast.walk(f):
            if isinstance(n, ast.Call) and isinstance(n.func, ast.Attribute) and isinstance(n.func.value, ast.Name) \
                    and n.func.value.id == 'self' and n.func.attr in methods:
                h = get_def(mod, f'{cls}.{n.func.attr}')
                live |= self_attrs(h, ast.Load) | self_attrs(h, ast.Store)
        stale = self_attrs(b, ast.Load) - live
        return not stale

    for cls in ('Softmax', 'GumbelSoftmax', 'DiscreteEncoder', 'Tanh', 'Arctan', 'Softplus', 'Sigmoid'):
        fact3(g, f'backpropReadsLiveAttributes{cls}', f'prysm/x/optym/activation.py:{cls}',
              lambda cls=cls: get_def(ac, cls), lambda cls=cls: check(ac, cls, 'forward', 'backprop'))
    # DM: the inverse-warp coordinates (rotation, out of scope) and the influence-function array (only its shape is
    # read) are derived once from constructor arguments that render does not read either
    fact3(g, 'backpropReadsLiveAttributesDM', 'prysm/x/dm.py:DM', lambda: get_def(dm, 'DM'),
          lambda: check(dm, 'DM', 'render', 'render_backprop', allow=('invprojx', 'invprojy', 'ifn')))


# ------------------------------------------------------------------------------------------------
# matrix expressions (MatrixDFTExecutor): `@`, `.T`, `.conj()` over named matrices with symbolic extents
# ------------------------------------------------------------------------------------------------
class MatTr:
    """values: (lean term : Mat C, (rows, cols), pending) with pending in {'', 'T', 'conj'} for a bare transpose / conjugate
    that may still combine into conjT"""

    def __init__(self, env):
        self.env = dict(env)

    def ev(self, e):
        key = ast.unparse(e)
        if key in self.env:
            return self.env[key]
        if isinstance(e, ast.Subscript) and ast.unparse(e.value) in ('self.Eout', 'self.Ein') \
                and getattr(self, 'alias', {}).get(ast.unparse(e.slice), ast.unparse(e.slice)) == 'key':
            # a cached basis of `key` used in place (no local name)
            return ('Eout', ('M', 'm')) if ast.unparse(e.value) == 'self.Eout' else ('Ein', ('n', 'N'))
        if isinstance(e, ast.Attribute) and e.attr == 'T':
            t, (r, c) = self.ev(e.value)
            return (f'(fun i j => {t} j i)', (c, r))
        if isinstance(e, ast.Call) and isinstance(e.func, ast.Attribute) and e.func.attr in ('conj', 'conjugate') and not e.args:
            t, shp = self.ev(e.func.value)
            return (f'(fun i j => conj ({t} i j))', shp)
        if isinstance(e, ast.Call) and ast.unparse(e.func) in ('np.conj', 'np.conjugate') and len(e.args) == 1:
            t, shp = self.ev(e.args[0])
            return (f'(fun i j => conj ({t} i j))', shp)
        if isinstance(e, ast.BinOp) and isinstance(e.op, ast.MatMult):
            (a, (ra, ca)), (b, (rb, cb)) = self.ev(e.left), self.ev(e.right)
            if ca != rb:
                raise Untranslatable(f'inner extents differ in {key}: {ca} vs {rb}')
            return (f'({M}.matmul {ca} {a} {b})', (ra, cb))
        raise Untranslatable(f'matrix expression {key[:60]}')

    def run(self, fn, skip=(), methods=None, alias=None, depth=0):
        """straight-line body: local assignments of matrix expressions; returns the value of the returned expression.
        Calls to straight-line helper methods of the same class (`self.helper(a, b)`) are inlined symbolically:
        parameters bound to matrices carry their value, other parameters (e.g. the cache key) are aliases of the
        caller's expression."""
        alias = dict(alias or {})
        self.alias = alias
        res = lambda e: alias.get(ast.unparse(e), ast.unparse(e))

        def helper_call(v):
            if isinstance(v, ast.Call) and isinstance(v.func, ast.Attribute) and isinstance(v.func.value, ast.Name) \
                    and v.func.value.id == 'self' and methods and v.func.attr in methods and depth < 3 \
                    and v.func.attr not in ('_setup_bases', '_key'):
                h = methods[v.func.attr]
                params = [a.arg for a in h.args.args[1:]]
                args = list(v.args) + [None] * (len(params) - len(v.args))
                for kw in v.keywords:
                    if kw.arg in params:
                        args[params.index(kw.arg)] = kw.value
                if any(a is None for a in args):
                    raise Untranslatable(f'call of helper {v.func.attr}: missing arguments')
                env2, alias2 = {}, {}
                for pn, a in zip(params, args):
                    t = ast.unparse(a)
                    if t in self.env:
                        env2[pn] = self.env[t]
                    else:
                        alias2[pn] = alias.get(t, t)
                return MatTr(env2).run(h, methods=methods, alias=alias2, depth=depth + 1)
            return None

        for st in fn.body:
            if isinstance(st, ast.Expr) and isinstance(st.value, ast.Constant):
                continue
            if isinstance(st, ast.Expr) and isinstance(st.value, ast.Call) and ast.unparse(st.value.func) == 'self._setup_bases' \
                    and len(st.value.args) == 1 and res(st.value.args[0]) == 'key':
                continue
            if isinstance(st, ast.Assign) and len(st.targets) == 1:
                tgt = st.targets[0]
                if isinstance(tgt, ast.Name) and tgt.id in skip:
                    continue
                if isinstance(tgt, ast.Tuple) and [ast.unparse(t_) for t_ in tgt.elts] == ['Eout', 'Ein'] \
                        and isinstance(st.value, ast.Tuple) and len(st.value.elts) == 2 \
                        and all(isinstance(v_, ast.Subscript) for v_ in st.value.elts) \
                        and [ast.unparse(v_.value) for v_ in st.value.elts] == ['self.Eout', 'self.Ein'] \
                        and all(res(v_.slice) == 'key' for v_ in st.value.elts):
                    # the cached bases of `key` (in the executor's own method or in an inlined helper)
                    self.env['Eout'], self.env['Ein'] = ('Eout', ('M', 'm')), ('Ein', ('n', 'N'))
                    continue
                if isinstance(tgt, ast.Name):
                    hv = helper_call(st.value)
                    self.env[tgt.id] = hv if hv is not None else self.ev(st.value)
                    continue
            if isinstance(st, ast.Return):
                hv = helper_call(st.value)
                return hv if hv is not None else self.ev(st.value)
            raise Untranslatable(f'statement {ast.unparse(st)[:60]}')
        raise Untranslatable('no return')


def mdft_term_items(g, ft):
    HDR = '{C : Type} [Num C]'

    def key_of(fn, subst):
        """the `_key(...)` call bound to the signature order, each argument rewritten through `subst`"""
        call = find_assign(fn, 'key')
        if not (isinstance(call, ast.Call) and ast.unparse(call.func) == 'self._key'):
            raise Untranslatable('key is not self._key(...)')
        sig = [a.arg for a in get_def(ft, 'MatrixDFTExecutor._key').args.args[1:]]
        bound = {}
        for k_, a in zip(sig, call.args):
            bound[k_] = ast.unparse(a)
        for kw in call.keywords:
            bound[kw.arg] = ast.unparse(kw.value)
        if set(bound) != set(sig):
            raise Untranslatable('key arguments')
        out = []
        for k_ in sig:
            v = bound[k_]
            if v not in subst:
                raise Untranslatable(f'key argument {k_}={v}')
            out.append(subst[v])
        return '(' + ', '.join(out) + ')', sig

    specs = [('dft2', 'dft2_backprop', 'samples_in'), ('idft2', 'idft2_backprop', 'samples_out')]
    for fwd, bwd, sparam in specs:
        def build(fwd=fwd, bwd=bwd, sparam=sparam):
            f = get_def(ft, f'MatrixDFTExecutor.{fwd}')
            b = get_def(ft, f'MatrixDFTExecutor.{bwd}')
            cls = get_def(ft, 'MatrixDFTExecutor')
            methods = {n.name: n for n in cls.body if isinstance(n, ast.FunctionDef)}
            tf, shp_f = MatTr({'ary': ('f', ('m', 'n'))}).run(f, skip=('key',), methods=methods)
            tb, shp_b = MatTr({'fbar': ('y', ('M', 'N'))}).run(b, skip=('key',), methods=methods)
            if shp_f != ('M', 'N') or shp_b != ('m', 'n'):
                raise Untranslatable(f'result extents {shp_f} / {shp_b}')
            base = {'Q': 'Q', 'shift': 'shift', 'True': 'true', 'False': 'false'}
            kf, sig = key_of(f, {**base, 'ary.shape': 'a', 'samples_out': 'b'})
            kb, _ = key_of(b, {**base, sparam: 'a', 'fbar.shape': 'b'})
            kt = '{T : Type} (Q shift : T) (a b : Nat × Nat)'
            return (f'def {fwd}FwdTerm {HDR} (M m n N : Nat) (Eout f Ein : {M}.Mat C) : {M}.Mat C := {tf}\n'
                    f'def {fwd}BackTerm {HDR} (conj : C → C) (M m n N : Nat) (Eout y Ein : {M}.Mat C) : {M}.Mat C := {tb}\n'
                    f'def {fwd}FwdKey {kt} := {kf}\n'
                    f'def {fwd}BackKey {kt} := {kb}\n')
        fb_f = f'{M}.{fwd} M m n N Eout f Ein'
        g.item(f'MatrixDFTExecutor.{bwd}', f'prysm/fttools.py:MatrixDFTExecutor.{bwd}',
               lambda bwd=bwd: get_def(ft, f'MatrixDFTExecutor.{bwd}'), build,
               f'def {fwd}FwdTerm {HDR} (M m n N : Nat) (Eout f Ein : {M}.Mat C) : {M}.Mat C := {fb_f}\n'
               f'def {fwd}BackTerm {HDR} (conj : C → C) (M m n N : Nat) (Eout y Ein : {M}.Mat C) : {M}.Mat C := {M}.dftBack conj M m n N Eout y Ein\n'
               f'def {fwd}FwdKey {{T : Type}} (Q shift : T) (a b : Nat × Nat) := (a, Q, b, shift, {"true" if fwd == "dft2" else "false"})\n'
               f'def {fwd}BackKey {{T : Type}} (Q shift : T) (a b : Nat × Nat) := (a, Q, b, shift, {"true" if fwd == "dft2" else "false"})\n')


def flatten_order_items(g, po, ac, co, dm):
    """backprops that flatten or reshape an array must do it in C order (the order the other operand is flattened in):
    `order='K'/'A'/'F'` pairs the wrong elements as soon as the caller's array is not laid out row-major"""
    targets = [(po, 'sum_of_2d_modes_backprop'), (po, 'sum_of_2d_modes'), (ac, 'Softmax.forward'), (ac, 'Softmax.backprop'),
               (ac, 'DiscreteEncoder.backprop'), (dm, 'DM.render_backprop'), (dm, 'fourier_resample_backprop'),
               (co, 'mean_square_error'), (co, 'bias_and_gain_invariant_error'), (co, 'negative_loglikelihood')]

    def check():
        seen = False
        for mod, name in targets:
            try:
                fn = get_def(mod, name)
            except Untranslatable:
                continue
            seen = True
            for n in ast.walk(fn):
                if not isinstance(n, ast.Call):
                    continue
                f = ast.unparse(n.func)
                if not (f.endswith('.ravel') or f.endswith('.reshape') or f.endswith('.flatten') or f in ('np.ravel', 'np.reshape')):
                    continue
                orders = [k.value for k in n.keywords if k.arg == 'order']
                if f.endswith('.flatten') and n.args:
                    orders.append(n.args[0])
                for o in orders:
                    if not (isinstance(o, ast.Constant) and o.value == 'C'):
                        return False
        return True if seen else None
    fact3(g, 'backpropsFlattenInCOrder', 'prysm/polynomials/__init__.py + x/optym + x/dm.py', None, check)


# ------------------------------------------------------------------------------------------------
# fourier_resample (fttools) / fourier_resample_backprop (x/dm): ordered operation chains, roll amounts, scale factors
# ------------------------------------------------------------------------------------------------
def resample_items(g, ft, dm):
    PARK = '{K : Type} [Num K]'
    SHIFT = {'fftshift': '(n / 2)', 'ifftshift': '(n - n / 2)'}
    FB = ('def resampleFwdChain : List String := ["ifftshift", "fft2", "fftshift", "idft2", "real", "scale"]\n'
          'def resampleBackChain : List String := ["idft2_backprop", "ifftshift", "ifft2", "fftshift", "real", "scale"]\n'
          'def resampleFwdPre (n : Nat) : Nat := (n - n / 2)\ndef resampleFwdPost (n : Nat) : Nat := (n / 2)\n'
          'def resampleBackPre (n : Nat) : Nat := (n - n / 2)\ndef resampleBackPost (n : Nat) : Nat := (n / 2)\n'
          f'def resampleFwdScale {PARK} (sqrtf : K → K) (zy zx m n mm nn : K) : K := ((zy * zx) / (sqrtf (m * n)))\n'
          f'def resampleBackScale {PARK} (sqrtf : K → K) (zy zx m n mm nn : K) : K := ((zy * zx) * (sqrtf (m * n)))\n'
          'def resampleSameGeometry : Bool := true\n')

    def chain_of(fn, inp, shape_src):
        """symbolic run of the reachable straight-line part: returns (chain, scale expression nodes, mdft call node, prologue text)"""
        env = {inp: []}
        scales, mcall, prologue = [], [], []
        dims = None
        MD = ('idft2', 'idft2_backprop', 'dft2', 'dft2_backprop')

        def sized(node):
            """`<array>.size` of a running array -> a marker saying whether that array still has the extents of the routine's input
            or already those of the matrix-DFT result (names are re-bound along the chain: `fbar` is m x n after the inverse FFT)"""
            import copy

            class S(ast.NodeTransformer):
                def visit_Attribute(self, n):
                    if n.attr == 'size' and isinstance(n.value, ast.Name) and n.value.id in env:
                        side = 'res' if any(t in MD for t in env[n.value.id]) else 'inp'
                        return ast.copy_location(ast.Name(id=f'size_{side}_', ctx=ast.Load()), n)
                    return self.generic_visit(n)
            return ast.fix_missing_locations(S().visit(copy.deepcopy(node)))

        def ev(e):
            if isinstance(e, ast.Name) and e.id in env:
                return list(env[e.id])
            if isinstance(e, ast.Attribute) and e.attr == 'real':
                return ev(e.value) + ['real']
            if isinstance(e, ast.Call):
                f = ast.unparse(e.func)
                if f in ('np.real',) and len(e.args) == 1 and not e.keywords:
                    return ev(e.args[0]) + ['real']
                base = f.split('.')[-1]
                if f in ('fft.fftshift', 'fft.ifftshift', 'fft.fft2', 'fft.ifft2', 'np.fft.fftshift', 'np.fft.ifftshift',
                         'np.fft.fft2', 'np.fft.ifft2'):
                    if len(e.args) != 1 or e.keywords:
                        raise Untranslatable(f'{f} with extra arguments')
                    return ev(e.args[0]) + [base]
                if f in ('mdft.idft2', 'mdft.idft2_backprop', 'mdft.dft2', 'mdft.dft2_backprop'):
                    mcall.append(e)
                    return ev(e.args[0]) + [base]
                if isinstance(e.func, ast.Attribute) and e.func.attr in ('copy',) and not e.args:
                    return ev(e.func.value)
            raise Untranslatable(f'unrecognised operation on the data: {ast.unparse(e)[:70]}')

        for st in fn.body:
            if isinstance(st, ast.Expr) and isinstance(st.value, ast.Constant):
                continue
            if isinstance(st, ast.If):
                prologue.append(ast.unparse(st))
                continue
            if isinstance(st, ast.Assign) and len(st.targets) == 1:
                tgt, val = st.targets[0], st.value
                if isinstance(tgt, ast.Tuple) and ast.unparse(val) == shape_src and len(tgt.elts) == 2:
                    dims = tuple(ast.unparse(x) for x in tgt.elts)
                    continue
                if isinstance(tgt, ast.Name):
                    try:
                        env[tgt.id] = ev(val)
                        continue
                    except Untranslatable:
                        if any(isinstance(n, ast.Name) and n.id in env for n in ast.walk(val)):
                            if isinstance(val, ast.BinOp) and isinstance(val.op, (ast.Mult, ast.Div)):
                                l_in = isinstance(val.left, ast.Name) and val.left.id in env
                                r_in = isinstance(val.right, ast.Name) and val.right.id in env
                                if l_in and not any(isinstance(n, ast.Name) and n.id in env for n in ast.walk(val.right)):
                                    sc = val.right if isinstance(val.op, ast.Mult) else ast.BinOp(ast.Constant(1), ast.Div(), val.right)
                                    env[tgt.id] = env[val.left.id] + ['scale']
                                    scales.append(sized(sc))
                                    continue
                                if r_in and isinstance(val.op, ast.Mult) and not any(isinstance(n, ast.Name) and n.id in env for n in ast.walk(val.left)):
                                    env[tgt.id] = env[val.right.id] + ['scale']
                                    scales.append(sized(val.left))
                                    continue
                            raise
                        prologue.append(ast.unparse(st))      # a scalar local (M, N, ...)
                        continue
            if isinstance(st, ast.AugAssign) and isinstance(st.target, ast.Name) and st.target.id in env:
                if isinstance(st.op, ast.Mult):
                    env[st.target.id] = env[st.target.id] + ['scale']
                    scales.append(sized(st.value))
                    continue
                if isinstance(st.op, ast.Div):
                    env[st.target.id] = env[st.target.id] + ['scale']
                    scales.append(sized(ast.BinOp(ast.Constant(1), ast.Div(), st.value)))
                    continue
                raise Untranslatable(f'unrecognised operation on the data: {ast.unparse(st)[:70]}')
            if isinstance(st, ast.Return):
                return ev(st.value), scales, mcall, prologue, dims      # everything after the first top-level return is unreachable
            raise Untranslatable(f'statement {ast.unparse(st)[:70]}')
        raise Untranslatable('no return')

    def build():
        ff = get_def(ft, 'fourier_resample')
        fb = get_def(dm, 'fourier_resample_backprop')
        fc, fs, fm, fp, fd = chain_of(ff, 'f', 'f.shape')
        bc, bs, bm, bp, bd = chain_of(fb, 'fbar', 'in_shape')
        if fd is None or bd is None:
            raise Untranslatable('array extents not bound from f.shape / in_shape')
        lin = lambda c: [x for x in c if x not in ('real', 'scale')]
        lf, lb = lin(fc), lin(bc)
        if not (len(lf) == 4 and lf[0] in SHIFT and lf[1] == 'fft2' and lf[2] in SHIFT and len(fm) == 1):
            raise Untranslatable(f'forward chain {fc}')
        if not (len(lb) == 4 and lb[1] in SHIFT and lb[2] == 'ifft2' and lb[3] in SHIFT and len(bm) == 1):
            raise Untranslatable(f'backprop chain {bc}')
        if len(fs) != 1 or len(bs) != 1:
            raise Untranslatable('not exactly one scale factor on each side')
        fmt = lambda l: '[' + ', '.join(f'"{x}"' for x in l) + ']'
        # scale factors: m, n are the extents of the resampled array, mm, nn those of the result of the forward
        def scale(node, dims, size_env):
            envs = {'zoom[0]': 'zy', 'zoom[1]': 'zx', dims[0]: 'm', dims[1]: 'n'}
            envs.update(size_env)
            return Tr(envs, mode='num', funcs={'np.sqrt': 'sqrtf', 'truenp.sqrt': 'sqrtf', 'math.sqrt': 'sqrtf'}).expr(node)
        sf = scale(fs[0], fd, {'size_inp_': '(m * n)', 'size_res_': '(mm * nn)', 'M': 'mm', 'N': 'nn'})
        sb = scale(bs[0], bd, {'size_inp_': '(mm * nn)', 'size_res_': '(m * n)'})
        # geometry: same prologue (identity at zoom == 1 apart from the name, zoom normalisation), the matrix DFT is asked for
        # (zoom, (int(m zoom_y), int(n zoom_x))) forward and (zoom, in_shape) backward, neither passes a shift
        fcall, bcall = fm[0], bm[0]
        fa = [ast.unparse(a) for a in fcall.args[1:]] + [f'{k.arg}={ast.unparse(k.value)}' for k in fcall.keywords]
        ba = [ast.unparse(a) for a in bcall.args[1:]] + [f'{k.arg}={ast.unparse(k.value)}' for k in bcall.keywords]
        norm = lambda t: t.replace(' ', '')
        MN = {norm(x) for x in fp}
        geo = (norm(' '.join(fa)) in ('zoom(M,N)',) and f'M=int({fd[0]}*zoom[0])' in MN and f'N=int({fd[1]}*zoom[1])' in MN
               and norm(' '.join(ba)) in (f'zoom({bd[0]},{bd[1]})', 'zoomin_shape')
               and [norm(x).replace('returnfbar', 'returnf') for x in bp if x.startswith('if')]
               == [norm(x) for x in fp if x.startswith('if')])
        if not geo:
            # the text-level comparison of the transform geometry does not recognise this spelling: refuse (hand model + widened sweep)
            # rather than claim a difference
            raise Untranslatable('matrix-DFT geometry / prologue of fourier_resample(_backprop) not in the recognised spelling')
        return (f'def resampleFwdChain : List String := {fmt(fc)}\n'
                f'def resampleBackChain : List String := {fmt(bc)}\n'
                f'def resampleFwdPre (n : Nat) : Nat := {SHIFT[lf[0]]}\ndef resampleFwdPost (n : Nat) : Nat := {SHIFT[lf[2]]}\n'
                f'def resampleBackPre (n : Nat) : Nat := {SHIFT[lb[1]]}\ndef resampleBackPost (n : Nat) : Nat := {SHIFT[lb[3]]}\n'
                f'def resampleFwdScale {PARK} (sqrtf : K → K) (zy zx m n mm nn : K) : K := {sf}\n'
                f'def resampleBackScale {PARK} (sqrtf : K → K) (zy zx m n mm nn : K) : K := {sb}\n'
                f'def resampleSameGeometry : Bool := {"true" if geo else "false"}\n')
    g.item('fourier_resample_backprop', 'prysm/x/dm.py:fourier_resample_backprop',
           lambda: [get_def(ft, 'fourier_resample'), get_def(dm, 'fourier_resample_backprop')], build, FB)


# ------------------------------------------------------------------------------------------------
# session 3b: Wavefront-level *_backprop methods -> function-level routines (argument roles, returned labels), and the
# live-attribute obligation over EVERY forward / backprop method pair of the anchor modules (discovered, not listed)
# ------------------------------------------------------------------------------------------------
def wrapper_items(g, pr):
    def bound(method, callee):
        fn = get_def(pr, f'Wavefront.{method}')
        calls = find_calls(fn, callee)
        if len(calls) != 1:
            raise Untranslatable(f'Wavefront.{method}: {len(calls)} calls of {callee}')
        c = calls[0]
        params = [a.arg for a in get_def(pr, callee).args.args]
        if len(c.args) > len(params):
            raise Untranslatable('too many positional arguments')
        b = {params[k]: a for k, a in enumerate(c.args)}
        for k in c.keywords:
            if k.arg is None or k.arg in b or k.arg not in params:
                raise Untranslatable(f'keyword {k.arg}')
            b[k.arg] = k.value
        return fn, b

    def nums(b, names, env):
        out = []
        for nm in names:
            if nm not in b:
                raise Untranslatable(f'argument {nm} not passed')
            out.append(Tr(env, mode='rat').expr(b[nm]))
        return '[' + ', '.join(out) + ']'

    def tags(b, names):
        return '[' + ', '.join('"' + (ast.unparse(b[nm]) if nm in b else '<default>') + '"' for nm in names) + ']'

    def comparable(bf_, bb_, names):
        """pass-through arguments that differ textually are a recognised difference only when both are bare names / attributes
        (another variable is handed over); any other spelling (a call, a hoisted expression) is refused"""
        for nm in names:
            x = ast.unparse(bf_[nm]) if nm in bf_ else '<default>'
            y = ast.unparse(bb_[nm]) if nm in bb_ else '<default>'
            if x != y and not all(isinstance(v.get(nm), (ast.Name, ast.Attribute)) for v in (bf_, bb_)):
                raise Untranslatable(f'pass-through argument {nm}: {x} vs {y}')

    def ret_wavefront(fn, env):
        """(dx term, space text) of the Wavefront returned by the last plain `return Wavefront(...)`"""
        rets = [r for r in find_returns(fn) if isinstance(r, ast.Call) and ast.unparse(r.func) == 'Wavefront']
        if not rets:
            raise Untranslatable('no return Wavefront(...)')
        r = rets[-1]
        sig = ['cmplx_field', 'wavelength', 'dx', 'space']
        b = {sig[k]: a for k, a in enumerate(r.args)}
        b.update({k.arg: k.value for k in r.keywords})
        return Tr(env, mode='rat').expr(b['dx']), ast.unparse(b['space'])

    PQ = '(p q efl wl : Rat)'

    def ffs():
        ff, fb_ = bound('focus_fixed_sampling', 'focus_fixed_sampling')
        bf, bb = bound('focus_fixed_sampling_backprop', 'focus_fixed_sampling_backprop')
        # forward: called on the pupil wavefront (self.dx = p) with dx = q;  backprop: called on the psf-plane gradient
        # (self.dx = q) with dx = p (the pupil sampling)
        ef = {'self.dx': 'p', 'dx': 'q', 'efl': 'efl', 'self.wavelength': 'wl'}
        eb = {'self.dx': 'q', 'dx': 'p', 'efl': 'efl', 'self.wavelength': 'wl'}
        N = ['input_dx', 'prop_dist', 'wavelength', 'output_dx']
        T = ['wavefunction', 'output_samples', 'shift', 'method']
        comparable(fb_, bb, T)
        dxr, sp = ret_wavefront(bf, eb)
        return (f'def wfFfsFwdNum {PQ} : List Rat := {nums(fb_, N, ef)}\n'
                f'def wfFfsBackNum {PQ} : List Rat := {nums(bb, N, eb)}\n'
                f'def wfFfsFwdPass : List String := {tags(fb_, T)}\n'
                f'def wfFfsBackPass : List String := {tags(bb, T)}\n'
                f'def wfFfsBackRetDx {PQ} : Rat := {dxr}\n'
                f'def wfFfsBackRetSpace : String := {json_str(sp)}\n')
    g.item('Wavefront.focus_fixed_sampling_backprop', 'prysm/propagation.py:Wavefront.focus_fixed_sampling_backprop',
           lambda: [get_def(pr, 'Wavefront.focus_fixed_sampling'), get_def(pr, 'Wavefront.focus_fixed_sampling_backprop')], ffs,
           f'def wfFfsFwdNum {PQ} : List Rat := [p, efl, wl, q]\ndef wfFfsBackNum {PQ} : List Rat := [p, efl, wl, q]\n'
           'def wfFfsFwdPass : List String := ["self.data", "samples", "shift", "method"]\n'
           'def wfFfsBackPass : List String := ["self.data", "samples", "shift", "method"]\n'
           f'def wfFfsBackRetDx {PQ} : Rat := p\ndef wfFfsBackRetSpace : String := "\'pupil\'"\n')

    PF = '(p fdx efl wl : Rat)'

    def fpm():
        ff, fb_ = bound('to_fpm_and_back', 'to_fpm_and_back')
        bf, bb = bound('to_fpm_and_back_backprop', 'to_fpm_and_back_backprop')
        e = {'self.dx': 'p', 'fpm_dx': 'fdx', 'efl': 'efl', 'self.wavelength': 'wl'}
        N = ['dx', 'wavelength', 'efl', 'fpm_dx']
        T = ['wavefunction', 'fpm', 'method', 'shift', 'return_more']

        def more(fn):
            """return_more branch: the names the tuple is unpacked into, the names returned, the dx each is labelled with"""
            unpack = ret = None
            label = {}
            for n in ast.walk(fn):
                if isinstance(n, ast.Assign) and isinstance(n.targets[0], ast.Tuple) and ast.unparse(n.value) == 'pak':
                    unpack = [ast.unparse(x) for x in n.targets[0].elts]
                if isinstance(n, ast.Assign) and isinstance(n.targets[0], ast.Name) and isinstance(n.value, ast.Call) \
                        and ast.unparse(n.value.func) == 'Wavefront' and len(n.value.args) >= 3 \
                        and ast.unparse(n.value.args[0]) == n.targets[0].id:
                    label[n.targets[0].id] = Tr(e, mode='rat').expr(n.value.args[2])
                if isinstance(n, ast.Return) and isinstance(n.value, ast.Tuple):
                    ret = [ast.unparse(x) for x in n.value.elts]
            if unpack is None or ret is None or set(unpack) != set(ret) or any(x not in label for x in ret):
                raise Untranslatable('return_more branch not in the recognised shape')
            return [unpack.index(x) for x in ret], [label[x] for x in ret]
        comparable(fb_, bb, T)
        po, pl = more(bf)
        dxr, sp = ret_wavefront(bf, e)
        return (f'def wfFpmFwdNum {PF} : List Rat := {nums(fb_, N, e)}\n'
                f'def wfFpmBackNum {PF} : List Rat := {nums(bb, N, e)}\n'
                f'def wfFpmFwdPass : List String := {tags(fb_, T)}\n'
                f'def wfFpmBackPass : List String := {tags(bb, T)}\n'
                f'def wfFpmBackMoreOrder : List Nat := [{", ".join(map(str, po))}]\n'
                f'def wfFpmBackMoreDx {PF} : List Rat := [{", ".join(pl)}]\n'
                f'def wfFpmBackRetDx {PF} : Rat := {dxr}\n')
    g.item('Wavefront.to_fpm_and_back_backprop', 'prysm/propagation.py:Wavefront.to_fpm_and_back_backprop',
           lambda: [get_def(pr, 'Wavefront.to_fpm_and_back'), get_def(pr, 'Wavefront.to_fpm_and_back_backprop')], fpm,
           f'def wfFpmFwdNum {PF} : List Rat := [p, wl, efl, fdx]\ndef wfFpmBackNum {PF} : List Rat := [p, wl, efl, fdx]\n'
           'def wfFpmFwdPass : List String := ["self.data", "fpm", "method", "shift", "return_more"]\n'
           'def wfFpmBackPass : List String := ["self.data", "fpm", "method", "shift", "return_more"]\n'
           f'def wfFpmBackMoreOrder : List Nat := [0, 1, 2]\ndef wfFpmBackMoreDx {PF} : List Rat := [p, fdx, fdx]\n'
           f'def wfFpmBackRetDx {PF} : Rat := p\n')


def json_str(t):
    return '"' + t.replace('\\', '\\\\').replace('"', '\\"') + '"'


def live_general_item(g, repo):
    """EVERY class of the anchor modules with a forward / backprop method pair (`forward*`/`backprop*`, `X`/`X_backprop`):
    each `self.attr` the backprop reads is read or written by its forward (directly or through a helper method of the class), is a
    method / property, or is on the short allow list.  The pairs are discovered from the source, so a new node is covered as it appears."""
    MODS = ['prysm/x/optym/activation.py', 'prysm/x/optym/operators.py', 'prysm/x/optym/cost.py', 'prysm/x/dm.py',
            'prysm/propagation.py', 'prysm/fttools.py', 'prysm/polynomials/__init__.py']
    ALLOW = {('DM', 'invprojx'), ('DM', 'invprojy'), ('DM', 'ifn'),          # rotation coordinates (out of scope), shape only
             ('MatrixDFTExecutor', 'Ein'), ('MatrixDFTExecutor', 'Eout'),    # the basis cache, filled under the same key by both
             ('Wavefront', 'space'), ('Wavefront', 'dx'), ('Wavefront', 'wavelength')}   # primary public labels copied onto the returned container

    def attrs(fn, ctx_type):
        return {n.attr for n in ast.walk(fn) if isinstance(n, ast.Attribute) and isinstance(n.value, ast.Name)
                and n.value.id == 'self' and isinstance(n.ctx, ctx_type)}

    def build():
        pairs, stale, hooked = [], [], []
        for rel in MODS:
            mod, _ = load(repo, rel)
            for c in mod.body:
                if not isinstance(c, ast.ClassDef):
                    continue
                meth = {n.name: n for n in c.body if isinstance(n, ast.FunctionDef)}
                for bname, b in meth.items():
                    if 'backprop' not in bname:
                        continue
                    cands = [bname.replace('backprop', 'forward'), bname.replace('_backprop', ''), bname.replace('backprop_', 'forward_')]
                    if bname.startswith('from_amp_and_phase_backprop'):
                        cands.append('from_amp_and_phase')
                    fname = next((x for x in cands if x in meth and x != bname), None)
                    if fname is None:
                        continue          # a helper / an unpaired routine: not a pair (its reads count for the methods that call it)
                    if '__setattr__' in meth or '__getattr__' in meth:
                        hooked.append(f'{c.name}.{fname}/{bname}')
                        continue
                    f = meth[fname]
                    live = attrs(f, ast.Load) | attrs(f, ast.Store) | set(meth)
                    seen, todo = set(), [f]
                    while todo:                       # helper methods of the class called (transitively) by the forward
                        h = todo.pop()
                        for n in ast.walk(h):
                            if isinstance(n, ast.Call) and isinstance(n.func, ast.Attribute) and isinstance(n.func.value, ast.Name) \
                                    and n.func.value.id == 'self' and n.func.attr in meth and n.func.attr not in seen:
                                seen.add(n.func.attr)
                                live |= attrs(meth[n.func.attr], ast.Load) | attrs(meth[n.func.attr], ast.Store)
                                todo.append(meth[n.func.attr])
                    if any(isinstance(d, ast.Name) and d.id == 'classmethod' for d in f.decorator_list):
                        live |= {'wavelength', 'data', 'dx', 'space'} if c.name == 'Wavefront' else set()   # a constructor: its product's fields
                    pairs.append(f'{c.name}.{fname}/{bname}')
                    breads, seen_b, todo_b = set(attrs(b, ast.Load)), set(), [b]
                    while todo_b:                     # helper methods called (transitively) by the backprop read on its behalf
                        h = todo_b.pop()
                        for n in ast.walk(h):
                            if isinstance(n, ast.Call) and isinstance(n.func, ast.Attribute) and isinstance(n.func.value, ast.Name) \
                                    and n.func.value.id == 'self' and n.func.attr in meth and n.func.attr not in seen_b \
                                    and n.func.attr != fname:
                                seen_b.add(n.func.attr)
                                breads |= attrs(meth[n.func.attr], ast.Load)
                                todo_b.append(meth[n.func.attr])
                    for a in sorted(breads - live):
                        if (c.name, a) not in ALLOW:
                            stale.append(f'{c.name}.{bname} reads self.{a}')
        fmt = lambda l: '[' + ', '.join(json_str(x) for x in l) + ']'
        return (f'def liveAttributePairs : List String := {fmt(sorted(pairs))}\n'
                f'def backpropStaleReads : List String := {fmt(sorted(stale))}\n'
                f'def liveAttributeHooked : List String := {fmt(sorted(hooked))}\n')
    g.item('backprop.live_attributes_all', 'prysm/x/optym/activation.py + operators.py + x/dm.py + propagation.py + fttools.py',
           lambda: [load(repo, rel)[0] for rel in MODS], build,
           'def liveAttributePairs : List String := ["Arctan.forward/backprop", "DM.render/render_backprop", "DiscreteEncoder.forward/backprop", "GumbelSoftmax.forward/backprop", "MatrixDFTExecutor.dft2/dft2_backprop", "MatrixDFTExecutor.idft2/idft2_backprop", "Sigmoid.forward/backprop", "Softmax.forward/backprop", "Softplus.forward/backprop", "SpatialGradient2D.forward_x/backprop_x", "SpatialGradient2D.forward_y/backprop_y", "Tanh.forward/backprop", "Wavefront.babinet/babinet_backprop", "Wavefront.focus_fixed_sampling/focus_fixed_sampling_backprop", "Wavefront.intensity/intensity_backprop", "Wavefront.to_fpm_and_back/to_fpm_and_back_backprop"]\ndef backpropStaleReads : List String := []\ndef liveAttributeHooked : List String := []\n')


def generate(repo):
    g = Gen('C06', imports=['PrysmVerif.PyPrelude', 'PrysmVerif.Model.C06'],
            header='set_option linter.unusedVariables false')
    pr, _ = load(repo, 'prysm/propagation.py')
    fixed_sampling_items(g, pr)
    fpm_items(g, pr)
    babinet_items(g, pr)
    op, _ = load(repo, 'prysm/x/optym/operators.py')
    spatial_gradient_items(g, op)
    co, _ = load(repo, 'prysm/x/optym/cost.py')
    cost_items(g, co)
    ac, _ = load(repo, 'prysm/x/optym/activation.py')
    activation_items(g, ac)
    wavefront_items(g, pr)
    ft, _ = load(repo, 'prysm/fttools.py')
    po, _ = load(repo, 'prysm/polynomials/__init__.py')
    dm, _ = load(repo, 'prysm/x/dm.py')
    structural_items(g, ft, po, dm)
    mdft_term_items(g, ft)
    resample_items(g, ft, dm)
    padcrop_items(g, repo)
    live_attribute_items(g, ac, dm)
    flatten_order_items(g, po, ac, co, dm)
    wrapper_items(g, pr)
    live_general_item(g, repo)
    return g.finish()


if __name__ == '__main__':
    import sys
    text, items = generate(sys.argv[1] if len(sys.argv) > 1 else '/repo')
    print(text)
    for it in items:
        print('--', it)
