"""translator items for C06 (backprop companions).

What is pulled out of the current source, and why:
  * the Q / shift arithmetic and the call wiring of focus/unfocus_fixed_sampling(_backprop) and of
    to_fpm_and_back(_backprop) (a small symbolic executor over the straight-line bodies, inlining the callees),
    the sign in front of the mask-and-back adjoint, whether the mask is conjugated, how babinet_backprop
    combines the two terms;
  * the slice-assignment statements of SpatialGradient2D (as data for the interpreter `Model.C06.sgApply`);
  * the closed-form expressions of the cost functions, the activation nodes, the softmax / Gumbel / encoder
    backprops, Wavefront.intensity_backprop / from_amp_and_phase_backprop_phase;
  * structural facts about mdft.dft2_backprop / idft2_backprop, sum_of_2d_modes_backprop, DM.render_backprop.
"""
import ast
from pyexpr2lean import (Gen, Tr, Untranslatable, load, get_def, find_assign, find_returns, find_calls,
                         call_arg, lean_rat, fn_to_lean)
from fractions import Fraction

M = 'Model.C06'


# ------------------------------------------------------------------------------------------------
# symbolic executor for the straight-line propagation glue (rational arithmetic, per-axis pairs)
# ------------------------------------------------------------------------------------------------
class Sym:
    """values:  ('s', lean_term) scalar | ('p', (t0, t1)) per-axis pair | ('arr', tree) array | ('c', python_const)"""

    OPAQUE = {'Q_for_sampling': 'qForSampling'}   # calls emitted as applications of a generated definition

    def __init__(self, mod, env, inline=()):
        self.mod = mod
        self.env = dict(env)
        self.inline = set(inline)     # names of module-level functions that are executed symbolically when called
        self.calls = []               # records of mdft.* calls

    def bind(self, fn, e):
        params = [a.arg for a in fn.args.args]
        defaults = fn.args.defaults
        bound = {}
        for i, a in enumerate(e.args):
            bound[params[i]] = self.ev(a)
        for k in e.keywords:
            bound[k.arg] = self.ev(k.value)
        for p, d in zip(params[len(params) - len(defaults):], defaults):
            if p not in bound:
                bound[p] = Sym(self.mod, {}, self.inline).ev(d)
        missing = [p for p in params if p not in bound]
        if missing:
            raise Untranslatable(f'call {fn.name}: no value for {missing}')
        return params, bound

    # ---- expressions
    def ev(self, e):
        key = ast.unparse(e)
        if key in self.env:
            return self.env[key]
        if isinstance(e, ast.Constant):
            if isinstance(e.value, (int, float)) and not isinstance(e.value, bool):
                return ('s', lean_rat(Fraction(repr(e.value))))
            return ('c', e.value)
        if isinstance(e, ast.Name):
            raise Untranslatable(f'free name {e.id}')
        if isinstance(e, ast.Tuple) or isinstance(e, ast.List):
            vs = [self.ev(x) for x in e.elts]
            if len(vs) == 2 and all(v[0] == 's' for v in vs):
                return ('p', (vs[0][1], vs[1][1]))
            raise Untranslatable(f'tuple {key}')
        if isinstance(e, ast.Subscript):
            base = self.ev(e.value)
            if base[0] == 'p' and isinstance(e.slice, ast.Constant) and e.slice.value in (0, 1):
                return ('s', base[1][e.slice.value])
            raise Untranslatable(f'subscript {key}')
        if isinstance(e, ast.Attribute):
            if e.attr == 'shape':
                raise Untranslatable(f'unknown shape {key}')
            raise Untranslatable(f'attribute {key}')
        if isinstance(e, ast.UnaryOp) and isinstance(e.op, ast.USub):
            v = self.ev(e.operand)
            if v[0] == 's':
                return ('s', f'(-{v[1]})')
            if v[0] == 'arr':
                return ('arr', ('neg', v[1]))
            raise Untranslatable(f'negation of {key}')
        if isinstance(e, ast.BinOp):
            a, b = self.ev(e.left), self.ev(e.right)
            sym = {ast.Add: '+', ast.Sub: '-', ast.Mult: '*', ast.Div: '/'}.get(type(e.op))
            if sym is None:
                raise Untranslatable(f'operator in {key}')
            if a[0] == 's' and b[0] == 's':
                return ('s', f'({a[1]} {sym} {b[1]})')
            if a[0] == 'arr' and b[0] == 'arr' and sym == '*':
                return ('arr', ('mul', a[1], b[1]))
            raise Untranslatable(f'operands of {key}')
        if isinstance(e, (ast.ListComp, ast.GeneratorExp)):
            if len(e.generators) != 1 or e.generators[0].ifs or not isinstance(e.generators[0].target, ast.Name):
                raise Untranslatable(f'comprehension {key}')
            it = self.ev(e.generators[0].iter)
            if it[0] != 'p':
                raise Untranslatable(f'comprehension over non-pair {key}')
            out = []
            for comp in it[1]:
                sub = Sym(self.mod, {**self.env, e.generators[0].target.id: ('s', comp)}, self.inline)
                v = sub.ev(e.elt)
                if v[0] != 's':
                    raise Untranslatable(f'comprehension element {key}')
                out.append(v[1])
            return ('p', tuple(out))
        if isinstance(e, ast.Call):
            return self.call(e)
        raise Untranslatable(f'expression {key}')

    def call(self, e):
        f = ast.unparse(e.func)
        if f in ('tuple', 'list') and len(e.args) == 1:
            return self.ev(e.args[0])
        if f == 'max' and len(e.args) == 1:
            v = self.ev(e.args[0])
            if v[0] == 'p':
                return ('s', f'(max {v[1][0]} {v[1][1]})')
        if f.endswith('.conj') and not e.args:          # fpm.conj()
            v = self.ev(e.func.value)
            if v[0] == 'arr':
                return ('arr', ('conj', v[1]))
        if f in ('np.conj', 'np.conjugate') and len(e.args) == 1:
            v = self.ev(e.args[0])
            if v[0] == 'arr':
                return ('arr', ('conj', v[1]))
        if f.startswith('mdft.'):
            rec = {'func': f, 'args': [self.ev(a) for a in e.args],
                   'kw': {k.arg: self.ev(k.value) for k in e.keywords}}
            self.calls.append(rec)
            return ('arr', ('call', rec))
        if f in self.OPAQUE:
            params, bound = self.bind(get_def(self.mod, f), e)
            if any(bound[p][0] != 's' for p in params):
                raise Untranslatable(f'non-scalar argument of {f}')
            return ('s', '(' + self.OPAQUE[f] + ' ' + ' '.join(bound[p][1] for p in params) + ')')
        if f in self.inline:
            fn = get_def(self.mod, f)
            params, bound = self.bind(fn, e)
            env = dict(bound)
            for p, v in bound.items():
                if v[0] == 'arr':
                    env[p + '.shape'] = self.shape_of(v[1])
            sub = Sym(self.mod, env, self.inline)
            ret = sub.run(fn.body)
            self.calls.extend(sub.calls)
            return ret
        raise Untranslatable(f'call {ast.unparse(e)[:70]}')

    def shape_of(self, tree):
        """shape of an array tree (pair), from the names' shapes / mdft call semantics"""
        k = tree[0]
        if k == 'name':
            return self.env[tree[1] + '.shape']
        if k in ('neg', 'conj', 'condconj'):
            return self.shape_of(tree[1])
        if k == 'mul':
            return self.shape_of(tree[1])
        if k == 'call':
            rec = tree[1]
            f = rec['func']
            if f in ('mdft.dft2', 'mdft.idft2', 'czt.czt2', 'czt.iczt2'):
                return rec['kw'].get('samples_out') or rec['args'][2]
            if f == 'mdft.dft2_backprop':
                return rec['kw'].get('samples_in') or rec['args'][2]
            if f == 'mdft.idft2_backprop':
                return rec['kw'].get('samples_out') or rec['args'][2]
        raise Untranslatable(f'shape of {tree[0]}')

    # ---- conditions
    def static(self, t):
        """True / False when the test is decided by the configuration, None when it is data dependent"""
        s = ast.unparse(t)
        if isinstance(t, ast.Name) and self.env.get(t.id, ('?',))[0] == 'c':
            return bool(self.env[t.id][1])
        if s.startswith('not isinstance(') and s.endswith('Iterable)'):
            return False                                  # shapes / samples are given as tuples
        if s.startswith('isinstance(') and s.endswith(', Wavefront)'):
            return False                                  # masks are plain arrays
        if s.endswith(' is None'):
            v = self.env.get(s[:-8])
            return v is not None and v == ('c', None)
        if s.endswith(' is not None'):
            v = self.env.get(s[:-12])
            return not (v is not None and v == ('c', None))
        if isinstance(t, ast.Compare) and len(t.ops) == 1 and isinstance(t.ops[0], ast.Eq):
            a = self.env.get(ast.unparse(t.left))
            if a is not None and a[0] == 'c' and isinstance(t.comparators[0], ast.Constant):
                return a[1] == t.comparators[0].value
        return None

    def cond(self, t):
        if isinstance(t, ast.BoolOp):
            sym = ' ∧ ' if isinstance(t.op, ast.And) else ' ∨ '
            return '(' + sym.join(self.cond(v) for v in t.values) + ')'
        if isinstance(t, ast.Compare) and len(t.ops) == 1:
            sym = {ast.NotEq: '≠', ast.Eq: '=', ast.Lt: '<', ast.Gt: '>', ast.LtE: '≤', ast.GtE: '≥'}.get(type(t.ops[0]))
            a, b = self.ev(t.left), self.ev(t.comparators[0])
            if sym and a[0] == 's' and b[0] == 's':
                return f'({a[1]} {sym} {b[1]})'
        raise Untranslatable(f'condition {ast.unparse(t)}')

    # ---- statements
    def run(self, stmts):
        for s in stmts:
            r = self.step(s)
            if r is not None:
                return r
        return None

    def assign(self, name, v):
        self.env[name] = v
        if v[0] == 'arr':
            try:
                self.env[name + '.shape'] = self.shape_of(v[1])
            except (Untranslatable, KeyError):
                self.env.pop(name + '.shape', None)

    def step(self, s):
        if isinstance(s, ast.Expr) and isinstance(s.value, ast.Constant):
            return None
        if isinstance(s, ast.Pass):
            return None
        if isinstance(s, ast.Return):
            if isinstance(s.value, ast.Tuple):
                return self.ev(s.value.elts[0])
            return self.ev(s.value)
        if isinstance(s, ast.Raise):
            raise Untranslatable('raise reached')
        if isinstance(s, ast.Assign) and len(s.targets) == 1 and isinstance(s.targets[0], ast.Name):
            self.assign(s.targets[0].id, self.ev(s.value))
            return None
        if isinstance(s, ast.AugAssign) and isinstance(s.target, ast.Name):
            v = self.ev(ast.BinOp(left=ast.Name(id=s.target.id, ctx=ast.Load()), op=s.op, right=s.value))
            self.assign(s.target.id, v)
            return None
        if isinstance(s, ast.If):
            st = self.static(s.test)
            if st is True:
                return self.run(s.body)
            if st is False:
                return self.run(s.orelse)
            t = ast.unparse(s.test)
            if t.startswith('np.iscomplexobj('):
                # only shape accepted: `if np.iscomplexobj(X): X = X.conj()` -> conditional conjugation of X
                arg = t[len('np.iscomplexobj('):-1]
                ok = (len(s.body) == 1 and not s.orelse and isinstance(s.body[0], ast.Assign)
                      and ast.unparse(s.body[0].targets[0]) == arg)
                if arg in self.env and self.env[arg][0] == 'arr' and ok:
                    sub = Sym(self.mod, self.env, self.inline)
                    sub.step(s.body[0])
                    new = sub.env[arg]
                    if new == ('arr', ('conj', self.env[arg][1])):
                        self.assign(arg, ('arr', ('condconj', self.env[arg][1])))
                        return None
                    raise Untranslatable(f'iscomplexobj branch does something else: {ast.unparse(s.body[0])}')
                # the test is applied to something that is not the array (e.g. its dtype): never true in NumPy
                if arg.endswith('.dtype'):
                    return None
                raise Untranslatable(f'iscomplexobj test {t}')
            # data-dependent scalar condition: both branches may only assign; merge with if-then-else terms
            c = self.cond(s.test)
            a = Sym(self.mod, self.env, self.inline)
            b = Sym(self.mod, self.env, self.inline)
            if a.run(s.body) is not None or b.run(s.orelse) is not None:
                raise Untranslatable('return inside a data-dependent branch')
            for name in set(a.env) | set(b.env):
                va, vb = a.env.get(name), b.env.get(name)
                if va == vb:
                    if va is not None:
                        self.env[name] = va
                    continue
                if va is None or vb is None or va[0] != vb[0]:
                    raise Untranslatable(f'{name} has different kinds in the two branches')
                if va[0] == 's':
                    self.env[name] = ('s', f'(if {c} then {va[1]} else {vb[1]})')
                elif va[0] == 'p':
                    self.env[name] = ('p', tuple(f'(if {c} then {x} else {y})' for x, y in zip(va[1], vb[1])))
                else:
                    raise Untranslatable(f'{name}: array differs between branches')
            return None
        raise Untranslatable(f'statement {ast.unparse(s)[:60]}')


def _pair(v, what):
    if v[0] == 'p':
        return v[1]
    if v[0] == 's':
        return (v[1], v[1])          # MatrixDFTExecutor._key broadcasts a scalar Q / shift to both axes
    raise Untranslatable(f'{what} is not a scalar or pair')


def _mdft_call(tree):
    if tree[0] != 'call':
        raise Untranslatable(f'expected an mdft call, found {tree[0]}')
    return tree[1]


def _leg(rec, ary_kw_names=('ary', 'fbar')):
    """(func, array tree, Q pair, samples pair, shift pair) of an mdft call record"""
    args, kw = rec['args'], rec['kw']
    ary = args[0] if args else next(kw[k] for k in ary_kw_names if k in kw)
    Q = args[1] if len(args) > 1 else kw['Q']
    samp = args[2] if len(args) > 2 else next(kw[k] for k in ('samples_out', 'samples_in') if k in kw)
    shift = args[3] if len(args) > 3 else kw.get('shift', ('p', (lean_rat(0), lean_rat(0))))
    sampkw = None if len(args) > 2 else next(k for k in ('samples_out', 'samples_in') if k in kw)
    return rec['func'], ary[1], _pair(Q, 'Q'), _pair(samp, 'samples'), _pair(shift, 'shift'), sampkw


RAT7 = '(a0 a1 b0 b1 inputDx propDist wavelength outputDx sx sy : Rat)'


def _defs(prefix, Q, shift, binder=RAT7):
    return (f'def {prefix}Qy {binder} : Rat := {Q[0]}\n'
            f'def {prefix}Qx {binder} : Rat := {Q[1]}\n'
            f'def {prefix}ShiftX {binder} : Rat := {shift[0]}\n'
            f'def {prefix}ShiftY {binder} : Rat := {shift[1]}\n')


def fixed_sampling_items(g, pr):
    """focus/unfocus_fixed_sampling and their backprops, as functions of
    (a0,a1) = shape of the forward INPUT, (b0,b1) = shape of the forward OUTPUT."""
    def qfs_def():
        fn = get_def(pr, 'Q_for_sampling')
        return fn_to_lean(fn, 'qForSampling', ['input_diameter', 'prop_dist', 'wavelength', 'output_dx'], 'Rat', mode='rat')
    g.item('Q_for_sampling', 'prysm/propagation.py:Q_for_sampling', lambda: get_def(pr, 'Q_for_sampling'), qfs_def,
           f'def qForSampling (input_diameter prop_dist wavelength output_dx : Rat) : Rat := {M}.qForSampling input_diameter prop_dist wavelength output_dx')

    base = {'input_dx': ('s', 'inputDx'), 'prop_dist': ('s', 'propDist'), 'wavelength': ('s', 'wavelength'),
            'output_dx': ('s', 'outputDx'), 'shift': ('p', ('sx', 'sy')), 'method': ('c', 'mdft')}

    def run(fname, fwd):
        fn = get_def(pr, fname)
        env = dict(base)
        env['wavefunction'] = ('arr', ('name', 'wavefunction'))
        if fwd:
            env['wavefunction.shape'] = ('p', ('a0', 'a1'))
            env['output_samples'] = ('p', ('b0', 'b1'))
        else:
            env['wavefunction.shape'] = ('p', ('b0', 'b1'))
            env['output_samples'] = ('p', ('a0', 'a1'))
        sx = Sym(pr, env)
        ret = sx.run(fn.body)
        if ret is None or ret[0] != 'arr':
            raise Untranslatable(f'{fname} does not return an array')
        return _leg(_mdft_call(ret[1]))

    specs = [('ffsFwd', 'focus_fixed_sampling', True, 'mdft.dft2', 'samples_out', 'b'),
             ('ffsBack', 'focus_fixed_sampling_backprop', False, 'mdft.dft2_backprop', 'samples_in', 'a'),
             ('ufsFwd', 'unfocus_fixed_sampling', True, 'mdft.idft2', 'samples_out', 'b'),
             ('ufsBack', 'unfocus_fixed_sampling_backprop', False, 'mdft.idft2_backprop', 'samples_out', 'a')]
    for prefix, fname, fwd, want_func, want_kw, want_s in specs:
        def build(prefix=prefix, fname=fname, fwd=fwd, want_func=want_func, want_kw=want_kw, want_s=want_s):
            func, ary, Q, samp, shift, sampkw = run(fname, fwd)
            wired = (func == want_func and ary == ('name', 'wavefunction') and samp == (want_s + '0', want_s + '1')
                     and sampkw in (want_kw, None))
            return _defs(prefix, Q, shift) + f'def {prefix}Wired : Bool := {"true" if wired else "false"}\n'
        fb = ''.join(f'def {prefix}{nm} {RAT7} : Rat := {M}.fixedQ {s} inputDx propDist wavelength outputDx\n'
                     for nm, s in (('Qy', 'a0'), ('Qx', 'a1'))) + \
            f'def {prefix}ShiftX {RAT7} : Rat := sx / outputDx\ndef {prefix}ShiftY {RAT7} : Rat := sy / outputDx\n' \
            f'def {prefix}Wired : Bool := true\n'
        g.item(fname, f'prysm/propagation.py:{fname}', lambda fname=fname: get_def(pr, fname), build, fb)


FPM_BINDER = '(p0 p1 m0 m1 dx efl wavelength fpmDx sx sy : Rat)'


def _sign_and_core(tree):
    """strip negations: returns (sign, tree)"""
    sign = 1
    while tree[0] == 'neg':
        sign, tree = -sign, tree[1]
    return sign, tree


def fpm_items(g, pr):
    inline = ('focus_fixed_sampling', 'unfocus_fixed_sampling', 'focus_fixed_sampling_backprop',
              'unfocus_fixed_sampling_backprop')

    def run(fname):
        fn = get_def(pr, fname)
        env = {'wavefunction': ('arr', ('name', 'wavefunction')), 'wavefunction.shape': ('p', ('p0', 'p1')),
               'fpm': ('arr', ('name', 'fpm')), 'fpm.shape': ('p', ('m0', 'm1')),
               'dx': ('s', 'dx'), 'efl': ('s', 'efl'), 'wavelength': ('s', 'wavelength'), 'fpm_dx': ('s', 'fpmDx'),
               'shift': ('p', ('sx', 'sy')), 'method': ('c', 'mdft'), 'return_more': ('c', False)}
        sx = Sym(pr, env, inline)
        return sx.run(fn.body)

    def legs(fname):
        ret = run(fname)
        if ret is None or ret[0] != 'arr':
            raise Untranslatable(f'{fname} does not return an array')
        s_out, outer = _sign_and_core(ret[1])
        f2, ary2, Q2, samp2, shift2, _ = _leg(_mdft_call(outer))
        s_mid, mid = _sign_and_core(ary2)
        if mid[0] != 'mul':
            raise Untranslatable('argument of the second transform is not (field * mask)')
        sa, A = _sign_and_core(mid[1])
        sb, B = _sign_and_core(mid[2])
        # which factor is the mask?
        def is_mask(t):
            while t[0] in ('conj', 'condconj'):
                t = t[1]
            return t == ('name', 'fpm')
        if is_mask(B) and not is_mask(A):
            field, mask = A, B
        elif is_mask(A) and not is_mask(B):
            field, mask = B, A
        else:
            raise Untranslatable('cannot tell the mask from the field')
        s_in, inner = _sign_and_core(field)
        f1, ary1, Q1, samp1, shift1, _ = _leg(_mdft_call(inner))
        s0, src = _sign_and_core(ary1)
        sign = s_out * s_mid * sa * sb * s_in * s0
        conj = {'name': 'never', 'condconj': 'iff_complex', 'conj': 'always'}[mask[0]]
        return dict(sign=sign, conj=conj, first=(f1, src, Q1, samp1, shift1), second=(f2, Q2, samp2, shift2))

    def fwd():
        r = legs('to_fpm_and_back')
        f1, src, Q1, samp1, shift1 = r['first']
        f2, Q2, samp2, shift2 = r['second']
        wired = (f1 == 'mdft.dft2' and f2 == 'mdft.idft2' and src == ('name', 'wavefunction')
                 and samp1 == ('m0', 'm1') and samp2 == ('p0', 'p1') and r['conj'] == 'never' and r['sign'] == 1)
        return (_defs('fpmFwdOut', Q1, shift1, FPM_BINDER) + _defs('fpmFwdRet', Q2, shift2, FPM_BINDER)
                + f'def fpmFwdWired : Bool := {"true" if wired else "false"}\n')
    fb_f = (''.join(f'def fpmFwdOut{nm} {FPM_BINDER} : Rat := {t}\n' for nm, t in
                    (('Qy', f'{M}.fixedQ p0 dx efl wavelength fpmDx'), ('Qx', f'{M}.fixedQ p1 dx efl wavelength fpmDx'),
                     ('ShiftX', 'sx / fpmDx'), ('ShiftY', 'sy / fpmDx')))
            + ''.join(f'def fpmFwdRet{nm} {FPM_BINDER} : Rat := {t}\n' for nm, t in
                      (('Qy', f'{M}.fixedQ m0 fpmDx efl wavelength dx'), ('Qx', f'{M}.fixedQ m1 fpmDx efl wavelength dx'),
                       ('ShiftX', 'sx * dx / fpmDx / dx'), ('ShiftY', 'sy * dx / fpmDx / dx')))
            + 'def fpmFwdWired : Bool := true\n')
    g.item('to_fpm_and_back', 'prysm/propagation.py:to_fpm_and_back', lambda: get_def(pr, 'to_fpm_and_back'), fwd, fb_f)

    def back():
        r = legs('to_fpm_and_back_backprop')
        f1, src, Q1, samp1, shift1 = r['first']       # executed first: adjoint of the RETURN leg
        f2, Q2, samp2, shift2 = r['second']           # executed second: adjoint of the OUTWARD leg
        wired = (f1 == 'mdft.idft2_backprop' and f2 == 'mdft.dft2_backprop' and src == ('name', 'wavefunction')
                 and samp1 == ('m0', 'm1') and samp2 == ('p0', 'p1'))
        return (_defs('fpmBackRet', Q1, shift1, FPM_BINDER) + _defs('fpmBackOut', Q2, shift2, FPM_BINDER)
                + f'def fpmBackWired : Bool := {"true" if wired else "false"}\n'
                + f'def fpmBackSign : Int := {r["sign"]}\n'
                + f'def fpmBackConjMaskIffComplex : Bool := {"true" if r["conj"] in ("iff_complex", "always") else "false"}\n')
    fb_b = (fb_f.replace('fpmFwd', 'fpmBack') + 'def fpmBackSign : Int := 1\ndef fpmBackConjMaskIffComplex : Bool := true\n')
    g.item('to_fpm_and_back_backprop', 'prysm/propagation.py:to_fpm_and_back_backprop',
           lambda: get_def(pr, 'to_fpm_and_back_backprop'), back, fb_b)


def generate(repo):
    g = Gen('C06', imports=['PrysmVerif.PyPrelude', 'PrysmVerif.Model.C06'])
    pr, _ = load(repo, 'prysm/propagation.py')
    fixed_sampling_items(g, pr)
    fpm_items(g, pr)
    return g.finish()


if __name__ == '__main__':
    import sys
    text, items = generate(sys.argv[1] if len(sys.argv) > 1 else '/repo')
    print(text)
    for it in items:
        print('--', it)
