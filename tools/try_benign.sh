#!/bin/bash
# usage: tools/try_benign.sh <Cxx> <out_dir>  -> per b<i>: digest equality + check exit (expect 0)
pid=$1; out=$2
cd /repo || exit 2
if [ -n "$(git status --porcelain)" ]; then echo "/repo not clean"; exit 2; fi
for d in $out/b*.diff; do
  i=$(basename $d .diff)
  d0=$(cd /repo && /venv/bin/python $out/${i}_demo.py 2>&1 | tail -1)
  git apply $d 2>/dev/null || { echo "$pid $i | patch does not apply"; continue; }
  d1=$(cd /repo && /venv/bin/python $out/${i}_demo.py 2>&1 | tail -1)
  cd /verif; ./run $pid quick > .work/benign.log 2>&1; rc=$?
  line="$(grep -E '^VIOLATION|^TIE-DEGRADED' .work/benign.log | head -2 | cut -c1-160 | tr '\n' ';')"
  cd /repo; git checkout -- .
  [ "$d0" == "$d1" ] && same=same-digest || same=DIGEST-DIFFERS
  echo "$pid $i | $same | check exit $rc | $line"
done
cd /verif; git checkout -- lean/PrysmVerif/Generated lean/PrysmVerif/Audit evidence 2>/dev/null
