#!/bin/bash
# usage: tools/try_mutant.sh <Cxx> <diff> <demo.py> [tier]
# applies a seeded change to /repo, runs the demo, the baseline suite and the check, then undoes the change.
pid=$1; diff=$(readlink -f "$2"); demo=$(readlink -f "$3"); tier=${4:-quick}
cd /repo || exit 2
if [ -n "$(git status --porcelain)" ]; then echo "/repo not clean"; exit 2; fi
( cd /repo && /venv/bin/python "$demo" >/dev/null 2>&1 ); echo "demo on clean tree: exit $?"
git apply "$diff" || { echo "patch does not apply"; exit 2; }
cd /repo; /venv/bin/python "$demo" > /verif/.work/demo.log 2>&1; rc=$?; tail -3 /verif/.work/demo.log; echo "demo with change: exit $rc"
if [ -z "$SKIP_BASELINE" ]; then /verif/tools/baseline.py /repo | head -3; fi
cd /verif; ./run "$pid" "$tier" > .work/mut.log 2>&1; rc=$?; tail -4 .work/mut.log; echo "check exit: $rc"
git -C /repo checkout -- . ; git -C /repo status --porcelain
./run "$pid" quick > .work/mut.log 2>&1; rc=$?; tail -1 .work/mut.log; echo "check on restored tree: exit $rc"
