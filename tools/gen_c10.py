"""translator items for C10 (fast modal sums): recurrence_abc, jacobi_sum_clenshaw, change_basis_Qbfs_to_Pn,
clenshaw_qbfs, abc_q2d, abc_q2d_clenshaw, change_of_basis_Q2d_to_Pnm, clenshaw_q2d, the read-out / skip logic of
compute_z_zprime_Q2d, the key-set maxima of Q2d_nm_c_to_a_b, sum_of_2d_modes, lstsq.

What is extracted is the glue where the defects of this cluster live: the recurrence step expressions, which
coefficient index feeds which factor, which table entries are read and written, loop bounds, the guards for
one-term inputs, the read-out formulas, the skip conditions, the mask plumbing.
"""
import ast
import re
from fractions import Fraction
from pyexpr2lean import (Gen, Tr, Untranslatable, load, get_def, find_assign, find_assigns, find_returns,
                         find_calls, call_arg, body_to_lean, lean_num)
from pysym import normalised_def, SymEx, canonical_locals, local_assigned_with, canon_cond, merge_paths, U as unp


# ------------------------------------------------------------------------------------------------
# three-valued structural facts inside translated items
# ------------------------------------------------------------------------------------------------
# calls that turn any iterable into a sequence holding the same items in the same order
MATERIALISERS = ('_as_sequence', 'list', 'tuple')


def is_rebind(stmt, name):
    """`name = M(name)` or `if name is not None: name = M(name)` with M a materialiser: the name keeps the same items"""
    if isinstance(stmt, ast.If):
        return (ast.unparse(stmt.test).replace(' ', '') == f'{name} is not None'.replace(' ', '') and not stmt.orelse
                and len(stmt.body) == 1 and is_rebind(stmt.body[0], name))
    return (isinstance(stmt, ast.Assign) and len(stmt.targets) == 1 and ast.unparse(stmt.targets[0]) == name
            and isinstance(stmt.value, ast.Call) and ast.unparse(stmt.value.func) in MATERIALISERS
            and [ast.unparse(a) for a in stmt.value.args] == [name] and not stmt.value.keywords)


ONE_PASS_CONSUMERS = ('zip', 'zip_longest', 'enumerate', 'map', 'sorted', 'reversed', 'iter', 'max', 'min', 'sum', 'filter', 'chain')
ARRAY_WRAPPERS = ('np.asarray', 'np.array', 'np.ascontiguousarray')


def iter_param_verdict(fn, p):
    """how does `fn` read its parameter `p`, documented as an iterable?   True  - it materialises it first (p = M(p), M in
    MATERIALISERS) or reads it exactly once, front to back (for / zip / enumerate / handing it on whole);   False - recognised and
    wrong for an iterable that can be traversed only once or has no len(): read twice, read inside a loop, measured (len), indexed
    or handed to np.asarray before being materialised;   None - some other use (not recognised)"""
    parents = {}
    skip = set()
    for node in ast.walk(fn):
        for child in ast.iter_child_nodes(node):
            parents[child] = node
        if node is not fn and isinstance(node, (ast.FunctionDef, ast.Lambda)) and p in [a.arg for a in node.args.args]:
            skip.update(ast.walk(node))                          # a nested function with its own parameter of that name
    loads = sorted([n for n in ast.walk(fn) if isinstance(n, ast.Name) and n.id == p and isinstance(n.ctx, ast.Load) and n not in skip],
                   key=lambda n: (n.lineno, n.col_offset))

    def fname(call):
        return ast.unparse(call.func)

    def repeated(n):
        """is n evaluated more than once per call (inside a loop body / comprehension element)?  None: inside a nested function"""
        child, node = n, parents[n]
        while node is not fn:
            if isinstance(node, (ast.For, ast.AsyncFor)) and child is not node.iter:
                return True
            if isinstance(node, ast.While):
                return True
            if isinstance(node, (ast.ListComp, ast.SetComp, ast.GeneratorExp, ast.DictComp)):
                if not (child is node.generators[0]):
                    return True
            if isinstance(node, ast.comprehension) and child is not node.iter:
                return True
            if isinstance(node, (ast.FunctionDef, ast.Lambda)):
                return None
            child, node = node, parents[node]
        return False

    materialised = False
    count = 0
    for n in loads:
        par = parents[n]
        if isinstance(par, ast.Compare) and all(isinstance(o, (ast.Is, ast.IsNot)) for o in par.ops) \
                and all(isinstance(c, ast.Constant) and c.value is None for c in par.comparators):
            continue                                             # `p is None` does not read the items
        if materialised:
            continue
        rep = repeated(n)
        if rep is None:
            return None
        if rep:
            return False
        if isinstance(par, ast.Call) and n in par.args:
            f = fname(par)
            if f in MATERIALISERS and par.args == [n] and not par.keywords:
                top = par
                while isinstance(parents[top], ast.Call) and fname(parents[top]) in ARRAY_WRAPPERS and parents[top].args[:1] == [top]:
                    top = parents[top]
                st = parents[top]
                count += 1
                if isinstance(st, ast.Assign) and len(st.targets) == 1 and isinstance(st.targets[0], ast.Name) and st.targets[0].id == p:
                    materialised = True
                continue
            if f == 'len' or f in ARRAY_WRAPPERS:
                return False
            count += 1                                           # zip / enumerate / ... or handed on whole: one pass
            continue
        if isinstance(par, ast.keyword):
            count += 1
            continue
        if isinstance(par, (ast.For, ast.comprehension)) and par.iter is n:
            count += 1
            continue
        if isinstance(par, ast.Subscript) and par.value is n:
            return False
        if isinstance(par, ast.Starred):
            count += 1
            continue
        return None
    if count == 0:
        return None
    return count == 1


def iter_params_fact(pairs):
    """pairs: [(function node, parameter name)]; three-valued conjunction"""
    verdicts = [iter_param_verdict(fn, p) for fn, p in pairs]
    if any(v is False for v in verdicts):
        return False
    if any(v is None for v in verdicts):
        return None
    return True


def tri(right, wrong=False):
    """'true'  : the construct was recognised and is what the theorems need
       'false' : recognised and WRONG (the theorem over it fails)
       'unknown': the source is written in a way this recogniser does not know -> emitted as `true`, item recorded as
                  untranslatable (tie degraded, correspondence widened); behaviour is then covered by execution only"""
    if right:
        return 'true'
    return 'false' if wrong else 'unknown'


_BOOL_RE = re.compile(r'^def (\w+) : Bool := (true|false|unknown)[ \t]*$', re.M)


class GenT(Gen):
    """Gen whose items may contain `def X : Bool := true|false|unknown` lines; those are split off and registered through the
    three-valued Gen.fact, so that an unrecognised spelling degrades the tie instead of failing a theorem"""

    def item(self, name, source, node_fn, build, fallback):
        facts = {}
        names = [nm for nm, _ in _BOOL_RE.findall(fallback)]

        def build2():
            text = build()
            for nm, val in _BOOL_RE.findall(text):
                facts[nm] = val
            return _BOOL_RE.sub('', text)
        super().item(name, source, node_fn, build2, _BOOL_RE.sub('', fallback))
        for nm in names + [k for k in facts if k not in names]:
            v = facts.get(nm, 'unknown')
            super().fact(nm, f'{source}#{nm}', (lambda v=v: {'true': True, 'false': False, 'unknown': None}[v]))


def alpha_norm(stmts):
    """source text of a statement list with the locally assigned names renamed to v0, v1, ... in order of first assignment
    (comparison modulo renaming of locals)"""
    import copy
    stmts = copy.deepcopy(stmts)
    order = {}
    for st in stmts:
        for n in ast.walk(st):
            if isinstance(n, ast.Name) and isinstance(n.ctx, ast.Store) and n.id not in order:
                order[n.id] = f'v{len(order)}'
    for st in stmts:
        for n in ast.walk(st):
            if isinstance(n, ast.Name) and n.id in order:
                n.id = order[n.id]
    return [ast.unparse(st) for st in stmts]

JAC = 'prysm/polynomials/jacobi.py'
QP = 'prysm/polynomials/qpoly.py'
INIT = 'prysm/polynomials/__init__.py'


# ------------------------------------------------------------------------------------------------
# helpers shared with gen_c09
# ------------------------------------------------------------------------------------------------
def norm(text):
    """canonical `ast.unparse` spelling of a python expression given as text"""
    return ast.unparse(ast.parse(text, mode='eval').body)


def snorm(text):
    """canonical spelling of a python statement given as text"""
    return ast.unparse(ast.parse(text))


def stmt_is(node, text):
    return ast.unparse(node) == snorm(text)


def env(**kw):
    return dict(kw)


def nenv(pairs):
    """{python expression text: lean term} with the keys normalised"""
    return {norm(k): v for k, v in pairs.items()}


def sub_assigns(node, base):
    """all `base[...]... = value` assignments below `node`, in source order: (lineno, target, value)"""
    out = []
    for n in ast.walk(node):
        if isinstance(n, ast.Assign) and len(n.targets) == 1 and isinstance(n.targets[0], ast.Subscript):
            t = n.targets[0]
            root = t
            while isinstance(root, ast.Subscript):
                root = root.value
            if isinstance(root, ast.Name) and root.id == base:
                out.append((n.lineno, t, n.value))
    out.sort(key=lambda p: p[0])
    return out


def for_loops(node):
    out = [n for n in ast.walk(node) if isinstance(n, ast.For)]
    out.sort(key=lambda n: n.lineno)
    return out


def range_args(loop):
    it = loop.iter
    if not (isinstance(it, ast.Call) and ast.unparse(it.func) == 'range'):
        raise Untranslatable(f'loop is not over range(): {ast.unparse(it)}')
    return it.args


def index_of(target):
    """`a[i]` -> [i] ;  `a[i][k]` -> [i, k]"""
    idx = []
    t = target
    while isinstance(t, ast.Subscript):
        idx.append(t.slice)
        t = t.value
    return list(reversed(idx))


def reads_of(node, base):
    """index lists of every read `base[...]...` (outermost subscripts only) inside node"""
    out = []

    def visit(n):
        if isinstance(n, ast.Subscript):
            root = n
            while isinstance(root, ast.Subscript):
                root = root.value
            if isinstance(root, ast.Name) and root.id == base:
                out.append(index_of(n))
                return
        for c in ast.iter_child_nodes(n):
            visit(c)
    visit(node)
    return out


def tuple_unpack_calls(stmts, fname):
    """`a, b, _ = fname(args)` statements: list of (names, call)"""
    out = []
    for s in stmts:
        if isinstance(s, ast.Assign) and isinstance(s.value, ast.Call) and ast.unparse(s.value.func) == fname \
                and isinstance(s.targets[0], ast.Tuple):
            names = []
            for el in s.targets[0].elts:
                if isinstance(el, ast.Starred):
                    names.append('*')
                else:
                    names.append(el.id)
            out.append((names, s.value))
    return out


def stmts_before(fn, lineno):
    """top-level statements of fn that start before `lineno`"""
    return [s for s in fn.body if s.lineno < lineno]


def has_early_return_guard(fn, test_text, before_line):
    """is there a top-level `if <test>: return ...` before `before_line`?"""
    for s in fn.body:
        if isinstance(s, ast.If) and s.lineno < before_line and norm(ast.unparse(s.test)) == norm(test_text) \
                and any(isinstance(b, ast.Return) for b in s.body):
            return s
    return None


def returns_in_order(fn):
    """return-value nodes of fn (nested defs excluded), in source order"""
    out = []

    def visit(n):
        for c in ast.iter_child_nodes(n):
            if isinstance(c, (ast.FunctionDef, ast.Lambda, ast.ClassDef)):
                continue
            if isinstance(c, ast.Return) and c.value is not None:
                out.append(c)
            visit(c)
    visit(fn)
    out.sort(key=lambda r: r.lineno)
    return [r.value for r in out]


def I(expr_node, names):
    return Tr({n: n for n in names}, mode='int').expr(expr_node)


def N(expr_node, table):
    return Tr(nenv(table), mode='num').expr(expr_node)


HDR = '''variable {K : Type} [Num K]
open Num'''


def q2d_sides(module, fn, loop):
    """path-wise analysis of the per-order loop body of compute_z_zprime_Q2d (symbolic execution, same-module helpers inlined):
    for each of Sa, Sprimea, Sb, Sprimeb the value on every path, as a function of `N >= 0` and `m == 1 and N > 2`.
    Returns dict(skip_both, sides={name: dict(base, corr, call, coef_ok, zero_when_empty, guarded)})"""
    sx = SymEx(module)
    sx.identity = sx._identities(fn)
    paths = sx.block(list(loop.body), {}, [], [])
    if not (isinstance(loop.target, ast.Tuple) and len(loop.target.elts) == 2 and all(isinstance(e, ast.Name) for e in loop.target.elts)):
        raise Untranslatable('loop target is not a pair of names')
    ca, cb = (e.id for e in loop.target.elts)
    cont = [p for p in paths if p.kind == 'continue']
    live = [p for p in paths if p.kind == 'fall']
    if len(cont) + len(live) != len(paths) or not live:
        raise Untranslatable('loop body has paths that neither fall through nor continue')
    ms = {unp(p.env['m']) if 'm' in p.env else 'm' for p in live}
    if len(ms) != 1:
        raise Untranslatable('azimuthal order differs between paths')
    MM = ms.pop()

    def lens(c):
        return [f'len({c}) - 1'] + [f'len({f}({c})) - 1' for f in MATERIALISERS]
    found = None
    if len(cont) == 1 and len(cont[0].conds) == 1 and cont[0].conds[0][1] is True:
        for na in lens(ca):
            for nb in lens(cb):
                if cont[0].conds[0][0] in (norm(f'{na} < 0 and {nb} < 0'), norm(f'{nb} < 0 and {na} < 0')):
                    found = (na, nb)
    if found is None:
        raise Untranslatable('skip condition of the loop not recognised')
    out = {'skip_both': True, 'm': MM, 'sides': {}}
    for sname, coef, NN, row in (('Sa', ca, found[0], 0), ('Sprimea', ca, found[0], 1), ('Sb', cb, found[1], 0), ('Sprimeb', cb, found[1], 1)):
        ge0 = canon_cond(ast.parse(f'{NN} >= 0', mode='eval').body, True)[0]
        c2 = canon_cond(ast.parse(f'{MM} == 1 and {NN} > 2', mode='eval').body, True)[0]
        # the guard of the m = 1 correction as written: `m == 1 and N > K` / `N >= K + 1` for a literal K; K != 2 is recognised and
        # WRONG (the constant -2/5 enters the auxiliary polynomials at P_3, i.e. for every list longer than three)
        threshold = None
        for q in live:
            for text, _pol in q.conds:
                mt = re.fullmatch(re.escape(f'{MM} == 1 and {NN} ') + r'(>|>=) (\d+)', text)
                if mt:
                    threshold = int(mt.group(2)) - (1 if mt.group(1) == '>=' else 0)
                    c2 = text
        vals = {(False, None): set(), (True, False): set(), (True, True): set()}
        nodes = {}
        decided = True
        for q in live:
            pol = q.cond(ge0)
            v = q.env.get(sname)
            if pol is None or v is None:
                decided = False
                continue
            key = (False, None) if not pol else (True, q.cond(c2))
            if key not in vals:
                decided = False
                continue
            vals[key].add(unp(v))
            nodes[key] = v
        rec = {'ok': False, 'threshold': threshold}
        out['sides'][sname] = rec
        if not decided or any(len(v) != 1 for v in vals.values()):
            continue
        base, full = nodes[(True, False)], nodes[(True, True)]
        rec['zero_when_empty'] = vals[(False, None)] == {'0'}
        if not (isinstance(full, ast.BinOp) and isinstance(full.op, ast.Sub) and unp(full.left) == unp(base)):
            continue
        calls = {unp(c_) for c_ in find_calls(base, 'clenshaw_q2d_der')} | {unp(c_) for c_ in find_calls(full.right, 'clenshaw_q2d_der')}
        if len(calls) != 1:
            continue
        call = calls.pop()
        args = [unp(a_) for a_ in ast.parse(call, mode='eval').body.args]
        rec['coef_ok'] = len(args) == 3 and args[0] in [coef] + [f'{f}({coef})' for f in MATERIALISERS] and args[1] == MM and args[2] == 'usq' \
            and not ast.parse(call, mode='eval').body.keywords
        rec['base'] = N(base, {f'{call}[{row}][0]': 'a0'})
        rec['corr'] = N(full.right, {f'{call}[{row}][3]': 'a3'})
        rec['call'] = call
        rec['ok'] = True
    return out


def generate(repo):
    get_def = normalised_def          # helpers inlined, view aliases of table rows propagated (tools/pysym.py)
    g = GenT('C10', imports=['PrysmVerif.PyPrelude', 'PrysmVerif.Model.C10'], header=HDR)
    jac, _ = load(repo, JAC)
    qp, _ = load(repo, QP)
    ini, _ = load(repo, INIT)

    # ---------------------------------------------------------------- recurrence_abc
    def rec_abc():
        fn = get_def(jac, 'recurrence_abc')
        top = [s for s in fn.body if isinstance(s, ast.If)]
        if len(top) != 1:
            raise Untranslatable('recurrence_abc: expected one if/else')
        iff = top[0]
        test = norm(ast.unparse(iff.test))
        ok_test = test == norm('n == 0 and (aplusb == 0 or aplusb == -1)')
        apb = norm(ast.unparse(find_assign(fn, 'aplusb'))) == norm('alpha + beta')
        (ret,) = find_returns(fn)
        if ast.unparse(ret) != '(A, B, C)':
            raise Untranslatable('recurrence_abc: return is not (A, B, C)')
        tr = Tr({'n': 'n', 'alpha': 'alpha', 'beta': 'beta'}, mode='num')
        ret_stmt = ast.Return(value=ret)
        spec = body_to_lean(iff.body + [ret_stmt], tr, '  ')
        gen_ = body_to_lean(iff.orelse + [ret_stmt], tr, '  ')
        return (f'def recABCSpecial (n alpha beta : K) : K × K × K :=\n  {spec}\n'
                f'def recABCGeneral (n alpha beta : K) : K × K × K :=\n  {gen_}\n'
                f'def recABCBranchIsAtZeroWithSumZeroOrMinusOne : Bool := {tri(ok_test and apb)}')
    g.item('recurrence_abc', f'{JAC}:recurrence_abc', lambda: get_def(jac, 'recurrence_abc'), rec_abc,
           'def recABCSpecial (n alpha beta : K) : K × K × K := '
           '(ofInt 1 / ofInt 2 * (alpha + beta) + ofInt 1, ofInt 1 / ofInt 2 * (alpha - beta), ofInt 1)\n'
           'def recABCGeneral (n alpha beta : K) : K × K × K := '
           'let _ := alpha; ((ofInt 2 * n + alpha + beta + ofInt 1) * (ofInt 2 * n + alpha + beta + ofInt 2) / '
           '(ofInt 2 * (n + ofInt 1) * (n + alpha + beta + ofInt 1)), '
           '(npow alpha 2 - npow beta 2) * (ofInt 2 * n + alpha + beta + ofInt 1) / '
           '(ofInt 2 * (n + ofInt 1) * (n + alpha + beta + ofInt 1) * (ofInt 2 * n + alpha + beta)), '
           '(n + alpha) * (n + beta) * (ofInt 2 * n + alpha + beta + ofInt 2) / '
           '((n + ofInt 1) * (n + alpha + beta + ofInt 1) * (ofInt 2 * n + alpha + beta)))\n'
           'def recABCBranchIsAtZeroWithSumZeroOrMinusOne : Bool := true')

    # ---------------------------------------------------------------- generic Clenshaw sweep reader
    def sweep(fn, arr, coef_fn, src, names, abnames):
        """read a downward sweep `arr[n] = src[n] + (…) * arr[n+1] - … * arr[n+2]` out of `fn`.
        returns dict with lean texts"""
        loops = for_loops(fn)
        if len(loops) != 1:
            raise Untranslatable(f'{fn.name}: expected exactly one loop')
        loop = loops[0]
        var = loop.target.id
        ra = range_args(loop)
        if len(ra) != 3:
            raise Untranslatable('range() without explicit stop/step')
        writes = sub_assigns(loop, arr)
        if len(writes) != 1:
            raise Untranslatable('loop body does not write exactly one table entry')
        _, tgt, val = writes[0]
        (widx,) = index_of(tgt)
        out = {'var': var, 'loopStart': I(ra[0], names), 'loopStop': I(ra[1], names), 'loopStep': I(ra[2], names),
               'writeIdx': I(widx, names + [var])}
        # which table entries does the step read?
        rd = reads_of(val, arr)
        rd_txt = sorted({I(r[0], names + [var]) for r in rd})
        out['reads'] = rd_txt
        srd = reads_of(val, src)
        out['srcReads'] = sorted({I(r[0], names + [var]) for r in srd})
        return out, loop, val

    # ---------------------------------------------------------------- jacobi_sum_clenshaw
    def jsum():
        fn = get_def(jac, 'jacobi_sum_clenshaw')
        info, loop, val = sweep(fn, 'alphas', 'recurrence_abc', 's', ['M'], None)
        v = info['var']
        calls = tuple_unpack_calls(loop.body, 'recurrence_abc')
        feed = {}
        for names_, call in calls:
            for pos, nm in enumerate(names_):
                if nm not in ('_', '*'):
                    feed[nm] = (pos, I(call.args[0], ['M', v]))
        if sorted(feed) != ['a', 'b', 'c']:
            raise Untranslatable(f'loop does not bind a, b, c from recurrence_abc: {feed}')
        step = N(val, {f's[{v}]': 'sn', f'alphas[{v} + 1]': 'a1', f'alphas[{v} + 2]': 'a2', 'a': 'a', 'b': 'b', 'c': 'c', 'x': 'x'})
        # seeds (top-level writes before the loop)
        tops = [w for w in sub_assigns(fn, 'alphas') if w[0] < loop.lineno]
        if len(tops) != 2:
            raise Untranslatable('expected two seed writes before the loop')
        (_, t0, v0), (l1, t1, v1) = tops
        seed_top_idx = I(index_of(t0)[0], ['M'])
        seed_top_ok = norm(ast.unparse(v0)) == norm('s[M]')
        seed2_idx = I(index_of(t1)[0], ['M'])
        pre = tuple_unpack_calls(stmts_before(fn, loop.lineno), 'recurrence_abc')
        if len(pre) != 1:
            raise Untranslatable('expected one recurrence_abc call for the second seed')
        seed2_abc = I(pre[0][1].args[0], ['M'])
        seed2 = N(v1, {'s[M - 1]': 'sm1', 's[M]': 'sM', 'alphas[M]': 'sM', 'a': 'a', 'b': 'b', 'x': 'x'})
        guard = has_early_return_guard(fn, 'M == 0', l1)
        guard_ok = guard is not None and norm(ast.unparse(guard.body[-1].value)) == norm('alphas[0]') \
            and guard.lineno > t0.lineno
        rets = [norm(ast.unparse(r)) for r in returns_in_order(fn)]
        ret_ok = rets[-1] == norm('alphas[0]')
        M_ok = norm(ast.unparse(find_assign(fn, 'M'))) == norm('len(s) - 1')
        return '\n'.join([
            f'def jsumStep (sn a b c x a1 a2 : K) : K := {step}',
            f'def jsumSeed2 (sm1 sM a b x : K) : K := {seed2}',
            f'def jsumABIdx ({v} M : Int) : Int := {feed["a"][1]}',
            f'def jsumBIdx ({v} M : Int) : Int := {feed["b"][1]}',
            f'def jsumCIdx ({v} M : Int) : Int := {feed["c"][1]}',
            f'def jsumABCPositions : Int × Int × Int := ({feed["a"][0]}, {feed["b"][0]}, {feed["c"][0]})',
            f'def jsumWriteIdx ({v} M : Int) : Int := {info["writeIdx"]}',
            f'def jsumReadIdx ({v} M : Int) : List Int := [{", ".join(info["reads"])}]',
            f'def jsumSrcIdx ({v} M : Int) : List Int := [{", ".join(info["srcReads"])}]',
            f'def jsumLoop (M : Int) : Int × Int × Int := ({info["loopStart"]}, {info["loopStop"]}, {info["loopStep"]})',
            f'def jsumTopIdx (M : Int) : Int := {seed_top_idx}',
            f'def jsumSeed2Idx (M : Int) : Int := {seed2_idx}',
            f'def jsumSeed2ABCIdx (M : Int) : Int := {seed2_abc}',
            f'def jsumTopIsLastCoefficient : Bool := {tri(seed_top_ok and M_ok)}',
            f'def jsumSingleTermReturnsBeforeSecondSeed : Bool := {tri(guard_ok)}',
            f'def jsumReturnsRowZero : Bool := {tri(ret_ok)}',
        ])
    g.item('jacobi_sum_clenshaw', f'{JAC}:jacobi_sum_clenshaw', lambda: get_def(jac, 'jacobi_sum_clenshaw'), jsum,
           '\n'.join([
               'def jsumStep (sn a b c x a1 a2 : K) : K := sn + (a * x + b) * a1 - c * a2',
               'def jsumSeed2 (sm1 sM a b x : K) : K := sm1 + (a * x + b) * sM',
               'def jsumABIdx (n M : Int) : Int := n', 'def jsumBIdx (n M : Int) : Int := n',
               'def jsumCIdx (n M : Int) : Int := n + 1',
               'def jsumABCPositions : Int × Int × Int := (0, 1, 2)',
               'def jsumWriteIdx (n M : Int) : Int := n', 'def jsumReadIdx (n M : Int) : List Int := [n + 1, n + 2]',
               'def jsumSrcIdx (n M : Int) : List Int := [n]',
               'def jsumLoop (M : Int) : Int × Int × Int := (M - 2, -1, -1)',
               'def jsumTopIdx (M : Int) : Int := M', 'def jsumSeed2Idx (M : Int) : Int := M - 1',
               'def jsumSeed2ABCIdx (M : Int) : Int := M - 1',
               'def jsumTopIsLastCoefficient : Bool := true',
               'def jsumSingleTermReturnsBeforeSecondSeed : Bool := true',
               'def jsumReturnsRowZero : Bool := true']))

    # ---------------------------------------------------------------- change_basis_Qbfs_to_Pn
    def cob_qbfs():
        fn = get_def(qp, 'change_basis_Qbfs_to_Pn')
        info, loop, val = sweep(fn, 'bs', None, 'cs', ['M'], None)
        v = info['var']
        binds = {}
        for s in loop.body:
            if isinstance(s, ast.Assign) and isinstance(s.targets[0], ast.Name) and isinstance(s.value, ast.Call):
                binds[s.targets[0].id] = (ast.unparse(s.value.func), I(s.value.args[0], ['M', v]))
        want = {'g': 'g_qbfs', 'h': 'h_qbfs', 'f': 'f_qbfs'}
        for k, fnname in want.items():
            if k not in binds or binds[k][0] != fnname:
                raise Untranslatable(f'loop does not bind {k} from {fnname}')
        step = N(val, {f'cs[{v}]': 'c', f'bs[{v} + 1]': 'b1', f'bs[{v} + 2]': 'b2', 'g': 'g', 'h': 'h', 'f': 'f'})
        tops = [w for w in sub_assigns(fn, 'bs') if w[0] < loop.lineno]
        if len(tops) != 2:
            raise Untranslatable('expected two seed writes')
        (_, t0, v0), (l1, t1, v1) = tops
        top = N(v0, {'cs[M]': 'c', 'fM': 'f'})
        fM = find_assign(fn, 'fM')
        fM_ok = norm(ast.unparse(fM)) == norm('f_qbfs(M)') and I(index_of(t0)[0], ['M']) == 'M'
        seed2 = N(v1, {'cs[M - 1]': 'c', 'bs[M]': 'b1', 'g': 'g', 'f': 'f'})
        g2 = norm(ast.unparse(find_assign(fn, 'g', which=0))) == norm('g_qbfs(M - 1)')
        f2 = norm(ast.unparse(find_assign(fn, 'f', which=0))) == norm('f_qbfs(M - 1)')
        guard = has_early_return_guard(fn, 'M == 0', l1)
        M_ok = norm(ast.unparse(find_assign(fn, 'M'))) == norm('len(bs) - 1')
        return '\n'.join([
            f'def cobQbfsStep (c g h f b1 b2 : K) : K := {step}',
            f'def cobQbfsTop (c f : K) : K := {top}',
            f'def cobQbfsSeed2 (c g f b1 : K) : K := {seed2}',
            f'def cobQbfsIdx ({v} M : Int) : Int × Int × Int := ({binds["g"][1]}, {binds["h"][1]}, {binds["f"][1]})',
            f'def cobQbfsWriteIdx ({v} M : Int) : Int := {info["writeIdx"]}',
            f'def cobQbfsReadIdx ({v} M : Int) : List Int := [{", ".join(info["reads"])}]',
            f'def cobQbfsSrcIdx ({v} M : Int) : List Int := [{", ".join(info["srcReads"])}]',
            f'def cobQbfsLoop (M : Int) : Int × Int × Int := ({info["loopStart"]}, {info["loopStop"]}, {info["loopStep"]})',
            f'def cobQbfsSeedsUseOwnOrder : Bool := {tri(fM_ok and g2 and f2 and M_ok and I(index_of(t1)[0], ["M"]) == "(M - (1 : Int))")}',
            f'def cobQbfsSingleTermReturnsBeforeSecondSeed : Bool := {tri(guard is not None)}',
        ])
    g.item('change_basis_Qbfs_to_Pn', f'{QP}:change_basis_Qbfs_to_Pn', lambda: get_def(qp, 'change_basis_Qbfs_to_Pn'), cob_qbfs,
           '\n'.join([
               'def cobQbfsStep (c g h f b1 b2 : K) : K := (c - g * b1 - h * b2) / f',
               'def cobQbfsTop (c f : K) : K := c / f',
               'def cobQbfsSeed2 (c g f b1 : K) : K := (c - g * b1) / f',
               'def cobQbfsIdx (i M : Int) : Int × Int × Int := (i, i, i)',
               'def cobQbfsWriteIdx (i M : Int) : Int := i',
               'def cobQbfsReadIdx (i M : Int) : List Int := [i + 1, i + 2]',
               'def cobQbfsSrcIdx (i M : Int) : List Int := [i]',
               'def cobQbfsLoop (M : Int) : Int × Int × Int := (M - 2, -1, -1)',
               'def cobQbfsSeedsUseOwnOrder : Bool := true',
               'def cobQbfsSingleTermReturnsBeforeSecondSeed : Bool := true']))

    # ---------------------------------------------------------------- clenshaw_qbfs
    def cl_qbfs():
        fn = get_def(qp, 'clenshaw_qbfs')
        info, loop, val = sweep(fn, 'alphas', None, 'bs', ['M'], None)
        v = info['var']
        prefix = N(find_assign(fn, 'prefix'), {'x': 'x'})
        step = N(val, {f'bs[{v}]': 'bn', f'alphas[{v} + 1]': 'a1', f'alphas[{v} + 2]': 'a2', 'prefix': 'pre'})
        tops = [w for w in sub_assigns(fn, 'alphas') if w[0] < loop.lineno]
        if len(tops) != 2:
            raise Untranslatable('expected two seed writes')
        (_, t0, v0), (l1, t1, v1) = tops
        seed2 = N(v1, {'bs[M - 1]': 'bm1', 'alphas[M]': 'aM', 'prefix': 'pre'})
        top_ok = norm(ast.unparse(v0)) == norm('bs[M]') and I(index_of(t0)[0], ['M']) == 'M' \
            and I(index_of(t1)[0], ['M']) == '(M - (1 : Int))'
        S = N(find_assign(fn, 'S'), {'alphas[0]': 'a0', 'alphas[1]': 'a1'})
        rets = returns_in_order(fn)
        out = N(rets[-1], {'x': 'x', 'S': 'S'})
        guard = has_early_return_guard(fn, 'M == 0', l1)
        if guard is not None:
            single = N(guard.body[-1].value, {'x': 'x', 'alphas[0]': 'a0'})
        else:
            single = None
        xs = norm(ast.unparse(find_assign(fn, 'x'))) == 'usq'
        bs_ok = norm(ast.unparse(find_assign(fn, 'bs'))) == norm('change_basis_Qbfs_to_Pn(cs)')
        return '\n'.join([
            f'def qbfsPrefix (x : K) : K := {prefix}',
            f'def qbfsStep (bn pre a1 a2 : K) : K := {step}',
            f'def qbfsSeed2 (bm1 pre aM : K) : K := {seed2}',
            f'def qbfsS (a0 a1 : K) : K := {S}',
            f'def qbfsOut (x S : K) : K := {out}',
            f'def qbfsSingle (x a0 : K) : K := {single if single else "qbfsOut x (qbfsS a0 (ofInt 0))"}',
            f'def qbfsWriteIdx ({v} M : Int) : Int := {info["writeIdx"]}',
            f'def qbfsReadIdx ({v} M : Int) : List Int := [{", ".join(info["reads"])}]',
            f'def qbfsSrcIdx ({v} M : Int) : List Int := [{", ".join(info["srcReads"])}]',
            f'def qbfsLoop (M : Int) : Int × Int × Int := ({info["loopStart"]}, {info["loopStop"]}, {info["loopStep"]})',
            f'def qbfsSeedsAreTopTwo : Bool := {tri(top_ok and xs and bs_ok)}',
            f'def qbfsSingleTermReturnsBeforeSecondSeed : Bool := {tri(guard is not None)}',
        ])
    g.item('clenshaw_qbfs', f'{QP}:clenshaw_qbfs', lambda: get_def(qp, 'clenshaw_qbfs'), cl_qbfs,
           '\n'.join([
               'def qbfsPrefix (x : K) : K := ofInt 2 - ofInt 4 * x',
               'def qbfsStep (bn pre a1 a2 : K) : K := bn + pre * a1 - a2',
               'def qbfsSeed2 (bm1 pre aM : K) : K := bm1 + pre * aM',
               'def qbfsS (a0 a1 : K) : K := ofInt 2 * (a0 + a1)',
               'def qbfsOut (x S : K) : K := x * (ofInt 1 - x) * S',
               'def qbfsSingle (x a0 : K) : K := x * (ofInt 1 - x) * (ofInt 2 * a0)',
               'def qbfsWriteIdx (i M : Int) : Int := i', 'def qbfsReadIdx (i M : Int) : List Int := [i + 1, i + 2]',
               'def qbfsSrcIdx (i M : Int) : List Int := [i]',
               'def qbfsLoop (M : Int) : Int × Int × Int := (M - 2, -1, -1)',
               'def qbfsSeedsAreTopTwo : Bool := true',
               'def qbfsSingleTermReturnsBeforeSecondSeed : Bool := true']))

    # ---------------------------------------------------------------- abc_q2d
    def abc():
        fn = get_def(qp, 'abc_q2d')
        tr = Tr({'n': 'n', 'm': 'm'}, mode='int')
        D = tr.expr(find_assign(fn, 'D'))
        e = {'n': 'n', 'm': 'm'}
        t1 = Tr(e, 'int').expr(find_assign(fn, 'term1'))
        t2 = Tr(e, 'int').expr(find_assign(fn, 'term2'))
        A = find_assign(fn, 'A')
        B = find_assign(fn, 'B')
        C = find_assign(fn, 'C')
        nums = find_assigns(fn, 'num')
        if len(nums) != 2:
            raise Untranslatable('abc_q2d: expected two `num` assignments')
        okA = norm(ast.unparse(A)) == norm('term1 * term2 / D')
        okB = norm(ast.unparse(B)) == norm('num / D')
        okC = norm(ast.unparse(C)) == norm('num / D')
        # B uses the first `num`, C the second (source order)
        lnB = [n for n in ast.walk(fn) if isinstance(n, ast.Assign) and ast.unparse(n.targets[0]) == 'B'][0].lineno
        lnC = [n for n in ast.walk(fn) if isinstance(n, ast.Assign) and ast.unparse(n.targets[0]) == 'C'][0].lineno
        lnn = sorted(n.lineno for n in ast.walk(fn) if isinstance(n, ast.Assign) and ast.unparse(n.targets[0]) == 'num')
        order_ok = lnn[0] < lnB < lnn[1] < lnC
        (ret,) = find_returns(fn)
        ret_ok = ast.unparse(ret) == '(A, B, C)'
        return '\n'.join([
            f'def abcQ2dD (n m : Int) : Int := {D}',
            f'def abcQ2dANum (n m : Int) : Int := ({t1} * {t2})',
            f'def abcQ2dBNum (n m : Int) : Int := {Tr(e, "int").expr(nums[0])}',
            f'def abcQ2dCNum (n m : Int) : Int := {Tr(e, "int").expr(nums[1])}',
            f'def abcQ2dIsNumOverD : Bool := {tri(okA and okB and okC and order_ok and ret_ok)}',
        ])
    g.item('abc_q2d', f'{QP}:abc_q2d', lambda: get_def(qp, 'abc_q2d'), abc,
           '\n'.join([
               'def abcQ2dD (n m : Int) : Int := (4 * n ^ 2 - 1) * (m + n - 2) * (m + 2 * n - 3)',
               'def abcQ2dANum (n m : Int) : Int := (2 * n - 1) * (m + 2 * n - 2) * (4 * n * (m + n - 2) + (m - 3) * (2 * m - 1))',
               'def abcQ2dBNum (n m : Int) : Int := -2 * (2 * n - 1) * (m + 2 * n - 3) * (m + 2 * n - 2) * (m + 2 * n - 1)',
               'def abcQ2dCNum (n m : Int) : Int := n * (2 * n - 3) * (m + 2 * n - 1) * (2 * m + 2 * n - 3)',
               'def abcQ2dIsNumOverD : Bool := true']))

    # ---------------------------------------------------------------- abc_q2d_clenshaw (patch table)
    def patches():
        fn = get_def(qp, 'abc_q2d_clenshaw')
        rows = []

        def lit(e):
            try:
                v = ast.literal_eval(e)
                if isinstance(v, (int,)):
                    return Fraction(v)
            except Exception:
                pass
            if isinstance(e, ast.UnaryOp) and isinstance(e.op, ast.USub):
                return -lit(e.operand)
            if isinstance(e, ast.BinOp) and isinstance(e.op, ast.Div):
                return lit(e.left) / lit(e.right)
            if isinstance(e, ast.Constant) and isinstance(e.value, (int, float)):
                return Fraction(repr(e.value))
            raise Untranslatable(f'patch entry {ast.unparse(e)}')

        def conds(test):
            """test -> dict name->int from `a == k` conjunctions"""
            parts = test.values if isinstance(test, ast.BoolOp) and isinstance(test.op, ast.And) else [test]
            d = {}
            for p in parts:
                if not (isinstance(p, ast.Compare) and len(p.ops) == 1 and isinstance(p.ops[0], ast.Eq)
                        and isinstance(p.left, ast.Name) and isinstance(p.comparators[0], ast.Constant)):
                    raise Untranslatable(f'patch condition {ast.unparse(p)}')
                d[p.left.id] = p.comparators[0].value
            return d

        def walk(stmts, ctx):
            for s in stmts:
                if isinstance(s, ast.Expr) and isinstance(s.value, ast.Constant):
                    continue
                if isinstance(s, ast.If):
                    c = dict(ctx)
                    c.update(conds(s.test))
                    walk(s.body, c)
                    if s.orelse:
                        raise Untranslatable('patch table with else branches')
                elif isinstance(s, ast.Return):
                    if isinstance(s.value, ast.Tuple) and len(s.value.elts) == 3 and set(ctx) == {'n', 'm'}:
                        rows.append(((ctx['n'], ctx['m']), tuple(lit(e) for e in s.value.elts)))
                    elif not ctx and norm(ast.unparse(s.value)) == norm('abc_q2d(n, m)'):
                        rows.append(None)
                    else:
                        raise Untranslatable(f'return {ast.unparse(s.value)} under {ctx}')
                else:
                    raise Untranslatable(f'statement {ast.unparse(s)[:40]}')
        walk(fn.body, {})
        if not rows or rows[-1] is not None or None in rows[:-1]:
            raise Untranslatable('patch table does not end in the abc_q2d fall-through')

        def q(fr):
            return f'({fr.numerator}, {fr.denominator})'
        body = ', '.join(f'(({n}, {m}), ({q(a)}, {q(b)}, {q(c)}))' for ((n, m), (a, b, c)) in rows[:-1])
        return f'def abcQ2dPatches : List ((Int × Int) × ((Int × Nat) × (Int × Nat) × (Int × Nat))) := [{body}]'
    g.item('abc_q2d_clenshaw', f'{QP}:abc_q2d_clenshaw', lambda: get_def(qp, 'abc_q2d_clenshaw'), patches,
           'def abcQ2dPatches : List ((Int × Int) × ((Int × Nat) × (Int × Nat) × (Int × Nat))) := Model.C10.q2dPatchTable')

    # ---------------------------------------------------------------- change_of_basis_Q2d_to_Pnm
    def cob_q2d():
        fn = get_def(qp, 'change_of_basis_Q2d_to_Pnm')
        loops = for_loops(fn)
        if len(loops) != 1:
            raise Untranslatable('expected one loop')
        loop = loops[0]
        v = loop.target.id
        ra = range_args(loop)
        (w,) = sub_assigns(loop, 'ds')
        _, tgt, val = w
        step = N(val, {f'cs[{v}]': 'c', f'ds[{v} + 1]': 'd1', f'g_q2d({v}, m)': 'g', f'f_q2d({v}, m)': 'f'})
        tops = [x for x in sub_assigns(fn, 'ds') if x[0] < loop.lineno]
        (_, t0, v0), = tops
        top = N(v0, {'cs[N]': 'c', 'f_q2d(N, m)': 'f'})
        ok = I(index_of(t0)[0], ['N']) == 'N' and norm(ast.unparse(find_assign(fn, 'N'))) == norm('len(cs) - 1')
        return '\n'.join([
            f'def cobQ2dStep (c g f d1 : K) : K := {step}',
            f'def cobQ2dTop (c f : K) : K := {top}',
            f'def cobQ2dWriteIdx ({v} N : Int) : Int := {I(index_of(tgt)[0], ["N", v])}',
            f'def cobQ2dLoop (N : Int) : Int × Int × Int := ({I(ra[0], ["N"])}, {I(ra[1], ["N"])}, {I(ra[2], ["N"])})',
            f'def cobQ2dTopIsLastCoefficient : Bool := {tri(ok)}',
        ])
    g.item('change_of_basis_Q2d_to_Pnm', f'{QP}:change_of_basis_Q2d_to_Pnm',
           lambda: get_def(qp, 'change_of_basis_Q2d_to_Pnm'), cob_q2d,
           '\n'.join([
               'def cobQ2dStep (c g f d1 : K) : K := (c - g * d1) / f',
               'def cobQ2dTop (c f : K) : K := c / f',
               'def cobQ2dWriteIdx (n N : Int) : Int := n',
               'def cobQ2dLoop (N : Int) : Int × Int × Int := (N - 1, -1, -1)',
               'def cobQ2dTopIsLastCoefficient : Bool := true']))

    # ---------------------------------------------------------------- clenshaw_q2d
    def cl_q2d():
        fn = get_def(qp, 'clenshaw_q2d')
        info, loop, val = sweep(fn, 'alphas', None, 'ds', ['N'], None)
        v = info['var']
        calls = tuple_unpack_calls(loop.body, 'abc_q2d_clenshaw')
        feed = {}
        for names_, call in calls:
            for pos, nm in enumerate(names_):
                if nm not in ('_', '*'):
                    feed[nm] = (pos, I(call.args[0], ['N', v]), ast.unparse(call.args[1]))
        if sorted(feed) != ['A', 'B', 'C']:
            raise Untranslatable(f'loop does not bind A, B, C: {feed}')
        step = N(val, {f'ds[{v}]': 'dn', f'alphas[{v} + 1]': 'a1', f'alphas[{v} + 2]': 'a2', 'A': 'A', 'B': 'B', 'C': 'C', 'x': 'x'})
        tops = [w for w in sub_assigns(fn, 'alphas') if w[0] < loop.lineno]
        (_, t0, v0), (l1, t1, v1) = tops
        seed2 = N(v1, {'ds[N - 1]': 'dm1', 'alphas[N]': 'aN', 'A': 'A', 'B': 'B', 'x': 'x'})
        pre = tuple_unpack_calls(stmts_before(fn, loop.lineno), 'abc_q2d_clenshaw')
        seed2_abc = I(pre[0][1].args[0], ['N'])
        guard = has_early_return_guard(fn, 'N == 0', l1)
        top_ok = norm(ast.unparse(v0)) == norm('ds[N]') and I(index_of(t0)[0], ['N']) == 'N' \
            and I(index_of(t1)[0], ['N']) == '(N - (1 : Int))' and all(f[2] == 'm' for f in feed.values())
        return '\n'.join([
            f'def q2dStep (dn A B C x a1 a2 : K) : K := {step}',
            f'def q2dSeed2 (dm1 aN A B x : K) : K := {seed2}',
            f'def q2dABIdx ({v} N : Int) : Int × Int := ({feed["A"][1]}, {feed["B"][1]})',
            f'def q2dCIdx ({v} N : Int) : Int := {feed["C"][1]}',
            f'def q2dABCPositions : Int × Int × Int := ({feed["A"][0]}, {feed["B"][0]}, {feed["C"][0]})',
            f'def q2dWriteIdx ({v} N : Int) : Int := {info["writeIdx"]}',
            f'def q2dReadIdx ({v} N : Int) : List Int := [{", ".join(info["reads"])}]',
            f'def q2dLoop (N : Int) : Int × Int × Int := ({info["loopStart"]}, {info["loopStop"]}, {info["loopStep"]})',
            f'def q2dSeed2ABCIdx (N : Int) : Int := {seed2_abc}',
            f'def q2dSeedsAreTopTwo : Bool := {tri(top_ok)}',
            f'def q2dSingleTermReturnsBeforeSecondSeed : Bool := {tri(guard is not None)}',
        ])
    g.item('clenshaw_q2d', f'{QP}:clenshaw_q2d', lambda: get_def(qp, 'clenshaw_q2d'), cl_q2d,
           '\n'.join([
               'def q2dStep (dn A B C x a1 a2 : K) : K := dn + (A + B * x) * a1 - C * a2',
               'def q2dSeed2 (dm1 aN A B x : K) : K := dm1 + (A + B * x) * aN',
               'def q2dABIdx (n N : Int) : Int × Int := (n, n)', 'def q2dCIdx (n N : Int) : Int := n + 1',
               'def q2dABCPositions : Int × Int × Int := (0, 1, 2)',
               'def q2dWriteIdx (n N : Int) : Int := n', 'def q2dReadIdx (n N : Int) : List Int := [n + 1, n + 2]',
               'def q2dLoop (N : Int) : Int × Int × Int := (N - 2, -1, -1)',
               'def q2dSeed2ABCIdx (N : Int) : Int := N - 1',
               'def q2dSeedsAreTopTwo : Bool := true',
               'def q2dSingleTermReturnsBeforeSecondSeed : Bool := true']))

    # ---------------------------------------------------------------- compute_z_zprime_Q2d: read-out and skip logic
    def zz():
        fn = get_def(qp, 'compute_z_zprime_Q2d')
        loops = for_loops(fn)
        if len(loops) != 1:
            raise Untranslatable('expected one loop over the azimuthal orders')
        loop = loops[0]
        it = ast.unparse(loop.iter)
        pairs_all = norm(it) == norm('zip_longest(ams, bms, fillvalue=())')
        # per-side read-outs, guards and the skip condition: path-wise, so that it does not matter whether the two sides are
        # written out twice in the loop or live in a helper called once per side
        sd = q2d_sides(qp, fn, loop)
        sides = sd['sides']
        if not all(r['ok'] for r in sides.values()):
            raise Untranslatable('per-side read-out not recognised')
        skip_both = sd['skip_both']
        ba, ca = sides['Sa']['base'], sides['Sa']['corr']
        same = len({r['base'] for r in sides.values()}) == 1 and len({r['corr'] for r in sides.values()}) == 1
        # q2d_sides only accepts values that differ exactly on `m == 1 and N > K`; K must be 2 on every side
        guards = all(r.get('threshold') == 2 for r in sides.values())
        guards_wrong = any(r.get('threshold') not in (None, 2) for r in sides.values())
        own = all(r['zero_when_empty'] and r['coef_ok'] for r in sides.values())
        kern = N(find_assign(fn, 'kernel'), {'cost': 'c', 'sint': 's', 'Sa': 'Sa', 'Sb': 'Sb'})
        tot = N(find_assign(fn, 'total_sum'), {'um': 'um', 'kernel': 'k'})
        trig = norm(ast.unparse(find_assign(fn, 'cost'))) == norm('np.cos(m * t)') and \
            norm(ast.unparse(find_assign(fn, 'sint'))) == norm('np.sin(m * t)') and \
            norm(ast.unparse(find_assign(fn, 'um'))) == norm('u ** m')
        m_count = any(isinstance(s, ast.AugAssign) and ast.unparse(s) == 'm += 1' for s in loop.body[:1]) and \
            norm(ast.unparse(find_assign(fn, 'm'))) == '0'
        # the m = 0 part
        m0 = [s for s in fn.body if isinstance(s, ast.If) and 'cm0' in ast.unparse(s.test)]
        # (an `if cm0 is not None: cm0 = <materialise>(cm0)` in front of the guard only rebinds cm0 to the same items)
        m0 = [s for s in m0 if not is_rebind(s, 'cm0')]
        m0_ok = len(m0) == 1 and norm(ast.unparse(m0[0].test)) == norm('cm0 is not None and len(cm0) > 0')
        return '\n'.join([
            f'def q2dReadBase (a0 : K) : K := {ba}',
            f'def q2dReadCorr (a3 : K) : K := {ca}',
            f'def q2dKernel (c s Sa Sb : K) : K := {kern}',
            f'def q2dTerm (um k : K) : K := {tot}',
            f'def q2dReadsAreUniform : Bool := {tri(same)}',
            f'def q2dCorrectionOnlyForMOneAndNGreaterTwo : Bool := {tri(guards, wrong=guards_wrong)}',
            f'def q2dEachSideEvaluatedIffItsListNonEmpty : Bool := {tri(own)}',
            f'def q2dSkipsOnlyWhenBothEmpty : Bool := {tri(skip_both)}',
            f'def q2dPairsEveryOrderOfEitherList : Bool := {tri(pairs_all)}',
            f'def q2dAzimuthalOrderCountsFromOne : Bool := {tri(m_count and trig)}',
            f'def q2dRotationallySymmetricPartOnlyWhenPresent : Bool := {tri(m0_ok)}',
        ])
    g.item('compute_z_zprime_Q2d.sum', f'{QP}:compute_z_zprime_Q2d', lambda: get_def(qp, 'compute_z_zprime_Q2d'), zz,
           '\n'.join([
               'def q2dReadBase (a0 : K) : K := ofFrac 1 2 * a0', 'def q2dReadCorr (a3 : K) : K := ofInt 2 / ofInt 5 * a3',
               'def q2dKernel (c s Sa Sb : K) : K := c * Sa + s * Sb', 'def q2dTerm (um k : K) : K := um * k',
               'def q2dReadsAreUniform : Bool := true', 'def q2dCorrectionOnlyForMOneAndNGreaterTwo : Bool := true',
               'def q2dEachSideEvaluatedIffItsListNonEmpty : Bool := true', 'def q2dSkipsOnlyWhenBothEmpty : Bool := true',
               'def q2dPairsEveryOrderOfEitherList : Bool := true', 'def q2dAzimuthalOrderCountsFromOne : Bool := true',
               'def q2dRotationallySymmetricPartOnlyWhenPresent : Bool := true']))

    # ---------------------------------------------------------------- structural facts
    def pack_fact():
        # locals expanded; the two output lists may be built by an append loop or by comprehensions
        fn = get_def(qp, 'Q2d_nm_c_to_a_b')
        paths = SymEx(qp).run(fn)
        if len(paths) != 1 or paths[0].kind != 'return':
            return None
        ret = paths[0].value
        if not (isinstance(ret, ast.Tuple) and len(ret.elts) == 3 and unp(ret.elts[0]) == 'cms'):
            return None

        def keyset(d):
            return [f'{d}.keys()', f'list({d}.keys())', d, f'list({d})']

        def range_top(it):
            """X of range(1, X + 1)"""
            if not (isinstance(it, ast.Call) and unp(it.func) == 'range' and len(it.args) == 2 and unp(it.args[0]) == '1'):
                return None
            hi = it.args[1]
            if isinstance(hi, ast.BinOp) and isinstance(hi.op, ast.Add):
                if unp(hi.right) == '1':
                    return hi.left
                if unp(hi.left) == '1':
                    return hi.right
            return None
        tops = []
        a_ret, b_ret = ret.elts[1], ret.elts[2]
        if isinstance(a_ret, ast.ListComp) and isinstance(b_ret, ast.ListComp):
            for comp, d in ((a_ret, 'ac'), (b_ret, 'bc')):
                if len(comp.generators) != 1 or comp.generators[0].ifs or not isinstance(comp.generators[0].target, ast.Name):
                    return None
                v = comp.generators[0].target.id
                if norm(unp(comp.elt)) != norm(f'{d}[{v}]'):
                    return None
                tops.append(range_top(comp.generators[0].iter))
        elif isinstance(a_ret, ast.Name) and isinstance(b_ret, ast.Name):
            loops = [e for e in paths[0].events if e[0] == 'loop' and any(
                ev[0] == 'call' and unp(ev[1]).startswith(f'{a_ret.id}.append(') for bp in e[3] for ev in bp.events)]
            if len(loops) != 1 or not isinstance(loops[0][1], ast.Name):
                return None
            v = loops[0][1].id
            body = loops[0][3]
            calls = sorted(unp(ev[1]) for bp in body for ev in bp.events)
            if len(body) != 1 or calls != sorted([f'{a_ret.id}.append(ac[{v}])', f'{b_ret.id}.append(bc[{v}])']):
                return None
            if [norm(unp(x)) for x in find_assigns(fn, a_ret.id)] != ['[]'] or [norm(unp(x)) for x in find_assigns(fn, b_ret.id)] != ['[]']:
                return None
            tops.append(range_top(loops[0][2]))
        else:
            return None
        if any(t is None for t in tops) or len({unp(t) for t in tops}) != 1:
            return None
        top = norm(unp(tops[0]))
        bare = [norm(f'max({k})') for d in ('ac', 'bc') for k in keyset(d)]
        if any(b in top for b in bare):
            return False            # max() of a possibly empty key set: raises for an absent family
        good = []
        for ka in keyset('ac'):
            for kb in keyset('bc'):
                A, B = f'max({ka}, default=0)', f'max({kb}, default=0)'
                good += [f'max({A}, {B})', f'max({B}, {A})']
        good += ['max([*ac, *bc], default=0)', 'max((*ac, *bc), default=0)', 'max(chain(ac, bc), default=0)',
                 'max(itertools.chain(ac, bc), default=0)', 'max(ac.keys() | bc.keys(), default=0)', 'max(set(ac) | set(bc), default=0)']
        return True if top in [norm(t) for t in good] else None
    g.fact('packMaxOverKeysHasDefaultZero', f'{QP}:Q2d_nm_c_to_a_b', pack_fact)

    def tdot_fact():
        fn = get_def(ini, 'sum_of_2d_modes')
        ret = returns_in_order(fn)[-1]
        if not (isinstance(ret, ast.Call) and ast.unparse(ret.func) in ('np.tensordot', 'tensordot') and len(ret.args) >= 2):
            return None
        if [ast.unparse(a) for a in ret.args[:2]] != ['modes', 'weights']:
            return None
        axes = ret.args[2] if len(ret.args) > 2 else next((k.value for k in ret.keywords if k.arg == 'axes'), None)
        if axes is None:
            return None
        try:
            val = ast.literal_eval(axes)
        except Exception:
            return None
        flat = tuple(tuple(v) if isinstance(v, (list, tuple)) else (v,) for v in val) if isinstance(val, (list, tuple)) else None
        if flat == ((0,), (0,)):
            return True
        return False if flat is not None else None      # contracts other axes: recognised and wrong
    g.fact('sumOfModesContractsAxisZeroWithWeights', f'{INIT}:sum_of_2d_modes', tdot_fact)

    def lstsq_fact():
        # the returned expression with every local expanded: local names, temporaries and the unpacking style do not matter
        fn = get_def(ini, 'lstsq')
        # a solve of the (k, k) normal equations squares the condition number: recognised and wrong
        for bad in ('np.linalg.solve', 'np.linalg.inv', 'np.linalg.cholesky', 'linalg.solve', 'linalg.cho_solve', 'linalg.cho_factor'):
            if find_calls(fn, bad):
                return False
        paths = SymEx(ini).run(fn)
        if len(paths) != 1 or paths[0].kind != 'return' or paths[0].events:
            return None
        got = norm(unp(paths[0].value))
        import itertools
        dbase = ['data', 'np.asarray(data)']
        m0 = ['np.asarray(modes)'] + [f'np.asarray({f}(modes))' for f in MATERIALISERS]
        resh = ['{X}.reshape(({X}.shape[0], -1))', '{X}.reshape({X}.shape[0], -1)', '{X}.reshape(len({X}), -1)', '{X}.reshape((len({X}), -1))']
        flat = ['{K}.ravel()', '{K}.reshape(-1)', '{K}.flatten()', "{K}.ravel(order='C')"]
        for d1, d2, mo, rs, fl in itertools.product(dbase, dbase, m0, resh, flat):
            mask = f'np.isfinite({d1})'
            sel = f'{rs.format(X=mo)}[:, {fl.format(K=mask)}].T'
            for tail in ('[0]',):
                if got == norm(f'np.linalg.lstsq({sel}, {d2}[{mask}], rcond=None){tail}'):
                    return True
        return None
    g.fact('lstsqDropsExactlyNonFiniteSamplesFromDataAndModes', f'{INIT}:lstsq', lstsq_fact)

    def iter_fact():
        return iter_params_fact(
            [(get_def(jac, 'jacobi_sum_clenshaw'), 's'), (get_def(qp, 'change_basis_Qbfs_to_Pn'), 'cs'), (get_def(qp, 'clenshaw_qbfs'), 'cs'),
             (get_def(qp, 'change_of_basis_Q2d_to_Pnm'), 'cns'), (get_def(qp, 'clenshaw_q2d'), 'cns'),
             (get_def(qp, 'compute_z_zprime_Q2d'), 'cm0'), (get_def(qp, 'compute_z_zprime_Q2d'), 'ams'),
             (get_def(qp, 'compute_z_zprime_Q2d'), 'bms'), (get_def(qp, 'Q2d_nm_c_to_a_b'), 'nms'), (get_def(qp, 'Q2d_nm_c_to_a_b'), 'coefs'),
             (get_def(ini, 'sum_of_2d_modes'), 'modes'), (get_def(ini, 'lstsq'), 'modes')])
    g.fact('iterableArgumentsAreReadOnceOrMaterialisedFirst',
           f'{JAC}:jacobi_sum_clenshaw {QP}:clenshaw_qbfs,clenshaw_q2d,compute_z_zprime_Q2d,Q2d_nm_c_to_a_b {INIT}:sum_of_2d_modes,lstsq', iter_fact)

    return g.finish()


if __name__ == '__main__':
    import sys
    text, items = generate(sys.argv[1] if len(sys.argv) > 1 else '/repo')
    print(text)
    for it in items:
        print('--', it)
