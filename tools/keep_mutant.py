#!/usr/bin/env python3
"""keep a confirmed seeded change: tools/keep_mutant.py <Cxx> <out_dir> <i> <id> "<detected-by / note>" """
import json, os, shutil, sys
pid, out, i, sid, note = sys.argv[1:6]
d = f'/verif/seeded/{sid}'
os.makedirs(d, exist_ok=True)
shutil.copy(f'{out}/m{i}.diff', f'{d}/patch.diff')
shutil.copy(f'{out}/m{i}_demo.py', f'{d}/demo.py')
m = json.load(open(f'{out}/m{i}.json'))
meta = {'property': pid, 'what': m.get('what'), 'needs_to_manifest': m.get('needs'), 'files': m.get('files'),
        'confirmed': 'demo exits 0 on the clean tree and 1 with the patch; tools/baseline.py 795/795 with the patch; '
                     'ran `tools/try_mutant.sh %s patch.diff demo.py` (apply to /repo, run check, git checkout -- .)' % pid,
        'check_result': note}
json.dump(meta, open(f'{d}/meta.json', 'w'), indent=1)
print('kept', d)
