#!/bin/bash
# tools/ev_benign.sh <EV dir> <out-summary> <file> [...]   each file = .../Cxx_b<i>.diff ; expects: same digest, check exit 0, no VIOLATION
EV=$1; sum=$2; shift 2
for d in "$@"; do
  b=$(basename $d .diff); pid=${b%%_*}; o=$(dirname $d)
  cd $EV/repo; git checkout -q -- .
  d0=$(cd $EV/repo && PYTHONPATH=$EV/repo /venv/bin/python $o/${b}_demo.py 2>&1 | tail -1)
  git apply $d 2>/dev/null || { echo "$b | patch does not apply" >> $sum; continue; }
  d1=$(cd $EV/repo && PYTHONPATH=$EV/repo /venv/bin/python $o/${b}_demo.py 2>&1 | tail -1)
  base=$(/verif/tools/baseline.py $EV/repo | head -1)
  cd $EV/verif; PRYSM_REPO=$EV/repo ./run $pid quick > .work/benign_$b.log 2>&1; rc=$?
  line="$(grep -E '^VIOLATION|^TIE-DEGRADED' .work/benign_$b.log | head -3 | cut -c1-200 | tr '\n' ';')"
  tr=$(tail -1 .work/benign_$b.log | grep -o 'translated [0-9]*/[0-9]* items, theorems [0-9]*/[0-9]*')
  cd $EV/repo; git checkout -q -- .
  [ "$d0" == "$d1" ] && same=same-digest || same=DIGEST-DIFFERS
  echo "$b | $same | $base | check exit $rc | $tr | $line" >> $sum
done
cd $EV/verif; git checkout -q -- lean/PrysmVerif/Generated lean/PrysmVerif/Audit evidence 2>/dev/null
echo "STREAM-DONE $EV" >> $sum
