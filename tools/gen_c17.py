"""translator items for C17 (prysm/thinfilm.py): the closed-form Fresnel coefficients, Snell / Brewster /
critical-angle arguments, the entries of the characteristic matrices, the constant tables and the product
order of multilayer_matrix_{s,p}, rtot/ttot, and the wiring of multilayer_stack_rt (structural facts).

All scalar expressions are emitted in mode 'num' (generic `K` with `[Num K]`): `np.cos(theta)`, `np.sin(beta)`,
`np.cos(beta)`, `np.pi` and the literal `-1j` become the parameters `cost`, `sinb`, `cosb`, `pi`, `mI`.
"""
import ast
import copy
from pyexpr2lean import Gen, Tr, Untranslatable, load, get_def, find_returns, find_calls, call_arg

M = 'Model.C17'


class _StripBroadcast(ast.NodeTransformer):
    """np.broadcast_to(x, shape) -> x   (value-preserving: broadcasting repeats the scalar)"""

    def visit_Call(self, node):
        self.generic_visit(node)
        if ast.unparse(node.func) in ('np.broadcast_to', 'numpy.broadcast_to') and len(node.args) == 2:
            return node.args[0]
        return node


def strip(node):
    return ast.fix_missing_locations(_StripBroadcast().visit(copy.deepcopy(node)))


def straight_env(stmts, env0, stop_at=None):
    """walk straight-line assignments, inlining every translatable local into the environment.
    returns env (python text -> Lean term).  Tuple assignments `a, b = x, y` are read component-wise."""
    env = dict(env0)
    for st in stmts:
        if isinstance(st, ast.Assign) and len(st.targets) == 1:
            t = st.targets[0]
            pairs = []
            if isinstance(t, ast.Name):
                pairs = [(t.id, st.value)]
            elif isinstance(t, ast.Tuple) and isinstance(st.value, ast.Tuple) and len(t.elts) == len(st.value.elts):
                pairs = [(a.id, v) for a, v in zip(t.elts, st.value.elts) if isinstance(a, ast.Name)]
            new = {}
            for name, val in pairs:
                try:
                    new[name] = Tr(env, 'num').expr(strip(val))
                except Untranslatable:
                    pass
            env.update(new)
    return env


def matrix_literal(node):
    """np.asarray([[a, b], [c, d]]) -> [a, b, c, d] (expr nodes)"""
    if isinstance(node, ast.Call) and ast.unparse(node.func) in ('np.asarray', 'np.array', 'numpy.asarray'):
        node = node.args[0]
    if not (isinstance(node, ast.List) and len(node.elts) == 2 and all(isinstance(r, ast.List) and len(r.elts) == 2
                                                                         for r in node.elts)):
        raise Untranslatable(f'not a 2x2 literal: {ast.unparse(node)[:60]}')
    return [node.elts[0].elts[0], node.elts[0].elts[1], node.elts[1].elts[0], node.elts[1].elts[1]]


def m22(terms):
    return '⟨' + ', '.join(terms) + '⟩'


def recognise(g, name, source, node_fn, check):
    """a structural fact as an ITEM: `true` when the known-good shape of the source is recognised; when it is not
    (a refactor, or a change of behaviour) the item is `untranslatable`, which widens the correspondence sweep that
    checks the behaviour itself — a harmless rewrite never alarms, a harmful one is caught on the real outputs."""
    def build():
        if not check():
            raise Untranslatable('source shape not recognised')
        return f'def {name} : Bool := true'
    g.item(name, source, node_fn, build, f'def {name} : Bool := true')


def generate(repo):
    g = Gen('C17', imports=['PrysmVerif.Model.C17'], opens=['Model.C17'],
            header='set_option linter.unusedVariables false\nvariable {K : Type} [Num K]')
    tf, _ = load(repo, 'prysm/thinfilm.py')

    # ------------------------------------------------------------------ Fresnel coefficient functions
    def fresnel(pyname, leanname):
        def build():
            fn = get_def(tf, pyname)
            args = [a.arg for a in fn.args.args]
            if args != ['n0', 'n1', 'theta0', 'theta1']:
                raise Untranslatable(f'signature of {pyname}: {args}')
            env = straight_env(fn.body, {'n0': 'n0', 'n1': 'n1', 'np.cos(theta0)': 'c0', 'np.cos(theta1)': 'c1'})
            (ret,) = find_returns(fn)
            return f'def {leanname} (n0 n1 c0 c1 : K) : K := {Tr(env, "num").expr(ret)}'
        g.item(pyname, f'prysm/thinfilm.py:{pyname}', lambda: get_def(tf, pyname), build,
               f'def {leanname} (n0 n1 c0 c1 : K) : K := {M}.{leanname} n0 n1 c0 c1')
    fresnel('fresnel_rs', 'fresnelRs')
    fresnel('fresnel_ts', 'fresnelTs')
    fresnel('fresnel_rp', 'fresnelRp')
    fresnel('fresnel_tp', 'fresnelTp')

    # ------------------------------------------------------------------ Snell, Brewster, critical angle
    def snell():
        fn = get_def(tf, 'snell_aor')
        (ret,) = find_returns(fn)
        if not (isinstance(ret, ast.Call) and ast.unparse(ret.func).endswith('arcsin') and len(ret.args) == 1):
            raise Untranslatable('snell_aor does not return arcsin(...)')
        return 'def snellSin (n0 n1 s0 : K) : K := ' + \
            Tr({'n0': 'n0', 'n1': 'n1', 'np.sin(theta)': 's0'}, 'num').expr(ret.args[0])
    g.item('snell_aor', 'prysm/thinfilm.py:snell_aor', lambda: get_def(tf, 'snell_aor'), snell,
           f'def snellSin (n0 n1 s0 : K) : K := {M}.snellSin n0 n1 s0')

    def brewster():
        fn = get_def(tf, 'brewsters_angle')
        calls = find_calls(fn, 'np.arctan2')
        if len(calls) != 1 or len(calls[0].args) != 2:
            raise Untranslatable('brewsters_angle is not a single arctan2(y, x)')
        tr = Tr({'n0': 'n0', 'n1': 'n1'}, 'num')
        return (f'def brewsterY (n0 n1 : K) : K := {tr.expr(calls[0].args[0])}\n'
                f'def brewsterX (n0 n1 : K) : K := {tr.expr(calls[0].args[1])}')
    g.item('brewsters_angle', 'prysm/thinfilm.py:brewsters_angle', lambda: get_def(tf, 'brewsters_angle'), brewster,
           'def brewsterY (n0 n1 : K) : K := n1\ndef brewsterX (n0 n1 : K) : K := n0')

    def critical():
        fn = get_def(tf, 'critical_angle')
        calls = find_calls(fn, 'np.arcsin')
        if len(calls) != 1 or len(calls[0].args) != 1:
            raise Untranslatable('critical_angle is not a single arcsin(x)')
        return 'def criticalSin (n0 n1 : K) : K := ' + Tr({'n0': 'n0', 'n1': 'n1'}, 'num').expr(calls[0].args[0])
    g.item('critical_angle', 'prysm/thinfilm.py:critical_angle', lambda: get_def(tf, 'critical_angle'), critical,
           'def criticalSin (n0 n1 : K) : K := n0 / n1')

    # ------------------------------------------------------------------ characteristic matrices
    def char(pyname, leanname, betaname):
        def build():
            fn = get_def(tf, pyname)
            args = [a.arg for a in fn.args.args]
            if args != ['lambda_', 'd', 'n', 'theta']:
                raise Untranslatable(f'signature of {pyname}: {args}')
            base = {'lambda_': 'lam', 'd': 'd', 'n': 'n', 'np.pi': 'pi', 'np.cos(theta)': 'cost'}
            env = straight_env(fn.body, base)
            if 'beta' not in env:
                raise Untranslatable('no translatable assignment to beta')
            beta = env['beta']
            # the trigonometric functions must be taken of beta: sinb, cosb = np.sin(beta), np.cos(beta)
            env2 = straight_env(fn.body, {**base, 'np.sin(beta)': 'sinb', 'np.cos(beta)': 'cosb', '-1j': 'mI', '1j': '(-mI)'})
            (ret,) = find_returns(fn)
            ents = [Tr(env2, 'num').expr(e) for e in matrix_literal(ret)]
            for e in ents:
                if 'lam' in e.split() or 'pi' in e.split():
                    raise Untranslatable('matrix entry depends on beta other than through sin/cos(beta)')
            return (f'def {betaname} (pi lam d n cost : K) : K := {beta}\n'
                    f'def {leanname} (mI sinb cosb cost n : K) : M22 K := {m22(ents)}')
        modelname = 'layerP' if leanname == 'charP' else 'layerS'
        g.item(pyname, f'prysm/thinfilm.py:{pyname}', lambda: get_def(tf, pyname), build,
               f'def {betaname} (pi lam d n cost : K) : K := {M}.beta pi lam d n cost\n'
               f'def {leanname} (mI sinb cosb cost n : K) : M22 K := {M}.{modelname} mI sinb cosb cost n')
    char('characteristic_matrix_p', 'charP', 'betaP')
    char('characteristic_matrix_s', 'charS', 'betaS')

    # ------------------------------------------------------------------ multilayer_matrix_{p,s}
    def amat(pyname, leanname):
        def build():
            fn = get_def(tf, pyname)
            args = [a.arg for a in fn.args.args]
            if args != ['n0', 'theta0', 'characteristic_matrices', 'nnp1', 'theta_np1']:
                raise Untranslatable(f'signature of {pyname}: {args}')
            base = {'n0': 'n0', 'nnp1': 'ne', 'np.cos(theta0)': 'cost0', 'np.cos(theta_np1)': 'coste'}
            env = straight_env(fn.body, base)
            tr = Tr(env, 'num')
            if 'term1' not in env:
                raise Untranslatable('term1 not translatable')
            # term2: a single top-level 2x2 literal
            t2 = [st.value for st in fn.body if isinstance(st, ast.Assign) and ast.unparse(st.targets[0]) == 'term2'
                  and not ast.unparse(st.value).startswith('np.moveaxis')]
            if len(t2) != 1:
                raise Untranslatable('term2 is not assigned exactly one literal')
            term2 = [tr.expr(e) for e in matrix_literal(strip(t2[0]))]
            # term4: one literal in each branch of the batched / scalar `if`; both must carry the same table
            t4 = []
            for st in fn.body:
                if isinstance(st, ast.If):
                    for br in (st.body, st.orelse):
                        for s2 in br:
                            if isinstance(s2, ast.Assign) and ast.unparse(s2.targets[0]) == 'term4' \
                                    and not ast.unparse(s2.value).startswith('np.moveaxis'):
                                t4.append([tr.expr(e) for e in matrix_literal(strip(s2.value))])
            if len(t4) != 2 or t4[0] != t4[1]:
                raise Untranslatable(f'term4 tables of the batched and scalar branches differ or are missing: {t4}')
            # term3 = reduce(np.matmul, characteristic_matrices) or the single matrix
            t3 = [ast.unparse(st.value) for st in ast.walk(fn) if isinstance(st, ast.Assign)
                  and ast.unparse(st.targets[0]) == 'term3']
            if sorted(t3) != sorted(['reduce(np.matmul, characteristic_matrices)', 'characteristic_matrices[0]']):
                raise Untranslatable(f'term3: {t3}')
            # term12 = term1 * term2 (np.dot with a scalar / tensordot over the batch axis)
            t12 = [ast.unparse(st.value) for st in ast.walk(fn) if isinstance(st, ast.Assign)
                   and ast.unparse(st.targets[0]) == 'term12']
            if sorted(t12) != sorted(['np.tensordot(term2, term1, axes=(0, 0))', 'np.dot(term1, term2)']):
                raise Untranslatable(f'term12: {t12}')
            # the product that is returned first
            ret = [st.value for st in fn.body if isinstance(st, ast.Return)][0]
            if not (isinstance(ret, ast.Call) and ast.unparse(ret.func) == 'reduce' and
                    ast.unparse(ret.args[0]) == 'np.matmul' and isinstance(ret.args[1], ast.Tuple)):
                raise Untranslatable('return is not reduce(np.matmul, (...))')
            names = {'term12': f'(M22.smul ({leanname}Term1 n0 cost0) ({leanname}Term2 n0 cost0))', 'term3': 'M',
                     'term4': f'({leanname}Term4 ne coste)'}
            order = [ast.unparse(e) for e in ret.args[1].elts]
            if sorted(order) != ['term12', 'term3', 'term4']:
                raise Untranslatable(f'factors of the returned product: {order}')
            prod = names[order[0]]
            for nm in order[1:]:
                prod = f'(M22.mul {prod} {names[nm]})'
            return (f'def {leanname}Term1 (n0 cost0 : K) : K := {env["term1"]}\n'
                    f'def {leanname}Term2 (n0 cost0 : K) : M22 K := {m22(term2)}\n'
                    f'def {leanname}Term4 (ne coste : K) : M22 K := {m22(t4[0])}\n'
                    f'def {leanname} (n0 cost0 : K) (M : M22 K) (ne coste : K) : M22 K :=\n  {prod}')
        g.item(pyname, f'prysm/thinfilm.py:{pyname}', lambda: get_def(tf, pyname), build,
               f'def {leanname} (n0 cost0 : K) (M : M22 K) (ne coste : K) : M22 K := {M}.{leanname} n0 cost0 M ne coste')
    amat('multilayer_matrix_p', 'amatP')
    amat('multilayer_matrix_s', 'amatS')

    # ------------------------------------------------------------------ rtot / ttot
    def tot(pyname, leanname):
        def build():
            fn = get_def(tf, pyname)
            env = {f'Amat[..., {i}, {j}]': f'A.{"abcd"[2 * i + j]}' for i in (0, 1) for j in (0, 1)}
            (ret,) = find_returns(fn)
            return f'def {leanname} (A : M22 K) : K := {Tr(env, "num").expr(ret)}'
        g.item(pyname, f'prysm/thinfilm.py:{pyname}', lambda: get_def(tf, pyname), build,
               f'def {leanname} (A : M22 K) : K := {M}.{leanname} A')
    tot('rtot', 'rtot')
    tot('ttot', 'ttot')

    # ------------------------------------------------------------------ wiring of multilayer_stack_rt
    def stack_fn():
        return get_def(tf, 'multilayer_stack_rt')

    def snell_wiring():
        calls = find_calls(stack_fn(), 'snell_aor')
        texts = sorted(ast.unparse(c) for c in calls)
        return texts == sorted(['snell_aor(ambient_index, indices[:, i], aoi, degrees=False)',
                                'snell_aor(ambient_index, indices[i], aoi, degrees=False)'])
    recognise(g, 'stackAnglesFromAmbientBySnell', 'prysm/thinfilm.py:multilayer_stack_rt', None, snell_wiring)

    def aoi_radians():
        fn = stack_fn()
        a = [ast.unparse(st.value) for st in fn.body if isinstance(st, ast.Assign) and ast.unparse(st.targets[0]) == 'aoi']
        return a == ['np.radians(aoi)']
    recognise(g, 'stackAoiDegreesToRadians', 'prysm/thinfilm.py:multilayer_stack_rt', None, aoi_radians)

    def layer_wiring():
        calls = find_calls(stack_fn(), 'fn1')
        texts = sorted(ast.unparse(c) for c in calls)
        return texts == sorted(['fn1(wavelength, thicknesses[:, i], indices[:, i], angles[:, i])',
                                'fn1(wavelength, thicknesses[i], indices[i], angles[i])'])
    recognise(g, 'stackLayerArgsInOrder', 'prysm/thinfilm.py:multilayer_stack_rt', None, layer_wiring)

    def exit_wiring():
        calls = find_calls(stack_fn(), 'fn2')
        texts = sorted(ast.unparse(c) for c in calls)
        return texts == sorted(['fn2(ambient_index, aoi, Mjs, indices[:, -1], angles[:, -1])',
                                'fn2(ambient_index, aoi, Mjs, indices[-1], angles[-1])'])
    recognise(g, 'stackExitMediumIsLastLayer', 'prysm/thinfilm.py:multilayer_stack_rt', None, exit_wiring)

    def dispatch():
        fn = stack_fn()
        found = {}
        for st in ast.walk(fn):
            if isinstance(st, ast.If) and isinstance(st.test, ast.Compare) and ast.unparse(st.test.left) == 'polarization':
                pol = ast.literal_eval(st.test.comparators[0])
                found[pol] = sorted(ast.unparse(s) for s in st.body)
        return found == {'p': ['fn1 = characteristic_matrix_p', 'fn2 = multilayer_matrix_p'],
                         's': ['fn1 = characteristic_matrix_s', 'fn2 = multilayer_matrix_s']}
    recognise(g, 'stackPolarizationDispatch', 'prysm/thinfilm.py:multilayer_stack_rt', None, dispatch)

    def split():
        fn = stack_fn()
        a = {ast.unparse(st.targets[0]): ast.unparse(st.value) for st in fn.body if isinstance(st, ast.Assign)}
        return a.get('indices') == 'stack[:, 0, ...]' and a.get('thicknesses') == 'stack[:, 1, ...]' \
            and a.get('r') == 'rtot(A)' and a.get('t') == 'ttot(A)'
    recognise(g, 'stackIndexThicknessColumnsAndTotals', 'prysm/thinfilm.py:multilayer_stack_rt', None, split)

    return g.finish()


if __name__ == '__main__':
    import sys
    text, items = generate(sys.argv[1] if len(sys.argv) > 1 else '/repo')
    print(text)
    for it in items:
        print('--', it)
