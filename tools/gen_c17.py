"""translator items for C17 (prysm/thinfilm.py): the closed-form Fresnel coefficients, Snell / Brewster /
critical-angle arguments, the entries of the characteristic matrices, the constant tables and the product
order of multilayer_matrix_{s,p}, rtot/ttot, and the wiring of multilayer_stack_rt (structural facts).

All scalar expressions are emitted in mode 'num' (generic `K` with `[Num K]`): `np.cos(theta)`, `np.sin(beta)`,
`np.cos(beta)`, `np.pi` and the literal `-1j` become the parameters `cost`, `sinb`, `cosb`, `pi`, `mI`.
"""
import ast
import copy
import re
from pyexpr2lean import Gen, Tr, Untranslatable, load, get_def, find_returns, find_calls, call_arg

M = 'Model.C17'


class _StripBroadcast(ast.NodeTransformer):
    """np.broadcast_to(x, shape) -> x   (value-preserving: broadcasting repeats the scalar)"""

    def visit_Call(self, node):
        self.generic_visit(node)
        if ast.unparse(node.func) in ('np.broadcast_to', 'numpy.broadcast_to') and len(node.args) == 2:
            return node.args[0]
        return node


def strip(node):
    return ast.fix_missing_locations(_StripBroadcast().visit(copy.deepcopy(node)))


def _stored_names(node):
    """every simple name (re)bound anywhere inside `node`"""
    out = set()
    for n in ast.walk(node):
        if isinstance(n, ast.Name) and isinstance(n.ctx, (ast.Store, ast.Del)):
            out.add(n.id)
        elif isinstance(n, (ast.AugAssign, ast.AnnAssign)) and isinstance(n.target, ast.Name):
            out.add(n.target.id)
        elif isinstance(n, ast.Subscript) and isinstance(n.ctx, ast.Store) and isinstance(n.value, ast.Name):
            out.add(n.value.id)       # x[...] = v changes x
    return out


def poison(env, name):
    """forget everything that mentions `name`: a later use then fails as a free name (=> Untranslatable)"""
    pat = re.compile(r'(?<![\w.])' + re.escape(name) + r'(?![\w])')
    for k in [k for k in env if pat.search(k)]:
        del env[k]


def straight_env(stmts, env0, after=None):
    """walk a straight-line body, inlining every translatable local into the environment (python text -> Lean term).
    SOUND w.r.t. re-binding: a name re-bound by something the translator cannot read (untranslatable right-hand side,
    augmented assignment, subscript store, or any assignment inside if/for/while/with/try) is POISONED together with every
    environment key that mentions it, so a later use raises Untranslatable instead of silently seeing the stale value.
    Tuple assignments `a, b = x, y` are read component-wise (all right-hand sides in the old environment).
    `after = {name: {key: term}}`: keys that become valid once `name` has been bound (e.g. 'np.sin(beta)' after beta);
    binding that name a second time is refused."""
    env = dict(env0)
    after = after or {}
    bound_once = set()
    for st in stmts:
        if isinstance(st, ast.Expr) and isinstance(st.value, ast.Constant):
            continue
        if isinstance(st, (ast.Pass, ast.Return, ast.Assert)):
            continue
        pairs = None
        if isinstance(st, ast.Assign) and len(st.targets) == 1:
            t = st.targets[0]
            if isinstance(t, ast.Name):
                pairs = [(t.id, st.value)]
            elif isinstance(t, ast.Tuple) and isinstance(st.value, ast.Tuple) and len(t.elts) == len(st.value.elts) \
                    and all(isinstance(a, ast.Name) for a in t.elts):
                pairs = [(a.id, v) for a, v in zip(t.elts, st.value.elts)]
        if pairs is None:
            for nm in _stored_names(st):
                poison(env, nm)
            continue
        new = {}
        for name, val in pairs:
            try:
                new[name] = Tr(env, 'num').expr(strip(val))
            except Untranslatable:
                new[name] = None
        for name, term in new.items():
            poison(env, name)
        for name, term in new.items():
            if term is not None:
                env[name] = term
            if name in after:
                if name in bound_once:
                    raise Untranslatable(f'{name} is bound twice')
                bound_once.add(name)
                if term is not None:
                    env.update(after[name])
    return env


def matrix_literal(node):
    """np.asarray([[a, b], [c, d]]) -> [a, b, c, d] (expr nodes)"""
    if isinstance(node, ast.Call) and ast.unparse(node.func) in ('np.asarray', 'np.array', 'numpy.asarray', 'numpy.array'):
        node = node.args[0]
    if not (isinstance(node, ast.List) and len(node.elts) == 2 and all(isinstance(r, ast.List) and len(r.elts) == 2
                                                                         for r in node.elts)):
        raise Untranslatable(f'not a 2x2 literal: {ast.unparse(node)[:60]}')
    return [node.elts[0].elts[0], node.elts[0].elts[1], node.elts[1].elts[0], node.elts[1].elts[1]]


def m22(terms):
    return '⟨' + ', '.join(terms) + '⟩'


def bind_call(call, params, defaults=None):
    """positional + keyword arguments of a Call bound to parameter names -> {name: node}"""
    if any(isinstance(a, ast.Starred) for a in call.args) or any(k.arg is None for k in call.keywords):
        raise Untranslatable(f'star-arguments in {ast.unparse(call)[:60]}')
    if len(call.args) > len(params):
        raise Untranslatable(f'too many arguments in {ast.unparse(call)[:60]}')
    out = dict(defaults or {})
    for nm, a in zip(params, call.args):
        out[nm] = a
    for k in call.keywords:
        if k.arg not in params:
            raise Untranslatable(f'unknown keyword {k.arg}')
        out[k.arg] = k.value
    return out


class _Subst(ast.NodeTransformer):
    def __init__(self, mapping):
        self.mapping = mapping

    def visit_Name(self, node):
        if isinstance(node.ctx, ast.Load) and node.id in self.mapping:
            return copy.deepcopy(self.mapping[node.id])
        return node


def substitute(node, mapping):
    """expression with the names of `mapping` replaced by expression nodes"""
    return ast.fix_missing_locations(_Subst(mapping).visit(copy.deepcopy(node)))


def inline_locals(fn, expr):
    """`expr` with every single-assignment simple local of fn replaced by its defining expression (to a fixpoint)"""
    defs = {}
    counts = {}
    for st in ast.walk(fn):
        if isinstance(st, ast.Assign) and len(st.targets) == 1 and isinstance(st.targets[0], ast.Name):
            counts[st.targets[0].id] = counts.get(st.targets[0].id, 0) + 1
            defs[st.targets[0].id] = st.value
        elif isinstance(st, (ast.AugAssign, ast.For)) :
            for nm in _stored_names(st):
                counts[nm] = counts.get(nm, 0) + 2
    params = {a.arg for a in fn.args.args}
    defs = {k: v for k, v in defs.items() if counts.get(k) == 1 and k not in params}
    for _ in range(6):
        new = substitute(expr, defs)
        if ast.unparse(new) == ast.unparse(expr):
            break
        expr = new
    return expr


def inline_helper(mod, value):
    """texts of the possible values of `value`; a call `h(args)` of a same-module function `h` whose body is only
    `return`s (possibly under if/else) is replaced by h's return expressions with the parameters substituted"""
    if isinstance(value, ast.Call) and isinstance(value.func, ast.Name) and not value.keywords:
        try:
            h = get_def(mod, value.func.id)
        except Untranslatable:
            return [ast.unparse(value)]
        params = [a.arg for a in h.args.args]
        if len(value.args) != len(params):
            return [ast.unparse(value)]
        body_ok = all(isinstance(st, (ast.Return, ast.If)) or (isinstance(st, ast.Expr) and isinstance(st.value, ast.Constant))
                      for st in h.body)
        if not body_ok:
            return [ast.unparse(value)]
        m = dict(zip(params, value.args))
        return [ast.unparse(substitute(r, m)) for r in find_returns(h)]
    return [ast.unparse(value)]


CONV = {
    'np.radians': lambda a: f'(({a[0]} * pi) / (Num.ofInt (180)))',
    'np.deg2rad': lambda a: f'(({a[0]} * pi) / (Num.ofInt (180)))',
    'np.degrees': lambda a: f'(({a[0]} * (Num.ofInt (180))) / pi)',
    'np.rad2deg': lambda a: f'(({a[0]} * (Num.ofInt (180))) / pi)',
}


def flag_branch(fn, flag):
    """the single top-level `if <flag>:` of fn (no else) -> its body; Untranslatable otherwise"""
    ifs = [st for st in fn.body if isinstance(st, ast.If)]
    if len(ifs) != 1 or ast.unparse(ifs[0].test) != flag:
        raise Untranslatable(f'expected exactly one `if {flag}:`')
    return ifs[0]


def default_of(fn, name):
    args = fn.args.args
    defs = fn.args.defaults
    pos = [a.arg for a in args].index(name) - (len(args) - len(defs))
    if pos < 0:
        raise Untranslatable(f'{name} has no default')
    return defs[pos]


def generate(repo):
    g = Gen('C17', imports=['PrysmVerif.Model.C17'], opens=['Model.C17'],
            header='set_option linter.unusedVariables false\nvariable {K : Type} [Num K]')
    tf, _ = load(repo, 'prysm/thinfilm.py')
    SRC = 'prysm/thinfilm.py'

    # ------------------------------------------------------------------ Fresnel coefficient functions
    def fresnel(pyname, leanname):
        def build():
            fn = get_def(tf, pyname)
            args = [a.arg for a in fn.args.args]
            if args != ['n0', 'n1', 'theta0', 'theta1']:
                raise Untranslatable(f'signature of {pyname}: {args}')
            env = straight_env(fn.body, {'n0': 'n0', 'n1': 'n1', 'np.cos(theta0)': 'c0', 'np.cos(theta1)': 'c1'})
            (ret,) = find_returns(fn)
            return f'def {leanname} (n0 n1 c0 c1 : K) : K := {Tr(env, "num").expr(ret)}'
        g.item(pyname, f'{SRC}:{pyname}', lambda: get_def(tf, pyname), build,
               f'def {leanname} (n0 n1 c0 c1 : K) : K := {M}.{leanname} n0 n1 c0 c1')
    fresnel('fresnel_rs', 'fresnelRs')
    fresnel('fresnel_ts', 'fresnelTs')
    fresnel('fresnel_rp', 'fresnelRp')
    fresnel('fresnel_tp', 'fresnelTp')

    # ------------------------------------------------------------------ Snell, Brewster, critical angle (+ unit conversions)
    def snell():
        fn = get_def(tf, 'snell_aor')
        if [a.arg for a in fn.args.args] != ['n0', 'n1', 'theta', 'degrees']:
            raise Untranslatable('signature of snell_aor')
        br = flag_branch(fn, 'degrees')
        if br.orelse or len(br.body) != 1 or not isinstance(br.body[0], ast.Assign) \
                or ast.unparse(br.body[0].targets[0]) != 'theta':
            raise Untranslatable('`if degrees:` does not just convert theta')
        conv = Tr({'theta': 'theta', 'np.pi': 'pi'}, 'num', CONV).expr(br.body[0].value)
        (ret,) = find_returns(fn)
        if not (isinstance(ret, ast.Call) and ast.unparse(ret.func).endswith('arcsin') and len(ret.args) == 1):
            raise Untranslatable('snell_aor does not return arcsin(...)')
        rest = [st for st in fn.body if not (isinstance(st, ast.Expr) and isinstance(st.value, ast.Constant))
                and st is not br and not isinstance(st, ast.Return)]
        if rest:
            raise Untranslatable('extra statements in snell_aor')
        dflt = ast.literal_eval(default_of(fn, 'degrees'))
        return ('def snellSin (n0 n1 s0 : K) : K := ' +
                Tr({'n0': 'n0', 'n1': 'n1', 'np.sin(theta)': 's0'}, 'num').expr(ret.args[0]) +
                f'\n/-- the angle handed to `sin` when `degrees=True` -/\ndef snellAngleFromDegrees (pi theta : K) : K := {conv}' +
                f'\ndef snellDegreesDefault : Bool := {"true" if dflt else "false"}')
    g.item('snell_aor', f'{SRC}:snell_aor', lambda: get_def(tf, 'snell_aor'), snell,
           f'def snellSin (n0 n1 s0 : K) : K := {M}.snellSin n0 n1 s0\n'
           'def snellAngleFromDegrees (pi theta : K) : K := theta * pi / Num.ofInt 180\ndef snellDegreesDefault : Bool := true')

    def angle_out(fn, flag, inner):
        """`ang = inner(...)`; `if flag: return conv(ang)`; `return ang`  ->  Lean term of conv in `ang`"""
        br = flag_branch(fn, flag)
        rets = [st for st in br.body if isinstance(st, ast.Return)]
        if len(br.body) != 1 or len(rets) != 1:
            raise Untranslatable(f'`if {flag}:` is not a single return')
        conv = Tr({'ang': 'ang', 'np.pi': 'pi'}, 'num', CONV).expr(rets[0].value)
        tail = [st for st in (br.orelse or fn.body[fn.body.index(br) + 1:]) if isinstance(st, ast.Return)]
        if len(tail) != 1 or ast.unparse(tail[0].value) != 'ang':
            raise Untranslatable('the other branch does not return ang')
        a = [st for st in fn.body if isinstance(st, ast.Assign)]
        if len(a) != 1 or ast.unparse(a[0].targets[0]) != 'ang' or not isinstance(a[0].value, ast.Call) \
                or ast.unparse(a[0].value.func) != inner:
            raise Untranslatable(f'ang is not a single {inner}(...)')
        dflt = ast.literal_eval(default_of(fn, flag))
        return a[0].value, conv, dflt

    def brewster():
        fn = get_def(tf, 'brewsters_angle')
        call, conv, dflt = angle_out(fn, 'deg', 'np.arctan2')
        if len(call.args) != 2:
            raise Untranslatable('arctan2 arguments')
        tr = Tr({'n0': 'n0', 'n1': 'n1'}, 'num')
        return (f'def brewsterY (n0 n1 : K) : K := {tr.expr(call.args[0])}\n'
                f'def brewsterX (n0 n1 : K) : K := {tr.expr(call.args[1])}\n'
                f'def brewsterToDegrees (pi ang : K) : K := {conv}\n'
                f'def brewsterDegDefault : Bool := {"true" if dflt else "false"}')
    g.item('brewsters_angle', f'{SRC}:brewsters_angle', lambda: get_def(tf, 'brewsters_angle'), brewster,
           'def brewsterY (n0 n1 : K) : K := n1\ndef brewsterX (n0 n1 : K) : K := n0\n'
           'def brewsterToDegrees (pi ang : K) : K := ang * Num.ofInt 180 / pi\ndef brewsterDegDefault : Bool := true')

    def critical():
        fn = get_def(tf, 'critical_angle')
        call, conv, dflt = angle_out(fn, 'deg', 'np.arcsin')
        if len(call.args) != 1:
            raise Untranslatable('arcsin argument')
        return ('def criticalSin (n0 n1 : K) : K := ' + Tr({'n0': 'n0', 'n1': 'n1'}, 'num').expr(call.args[0]) +
                f'\ndef criticalToDegrees (pi ang : K) : K := {conv}\n'
                f'def criticalDegDefault : Bool := {"true" if dflt else "false"}')
    g.item('critical_angle', f'{SRC}:critical_angle', lambda: get_def(tf, 'critical_angle'), critical,
           'def criticalSin (n0 n1 : K) : K := n0 / n1\ndef criticalToDegrees (pi ang : K) : K := ang * Num.ofInt 180 / pi\n'
           'def criticalDegDefault : Bool := true')

    # ------------------------------------------------------------------ characteristic matrices
    def char(pyname, leanname, betaname):
        def build():
            fn = get_def(tf, pyname)
            args = [a.arg for a in fn.args.args]
            if args != ['lambda_', 'd', 'n', 'theta']:
                raise Untranslatable(f'signature of {pyname}: {args}')
            base = {'lambda_': 'lam', 'd': 'd', 'n': 'n', 'np.pi': 'pi', 'np.cos(theta)': 'cost'}
            # the local that holds the phase thickness, whatever it is called: the one name whose sin AND cos are taken
            trig = {}
            for c in ast.walk(fn):
                if isinstance(c, ast.Call) and ast.unparse(c.func) in ('np.sin', 'np.cos') and len(c.args) == 1:
                    if ast.unparse(c.args[0]) != 'theta':
                        trig.setdefault(ast.unparse(c.args[0]), set()).add(ast.unparse(c.func))
            if len(trig) != 1 or set(trig[next(iter(trig))]) != {'np.sin', 'np.cos'} or not next(iter(trig)).isidentifier():
                raise Untranslatable(f'expected sin and cos of exactly one phase variable, found {sorted(trig)}')
            ph = next(iter(trig))
            env = straight_env(fn.body, base)
            if ph not in env:
                raise Untranslatable(f'no translatable assignment to {ph}')
            beta = env[ph]
            # the trigonometric functions are taken of that phase: sinb, cosb = np.sin(beta), np.cos(beta)
            env2 = straight_env(fn.body, {**base, '-1j': 'mI', '1j': '(-mI)'},
                                after={ph: {f'np.sin({ph})': 'sinb', f'np.cos({ph})': 'cosb'}})
            (ret,) = find_returns(fn)
            ents = [Tr(env2, 'num').expr(e) for e in matrix_literal(ret)]
            for e in ents:
                if re.search(r'(?<!\w)(lam|pi|d)(?!\w)', e):
                    raise Untranslatable('matrix entry depends on beta other than through sin/cos(beta)')
            return (f'def {betaname} (pi lam d n cost : K) : K := {beta}\n'
                    f'def {leanname} (mI sinb cosb cost n : K) : M22 K := {m22(ents)}')
        modelname = 'layerP' if leanname == 'charP' else 'layerS'
        g.item(pyname, f'{SRC}:{pyname}', lambda: get_def(tf, pyname), build,
               f'def {betaname} (pi lam d n cost : K) : K := {M}.beta pi lam d n cost\n'
               f'def {leanname} (mI sinb cosb cost n : K) : M22 K := {M}.{modelname} mI sinb cosb cost n')
    char('characteristic_matrix_p', 'charP', 'betaP')
    char('characteristic_matrix_s', 'charS', 'betaS')

    # ------------------------------------------------------------------ multilayer_matrix_{p,s}
    def amat(pyname, leanname):
        def build():
            fn = get_def(tf, pyname)
            args = [a.arg for a in fn.args.args]
            if args != ['n0', 'theta0', 'characteristic_matrices', 'nnp1', 'theta_np1']:
                raise Untranslatable(f'signature of {pyname}: {args}')
            base = {'n0': 'n0', 'nnp1': 'ne', 'np.cos(theta0)': 'cost0', 'np.cos(theta_np1)': 'coste'}
            env = straight_env(fn.body, base)
            tr = Tr(env, 'num')
            if 'term1' not in env:
                raise Untranslatable('term1 not translatable')

            def assigns(name):
                return [st.value for st in ast.walk(fn) if isinstance(st, ast.Assign) and ast.unparse(st.targets[0]) == name]

            def tables(name):
                lit, other = [], []
                for v in assigns(name):
                    if ast.unparse(v).replace(' ', '') == f'np.moveaxis({name},2,0)':
                        continue            # batch axis to the front: no effect on the per-element table
                    try:
                        lit.append([tr.expr(e) for e in matrix_literal(strip(v))])
                    except Untranslatable:
                        other.append(ast.unparse(v))
                if other:
                    raise Untranslatable(f'{name} is also assigned {other[0][:50]}')
                return lit
            t2 = tables('term2')
            if len(t2) != 1:
                raise Untranslatable('term2 is not assigned exactly one literal')
            # term4: one literal in each branch of the batched / scalar `if`; both must carry the same table
            t4 = tables('term4')
            if len(t4) != 2 or t4[0] != t4[1]:
                raise Untranslatable(f'term4 tables of the batched and scalar branches differ or are missing: {t4}')
            # term3 = ordered product of the list (reduce(np.matmul, ...), or its single element), possibly through a
            # same-module helper whose return expressions are inlined
            t3 = set()
            for v in assigns('term3'):
                t3 |= set(inline_helper(tf, v))
            ok3 = {'reduce(np.matmul, characteristic_matrices)', 'characteristic_matrices[0]', 'functools.reduce(np.matmul, characteristic_matrices)'}
            if not t3 or not t3 <= ok3 or not (t3 & {'reduce(np.matmul, characteristic_matrices)', 'functools.reduce(np.matmul, characteristic_matrices)'}):
                raise Untranslatable(f'term3: {sorted(t3)}')
            # term12 = term1 * term2 (np.dot with a scalar / tensordot over the batch axis)
            t12 = sorted(ast.unparse(v) for v in assigns('term12'))
            if t12 != sorted(['np.tensordot(term2, term1, axes=(0, 0))', 'np.dot(term1, term2)']):
                raise Untranslatable(f'term12: {t12}')
            # the product that is returned first
            ret = [st.value for st in fn.body if isinstance(st, ast.Return)][0]
            if not (isinstance(ret, ast.Call) and ast.unparse(ret.func) == 'reduce' and
                    ast.unparse(ret.args[0]) == 'np.matmul' and isinstance(ret.args[1], (ast.Tuple, ast.List))):
                raise Untranslatable('return is not reduce(np.matmul, (...))')
            names = {'term12': f'(M22.smul ({leanname}Term1 n0 cost0) ({leanname}Term2 n0 cost0))', 'term3': 'M',
                     'term4': f'({leanname}Term4 ne coste)'}
            order = [ast.unparse(e) for e in ret.args[1].elts]
            if sorted(order) != ['term12', 'term3', 'term4']:
                raise Untranslatable(f'factors of the returned product: {order}')
            prod = names[order[0]]
            for nm in order[1:]:
                prod = f'(M22.mul {prod} {names[nm]})'
            return (f'def {leanname}Term1 (n0 cost0 : K) : K := {env["term1"]}\n'
                    f'def {leanname}Term2 (n0 cost0 : K) : M22 K := {m22(t2[0])}\n'
                    f'def {leanname}Term4 (ne coste : K) : M22 K := {m22(t4[0])}\n'
                    f'def {leanname} (n0 cost0 : K) (M : M22 K) (ne coste : K) : M22 K :=\n  {prod}')
        if leanname == 'amatP':
            fb2, fb4 = '⟨n0, cost0, n0, -cost0⟩', '⟨coste, Num.ofInt 0, ne, Num.ofInt 0⟩'
        else:
            fb2, fb4 = '⟨n0 * cost0, Num.ofInt 1, n0 * cost0, Num.ofInt (-1)⟩', '⟨Num.ofInt 1, Num.ofInt 0, ne * coste, Num.ofInt 0⟩'
        g.item(pyname, f'{SRC}:{pyname}', lambda: get_def(tf, pyname), build,
               f'def {leanname}Term1 (n0 cost0 : K) : K := Num.ofInt 1 / (Num.ofInt 2 * n0 * cost0)\n'
               f'def {leanname}Term2 (n0 cost0 : K) : M22 K := {fb2}\n'
               f'def {leanname}Term4 (ne coste : K) : M22 K := {fb4}\n'
               f'def {leanname} (n0 cost0 : K) (M : M22 K) (ne coste : K) : M22 K := {M}.{leanname} n0 cost0 M ne coste')
    amat('multilayer_matrix_p', 'amatP')
    amat('multilayer_matrix_s', 'amatS')

    # ------------------------------------------------------------------ rtot / ttot
    def tot(pyname, leanname):
        def build():
            fn = get_def(tf, pyname)
            env = {f'Amat[..., {i}, {j}]': f'A.{"abcd"[2 * i + j]}' for i in (0, 1) for j in (0, 1)}
            (ret,) = find_returns(fn)
            return f'def {leanname} (A : M22 K) : K := {Tr(env, "num").expr(ret)}'
        g.item(pyname, f'{SRC}:{pyname}', lambda: get_def(tf, pyname), build,
               f'def {leanname} (A : M22 K) : K := {M}.{leanname} A')
    tot('rtot', 'rtot')
    tot('ttot', 'ttot')

    # ------------------------------------------------------------------ wiring of multilayer_stack_rt, TRANSLATED
    # Each call site of the pipeline becomes a Lean definition whose arguments are placed as the source places them, so a
    # swapped / wrong argument changes the definition the theorems `gen_stack_*` speak about.
    def stack_fn():
        return get_def(tf, 'multilayer_stack_rt')
    SSRC = f'{SRC}:multilayer_stack_rt'

    def dispatch_aliases():
        """{'p': (layer_alias, amat_alias, layer_fn, amat_fn), 's': ...} from the `if polarization == ...` chain"""
        out = {}
        for st in ast.walk(stack_fn()):
            if isinstance(st, ast.If) and isinstance(st.test, ast.Compare) and ast.unparse(st.test.left) == 'polarization' \
                    and len(st.test.ops) == 1 and isinstance(st.test.ops[0], ast.Eq):
                pol = ast.literal_eval(st.test.comparators[0])
                lay = am = None
                for s2 in st.body:
                    if isinstance(s2, ast.Assign) and isinstance(s2.targets[0], ast.Name) and isinstance(s2.value, ast.Name):
                        if s2.value.id.startswith('characteristic_matrix_'):
                            lay = (s2.targets[0].id, s2.value.id)
                        elif s2.value.id.startswith('multilayer_matrix_'):
                            am = (s2.targets[0].id, s2.value.id)
                if lay and am:
                    out[pol] = (lay[0], am[0], lay[1], am[1])
        if sorted(out) != ['p', 's'] or len({v[0] for v in out.values()}) != 1 or len({v[1] for v in out.values()}) != 1:
            raise Untranslatable('polarization dispatch not recognised')
        return out

    def batched_flags():
        """texts that mean `the stack is batched`: the test itself, or a name bound exactly once to it"""
        fn = stack_fn()
        tests = {'angles.ndim>1', 'indices.ndim>1', 'thicknesses.ndim>1'}
        out = set(tests)
        for st in fn.body:
            if isinstance(st, ast.Assign) and len(st.targets) == 1 and isinstance(st.targets[0], ast.Name) \
                    and ast.unparse(st.value).replace(' ', '') in tests:
                nm = st.targets[0].id
                if sum(1 for x in ast.walk(fn) if isinstance(x, ast.Name) and x.id == nm and isinstance(x.ctx, ast.Store)) == 1:
                    out.add(nm)
        return out

    def index_aliases():
        """{name: 'last' | 'first'} for `name = (slice(None), k) if <batched> else k`, k in (-1, 0), bound exactly once"""
        fn = stack_fn()
        out = {}
        for st in fn.body:
            if isinstance(st, ast.Assign) and len(st.targets) == 1 and isinstance(st.targets[0], ast.Name) and isinstance(st.value, ast.IfExp):
                nm, v = st.targets[0].id, st.value
                if sum(1 for x in ast.walk(fn) if isinstance(x, ast.Name) and x.id == nm and isinstance(x.ctx, ast.Store)) != 1:
                    continue
                if ast.unparse(v.test).replace(' ', '') not in batched_flags():
                    continue
                for k, what in (('-1', 'last'), ('0', 'first')):
                    if ast.unparse(v.body).replace(' ', '') in (f'(slice(None),{k})', f'(slice(None,None,None),{k})') \
                            and ast.unparse(v.orelse).replace(' ', '') == k:
                        out[nm] = what
        return out

    def role(node, last_ok=False):
        """classify an argument expression of the pipeline: ambient / aoi / wavelength / layer-j column / last / first layer"""
        t = ast.unparse(node)
        if t in ('ambient_index', 'aoi', 'wavelength'):
            return t
        if isinstance(node, ast.Subscript) and isinstance(node.value, ast.Name) and node.value.id in ('indices', 'thicknesses', 'angles'):
            idx = node.slice.elts if isinstance(node.slice, ast.Tuple) else [node.slice]
            idx = [ast.unparse(e) for e in idx]
            if len(idx) == 1 and idx[0] in index_aliases():
                return (node.value.id, index_aliases()[idx[0]])
            if idx in (['i'], [':', 'i']):
                return (node.value.id, 'j')
            if idx in (['-1'], [':', '-1']):
                return (node.value.id, 'last')
            if idx in (['0'], [':', '0']):
                return (node.value.id, 'first')
        raise Untranslatable(f'argument {t} of the pipeline not recognised')

    def same_roles(calls, params):
        rs = []
        for c in calls:
            b = bind_call(c, params)
            rs.append({k: (role(v) if k not in ('degrees', 'characteristic_matrices') else ast.unparse(v)) for k, v in b.items()})
        if not rs or any(r != rs[0] for r in rs):
            raise Untranslatable('the batched and the scalar call sites differ')
        return rs[0]

    NORMALISATIONS = {'polarization': ('polarization.lower()', 'str.lower(polarization)'),
                      'aoi': ('np.radians(aoi)', 'np.deg2rad(aoi)'),
                      'stack': ('np.asarray(stack)', 'np.array(stack)', 'np.asanyarray(stack)')}

    def params_not_rebound():
        """the role-based call-site items read parameter NAMES; they are only meaningful if the parameters of
        multilayer_stack_rt (wavelength, ambient_index, aoi, polarization, stack) still hold the caller's values there:
        the only re-bindings accepted are the top-level normalisations (lower-casing, degrees -> radians, asarray)"""
        fn = stack_fn()
        params = [a.arg for a in fn.args.args]
        for st in ast.walk(fn):
            names = set()
            if isinstance(st, (ast.Assign, ast.AugAssign, ast.AnnAssign, ast.For, ast.With, ast.NamedExpr)):
                names = _stored_names(st) if not isinstance(st, ast.NamedExpr) else {st.target.id}
            for nm in names & set(params):
                ok = isinstance(st, ast.Assign) and st in fn.body and len(st.targets) == 1 and isinstance(st.targets[0], ast.Name) \
                    and ast.unparse(st.value).replace(' ', '') in [t.replace(' ', '') for t in NORMALISATIONS.get(nm, ())]
                if not ok:
                    raise Untranslatable(f'parameter {nm} is re-bound / modified: {ast.unparse(st)[:60]}')

    def stack_snell():
        params_not_rebound()
        fn = stack_fn()
        calls = find_calls(fn, 'snell_aor')
        r = same_roles(calls, ['n0', 'n1', 'theta', 'degrees'])
        names = {'ambient_index': 'n0', ('indices', 'j'): 'nj'}
        if r.get('theta') != 'aoi' or r['n0'] not in names or r['n1'] not in names:
            raise Untranslatable(f'snell_aor arguments {r}')
        conv = [ast.unparse(st.value) for st in fn.body if isinstance(st, ast.Assign) and ast.unparse(st.targets[0]) == 'aoi']
        if conv not in ([], ['np.radians(aoi)'], ['np.deg2rad(aoi)']):
            raise Untranslatable(f'aoi conversion {conv}')
        deg = r.get('degrees', 'True')
        if deg not in ('True', 'False'):
            raise Untranslatable('degrees flag')
        # aoi is documented in degrees: exactly one of {converted here, converted inside snell_aor}
        consistent = (bool(conv) != (deg == 'True'))
        rad = bool(conv)      # the angle passed on to multilayer_matrix_* must be in radians as well
        return (f'def stackSnellSin (n0 s0 nj : K) : K := snellSin {names[r["n0"]]} {names[r["n1"]]} s0\n'
                f'def stackAoiConvertedOnce : Bool := {"true" if consistent and rad else "false"}')
    g.item('stack.snell', SSRC, stack_fn, stack_snell,
           'def stackSnellSin (n0 s0 nj : K) : K := snellSin n0 nj s0\ndef stackAoiConvertedOnce : Bool := true')

    def stack_layer():
        params_not_rebound()
        al = dispatch_aliases()
        out = []
        for pol, cname, bname in (('s', 'charS', 'betaS'), ('p', 'charP', 'betaP')):
            lay_alias, _, lay_fn, _ = al[pol]
            if lay_fn != f'characteristic_matrix_{pol}':
                # recognised, and wrong: the other polarisation's matrix is wired in
                other = 'p' if pol == 's' else 's'
                if lay_fn != f'characteristic_matrix_{other}':
                    raise Untranslatable(f'layer function {lay_fn}')
                cname, bname = ('charP', 'betaP') if pol == 's' else ('charS', 'betaS')
            r = same_roles(find_calls(stack_fn(), lay_alias), ['lambda_', 'd', 'n', 'theta'])
            names = {'wavelength': 'lam', ('thicknesses', 'j'): 'd', ('indices', 'j'): 'n'}
            if r.get('theta') != ('angles', 'j') or any(r.get(k) not in names for k in ('lambda_', 'd', 'n')):
                raise Untranslatable(f'layer call arguments {r}')
            P = pol.upper()
            out.append(f'def stackBeta{P} (pi lam d n cost : K) : K := {bname} pi {names[r["lambda_"]]} {names[r["d"]]} {names[r["n"]]} cost\n'
                       f'def stackLayer{P} (mI sinb cosb cost d n : K) : M22 K := {cname} mI sinb cosb cost {names[r["n"]]}')
        return '\n'.join(out)
    g.item('stack.layer', SSRC, stack_fn, stack_layer,
           'def stackBetaS (pi lam d n cost : K) : K := betaS pi lam d n cost\n'
           'def stackLayerS (mI sinb cosb cost d n : K) : M22 K := charS mI sinb cosb cost n\n'
           'def stackBetaP (pi lam d n cost : K) : K := betaP pi lam d n cost\n'
           'def stackLayerP (mI sinb cosb cost d n : K) : M22 K := charP mI sinb cosb cost n')

    def stack_amat():
        params_not_rebound()
        al = dispatch_aliases()
        out = []
        for pol in ('s', 'p'):
            _, am_alias, _, am_fn = al[pol]
            aname = {'multilayer_matrix_s': 'amatS', 'multilayer_matrix_p': 'amatP'}.get(am_fn)
            if aname is None:
                raise Untranslatable(f'A-matrix function {am_fn}')
            r = same_roles(find_calls(stack_fn(), am_alias), ['n0', 'theta0', 'characteristic_matrices', 'nnp1', 'theta_np1'])
            nm = {'ambient_index': 'n0', ('indices', 'last'): 'nLast', ('indices', 'first'): 'nFirst'}
            cm = {'aoi': 'c0', ('angles', 'last'): 'cLast', ('angles', 'first'): 'cFirst'}
            if r.get('n0') not in nm or r.get('nnp1') not in nm or r.get('theta0') not in cm or r.get('theta_np1') not in cm:
                raise Untranslatable(f'A-matrix call arguments {r}')
            out.append(f'def stackAmat{pol.upper()} (n0 c0 : K) (M : M22 K) (nFirst cFirst nLast cLast : K) : M22 K :=\n'
                       f'  {aname} {nm[r["n0"]]} {cm[r["theta0"]]} M {nm[r["nnp1"]]} {cm[r["theta_np1"]]}')
        return '\n'.join(out)
    g.item('stack.amat', SSRC, stack_fn, stack_amat,
           'def stackAmatS (n0 c0 : K) (M : M22 K) (nFirst cFirst nLast cLast : K) : M22 K := amatS n0 c0 M nLast cLast\n'
           'def stackAmatP (n0 c0 : K) (M : M22 K) (nFirst cFirst nLast cLast : K) : M22 K := amatP n0 c0 M nLast cLast')

    def stack_totals():
        fn = stack_fn()
        a = {}
        for st in fn.body:
            if isinstance(st, ast.Assign) and isinstance(st.targets[0], ast.Name):
                a.setdefault(st.targets[0].id, st.value)
        (ret,) = find_returns(fn)
        if not (isinstance(ret, ast.Tuple) and len(ret.elts) == 2 and all(isinstance(e, ast.Name) for e in ret.elts)):
            raise Untranslatable('return is not a pair of names')
        terms = []
        for e in ret.elts:
            v = a.get(e.id)
            if not (isinstance(v, ast.Call) and ast.unparse(v.func) in ('rtot', 'ttot') and [ast.unparse(x) for x in v.args] == ['A']):
                raise Untranslatable(f'{e.id} is not rtot(A) / ttot(A)')
            terms.append(f'{ast.unparse(v.func)} A')
        cols = {}
        for nm in ('indices', 'thicknesses'):
            v = a.get(nm)
            if not (isinstance(v, ast.Subscript) and ast.unparse(v.value) == 'stack' and isinstance(v.slice, ast.Tuple)
                    and len(v.slice.elts) == 3 and ast.unparse(v.slice.elts[0]) == ':' and ast.unparse(v.slice.elts[2]) == '...'
                    and isinstance(v.slice.elts[1], ast.Constant)):
                raise Untranslatable(f'{nm} is not stack[:, k, ...]')
            cols[nm] = int(v.slice.elts[1].value)
        return (f'def stackReturn (A : M22 K) : K × K := ({terms[0]}, {terms[1]})\n'
                f'def stackIndexColumn : Nat := {cols["indices"]}\ndef stackThicknessColumn : Nat := {cols["thicknesses"]}')
    g.item('stack.totals', SSRC, stack_fn, stack_totals,
           'def stackReturn (A : M22 K) : K × K := (rtot A, ttot A)\ndef stackIndexColumn : Nat := 0\ndef stackThicknessColumn : Nat := 1')

    def stack_defaults():
        fn = stack_fn()
        tr = Tr({}, 'num')
        return (f'def stackDefaultAoi : K := {tr.expr(default_of(fn, "aoi"))}\n'
                f'def stackDefaultAmbient : K := {tr.expr(default_of(fn, "ambient_index"))}')
    g.item('stack.defaults', SSRC, stack_fn, stack_defaults,
           'def stackDefaultAoi : K := Num.ofInt 0\ndef stackDefaultAmbient : K := Num.ofInt 1')

    # ------------------------------------------------------------------ batch plumbing (reshape / moveaxis index maps)
    def stack_batch():
        """`X = np.moveaxis(X.reshape((nlayers, -1)), 1, 0)` for indices and thicknesses, per-layer columns `[:, i]` /
        `[:, -1]`, layer matrices with the batch axis moved to the front, `r.reshape(stack.shape[2:])`: emitted as index maps
        over `ravel` / `unravel` (C order).  Recognised-and-different forms (reshape((-1, nlayers)), no axis swap, another
        slice of stack.shape) are emitted AS THEY ARE, so the obligation `gen_stack_batch` fails; anything else is untranslatable."""
        fn = stack_fn()
        nl = [ast.unparse(st.value).replace(' ', '') for st in fn.body
              if isinstance(st, ast.Assign) and ast.unparse(st.targets[0]) == 'nlayers']
        if nl not in (['len(stack)'], ['stack.shape[0]'], ['len(indices)'], ['indices.shape[0]']):
            raise Untranslatable(f'nlayers = {nl}')
        ifs = [st for st in fn.body if isinstance(st, ast.If) and ast.unparse(st.test).replace(' ', '') in
               ('indices.ndim>1', 'thicknesses.ndim>1', 'stack.ndim>2')]
        if len(ifs) != 2 or any(i.orelse for i in ifs):
            raise Untranslatable('expected the flatten block and the un-flatten block `if indices.ndim > 1:`')
        fl, un = ifs

        def flatten_form(name):
            vals = [st.value for st in fl.body if isinstance(st, ast.Assign) and ast.unparse(st.targets[0]) == name]
            if len(vals) != 1:
                raise Untranslatable(f'{name} is not assigned once in the flatten block')
            v = vals[0]
            swap = False
            t = ast.unparse(v).replace(' ', '')
            if isinstance(v, ast.Call) and ast.unparse(v.func) in ('np.moveaxis', 'np.swapaxes') and len(v.args) == 3 and not v.keywords:
                ax = [ast.unparse(a).replace(' ', '') for a in v.args[1:]]
                if ax not in (['1', '0'], ['0', '1'], ['-1', '0'], ['0', '-1']):
                    raise Untranslatable(f'axis move {ax}')
                swap, v = True, v.args[0]
            elif isinstance(v, ast.Attribute) and v.attr == 'T':
                swap, v = True, v.value
            if not (isinstance(v, ast.Call) and isinstance(v.func, ast.Attribute) and v.func.attr == 'reshape'
                    and ast.unparse(v.func.value) == name and len(v.args) == 1 and not v.keywords):
                raise Untranslatable(f'{name}: {t[:60]}')
            shp = ast.unparse(v.args[0]).replace(' ', '')
            if shp in ('(nlayers,-1)', '[nlayers,-1]'):
                R = lambda p, q: f'a {p} (unravel bs {q})'
            elif shp in ('(-1,nlayers)', '[-1,nlayers]'):
                R = lambda p, q: f'(fun u => a (u.headD 0) u.tail) (unravel (k :: bs) ({p} * k + {q}))'
            else:
                raise Untranslatable(f'reshape target {shp}')
            return R('j', 'b') if swap else R('b', 'j')
        fi, ft = flatten_form('indices'), flatten_form('thicknesses')
        if fi != ft:
            raise Untranslatable('indices and thicknesses are flattened differently')
        # per-layer columns in the batched branches
        cols = set()
        lasts = set()
        for st in ast.walk(fn):
            if isinstance(st, ast.If) and ast.unparse(st.test).replace(' ', '') in batched_flags() and st is not fl and st is not un:
                for sub in st.body:
                    for n in ast.walk(sub):
                        if isinstance(n, ast.Subscript) and isinstance(n.value, ast.Name) and n.value.id in ('indices', 'thicknesses', 'angles') \
                                and isinstance(n.slice, ast.Tuple):
                            idx = [ast.unparse(e).replace(' ', '') for e in n.slice.elts]
                            (lasts if '-1' in idx else cols).add(tuple(idx))
        for nm, what in index_aliases().items():
            if what == 'last' and any(isinstance(n, ast.Subscript) and isinstance(n.value, ast.Name) and n.value.id in ('indices', 'angles')
                                      and ast.unparse(n.slice) == nm for n in ast.walk(fn)):
                lasts.add((':', '-1'))          # the batched arm of the alias is (slice(None), -1)
        if cols == {(':', 'i')}:
            col = 'x b i'
        elif cols == {('i', ':')}:
            col = 'x i b'
        else:
            raise Untranslatable(f'batched column selectors {sorted(cols)}')
        if lasts == {(':', '-1')}:
            last = 'x b (k - 1)'
        elif lasts == {('-1', ':')}:
            last = 'x (k - 1) b'
        else:
            raise Untranslatable(f'batched last-layer selectors {sorted(lasts)}')
        # layer matrices (2, 2, B) -> (B, 2, 2)
        mj = [ast.unparse(st.value).replace(' ', '') for st in ast.walk(fn) if isinstance(st, ast.Assign) and ast.unparse(st.targets[0]) == 'Mjs'
              and isinstance(st.value, ast.ListComp) and len(st.value.generators) == 1 and ast.unparse(st.value.generators[0].iter) == 'Mjs']
        if mj in (['[np.moveaxis(M,2,0)forMinMjs]'], ['[np.moveaxis(M,-1,0)forMinMjs]']):
            front = 'true'
        elif len(mj) == 1 and re.fullmatch(r'\[np\.moveaxis\(M,-?\d,-?\d\)forMinMjs\]', mj[0]):
            front = 'false'
        else:
            raise Untranslatable(f'Mjs axis move {mj}')
        # un-flatten
        shapes = set()
        for nm in ('r', 't'):
            vals = [st.value for st in un.body if isinstance(st, ast.Assign) and ast.unparse(st.targets[0]) == nm]
            if len(vals) != 1 or not (isinstance(vals[0], ast.Call) and ast.unparse(vals[0].func) == f'{nm}.reshape' and len(vals[0].args) == 1
                                      and not vals[0].keywords):
                raise Untranslatable(f'{nm} is not reshaped once')
            shapes.add(ast.unparse(vals[0].args[0]).replace(' ', ''))
        if len(shapes) != 1:
            raise Untranslatable('r and t are reshaped differently')
        m = re.fullmatch(r'stack\.shape\[(\d+):\]', next(iter(shapes)))
        if not m:
            raise Untranslatable(f'output shape {next(iter(shapes))}')
        return ('def stackBatchIn {α : Type} (k : Nat) (bs : List Nat) (a : Nat → List Nat → α) (b j : Nat) : α := ' + fi + '\n'
                f'def stackBatchCol {{α : Type}} (x : Nat → Nat → α) (i b : Nat) : α := {col}\n'
                f'def stackBatchLast {{α : Type}} (x : Nat → Nat → α) (k b : Nat) : α := {last}\n'
                f'def stackBatchMatrixAxisToFront : Bool := {front}\n'
                f'def stackBatchOutShape (full : List Nat) : List Nat := full.drop {int(m.group(1))}\n'
                'def stackBatchOut {α : Type} (full : List Nat) (rflat : Nat → α) (idx : List Nat) : α := '
                'rflat (ravel (stackBatchOutShape full) idx)')
    g.item('stack.batch', SSRC, stack_fn, stack_batch,
           f'def stackBatchIn {{α : Type}} (k : Nat) (bs : List Nat) (a : Nat → List Nat → α) (b j : Nat) : α := {M}.batchIn bs a b j\n'
           'def stackBatchCol {α : Type} (x : Nat → Nat → α) (i b : Nat) : α := x b i\n'
           'def stackBatchLast {α : Type} (x : Nat → Nat → α) (k b : Nat) : α := x b (k - 1)\n'
           'def stackBatchMatrixAxisToFront : Bool := true\n'
           'def stackBatchOutShape (full : List Nat) : List Nat := full.drop 2\n'
           f'def stackBatchOut {{α : Type}} (full : List Nat) (rflat : Nat → α) (idx : List Nat) : α := {M}.batchOut (full.drop 2) rflat idx')

    def lowercased():
        fn = stack_fn()
        for st in fn.body:
            if isinstance(st, ast.Assign) and ast.unparse(st.targets[0]) == 'polarization':
                return True if ast.unparse(st.value) in ('polarization.lower()', 'str.lower(polarization)') else None
        return None      # no normalisation found here: behaviour is checked by the harness ('P' / 'S' inputs)
    g.fact('stackPolarizationLowercased', SSRC, lowercased)

    def angle_buffer():
        """the Snell angles are complex in general (absorbing layers, evanescent gaps) and must not inherit the dtype of the
        caller's stack (integer stacks would truncate them)"""
        fn = stack_fn()
        vals = [st.value for st in ast.walk(fn) if isinstance(st, ast.Assign) and ast.unparse(st.targets[0]) == 'angles']
        if len(vals) != 1 or not isinstance(vals[0], ast.Call):
            return None
        f = ast.unparse(vals[0].func)
        kws = {k.arg: ast.unparse(k.value) for k in vals[0].keywords}
        if f in ('np.empty', 'np.zeros') and kws.get('dtype') in ('config.precision_complex', 'complex', 'np.complex128'):
            return True
        if f in ('np.empty_like', 'np.zeros_like') and kws.get('dtype') in ('config.precision_complex', 'complex', 'np.complex128'):
            return True
        if f in ('np.empty_like', 'np.zeros_like', 'np.empty', 'np.zeros') and \
                kws.get('dtype') in (None, 'config.precision', 'float', 'np.float64', 'indices.dtype', 'thicknesses.dtype', 'stack.dtype'):
            return False
        return None
    g.fact('stackAngleBufferIsComplex', SSRC, angle_buffer)

    def no_inplace_on_inputs():
        """no augmented assignment / element store on the arguments or on the views `indices`, `thicknesses` taken of the
        caller's stack (np.asarray does not copy an ndarray)"""
        fn = stack_fn()
        for st in ast.walk(fn):
            if isinstance(st, ast.AugAssign):
                t = st.target
                base = t.id if isinstance(t, ast.Name) else (t.value.id if isinstance(t, ast.Subscript) and isinstance(t.value, ast.Name) else None)
                if base in ('indices', 'thicknesses', 'stack'):
                    return False
            if isinstance(st, ast.Assign):
                for t in st.targets:
                    if isinstance(t, ast.Subscript) and isinstance(t.value, ast.Name) and t.value.id in ('indices', 'thicknesses', 'stack'):
                        return False
            if isinstance(st, ast.Call) and isinstance(st.func, ast.Attribute) and isinstance(st.func.value, ast.Name) \
                    and st.func.value.id in ('indices', 'thicknesses', 'stack') and st.func.attr in ('sort', 'fill', 'resize', 'itemset', 'put'):
                return False
        return True
    g.fact('stackNoInPlaceOnCallerData', SSRC, no_inplace_on_inputs)

    def module_pure():
        """no function of thinfilm.py applies an in-place operator, an element / slice store, a mutating method or `out=` to a name
        that DEFINITELY may alias the caller's data.  A name definitely-may-alias when it is a parameter whose every re-binding (if any)
        is a view expression of a definitely-aliasing name (np.asarray(x), x.reshape, moveaxis, x[...], x.T ...), or a local ALL of whose
        assignments are such view expressions.  False = in-place on such a name (mutates the caller's array for ndarray input).
        In-place on a name that has SOME fresh (copying / arithmetic) binding, e.g. `theta = np.radians(theta); theta *= k`, is not
        decidable without flow analysis: the fact is then untranslatable (None), never False."""
        MUT = ('sort', 'fill', 'resize', 'itemset', 'put', 'partition', 'byteswap', 'setfield')
        VIEWFN = ('np.asarray', 'np.asanyarray', 'np.moveaxis', 'np.swapaxes', 'np.transpose', 'np.reshape', 'np.ravel', 'np.squeeze',
                  'np.atleast_1d', 'np.atleast_2d', 'np.broadcast_to', 'np.real', 'np.imag', 'np.expand_dims')
        undecided = False
        for fn in [n for n in ast.walk(tf) if isinstance(n, ast.FunctionDef)]:
            params = {a.arg for a in fn.args.args + fn.args.kwonlyargs}
            if fn.args.vararg:
                params.add(fn.args.vararg.arg)

            def base(e):
                """the name an expression is a (possible) view of, None when it is certainly fresh or not understood"""
                while isinstance(e, (ast.Subscript, ast.Attribute)):
                    if isinstance(e, ast.Attribute) and e.attr not in ('T', 'real', 'imag', 'flat'):
                        return None
                    e = e.value
                if isinstance(e, ast.Call):
                    f = ast.unparse(e.func)
                    if f in VIEWFN and e.args:
                        return base(e.args[0])
                    if isinstance(e.func, ast.Attribute) and e.func.attr in ('reshape', 'view', 'ravel', 'squeeze', 'transpose', 'swapaxes'):
                        return base(e.func.value)
                    return None
                return e.id if isinstance(e, ast.Name) else None

            def target_base(t):
                while isinstance(t, (ast.Subscript, ast.Attribute)):
                    t = t.value
                return t.id if isinstance(t, ast.Name) else None
            binds = {}          # name -> list of value nodes (None for a binding the analysis cannot read: for / with / tuple targets ...)
            for st in ast.walk(fn):
                if isinstance(st, ast.Assign):
                    for t in st.targets:
                        if isinstance(t, ast.Name):
                            binds.setdefault(t.id, []).append(st.value)
                        elif isinstance(t, (ast.Tuple, ast.List)):
                            for e in t.elts:
                                if isinstance(e, ast.Name):
                                    binds.setdefault(e.id, []).append(None)
                elif isinstance(st, (ast.For, ast.comprehension)):
                    for nm in [n.id for n in ast.walk(st.target) if isinstance(n, ast.Name)]:
                        binds.setdefault(nm, []).append(None)
                elif isinstance(st, ast.AnnAssign) and isinstance(st.target, ast.Name):
                    binds.setdefault(st.target.id, []).append(st.value)
            definite = {p_ for p_ in params if p_ not in binds}
            maybe = set(params)                       # may alias on SOME path
            for _ in range(6):
                for nm, vals in binds.items():
                    bs = [base(v) if v is not None else None for v in vals]
                    if all(b is not None and (b in definite or b == nm) for b in bs) and (nm in params or any(b != nm for b in bs)):
                        definite.add(nm)
                    if nm in params or any(b is not None and b in maybe for b in bs):
                        maybe.add(nm)
            hits = []
            for st in ast.walk(fn):
                if isinstance(st, ast.AugAssign):
                    hits.append(target_base(st.target))
                if isinstance(st, ast.Assign):
                    for t in st.targets:
                        for tt in (t.elts if isinstance(t, (ast.Tuple, ast.List)) else [t]):
                            if isinstance(tt, ast.Subscript):
                                hits.append(target_base(tt))
                if isinstance(st, ast.Call) and isinstance(st.func, ast.Attribute) and st.func.attr in MUT:
                    hits.append(target_base(st.func.value))
                if isinstance(st, ast.Call):
                    hits += [target_base(k.value) for k in st.keywords if k.arg == 'out']
            for h in hits:
                if h in definite:
                    return False
                if h in maybe:
                    undecided = True
        return None if undecided else True
    g.fact('thinfilmNoInPlaceOnParameters', 'prysm/thinfilm.py:(whole module)', module_pure)

    return g.finish()


if __name__ == '__main__':
    import sys
    text, items = generate(sys.argv[1] if len(sys.argv) > 1 else '/repo')
    print(text)
    for it in items:
        print('--', it)
