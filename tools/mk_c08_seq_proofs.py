# generates the section-5 proofs of Props/C08.lean (one shape, eight functions)
def proof(name, gdef, binders, args, ev, rec_eval, rec, pre, steps, lo, inv, stepfacts, vtac, doc, three=False, simp_extra='', steppre=(), also_two=False):
    if also_two:
        a = proof(name, gdef, binders, args, ev, rec_eval, rec, pre, steps, lo, inv, stepfacts, vtac, doc, True, simp_extra, steppre)
        b = proof(name, gdef, binders, args, ev, rec_eval, rec, pre, steps, lo, inv, stepfacts, vtac, doc, False, simp_extra, steppre)
        alt = b[b.index('  | (\n      unfold'):]
        return a + '\n' + alt
    T = 'Rows K × Nat × Nat' if three else 'Rows K × Nat'
    stepL = 'RInv_step3' if three else 'RInv_step'
    accs = ' '.join(f'{gdef}_st_{a}' for a in ['out', 'min_i'] + [a for a, _ in inv])
    L = []
    L.append(f'/-- the statement-by-statement translation of `{doc}` (running index, conditional row writes, early returns, loop) returns\n    `ns.map` of the model\'s single-order value for EVERY non-empty strictly ascending `ns` -/')
    L.append(f'theorem {name} (ns : List Nat) (hne : ns ≠ []) (hpw : ns.Pairwise (· < ·)) {binders} :')
    L.append(f'    Generated.C08.{gdef} ns {args} = some (ns.map fun n => {ev}) := by')
    L.append('  first')
    L.append(f'  | (show Model.C08.sweep _ _ = _; rw [C08L.sweep_eq_map _ ns hne hpw]; congr 1; apply List.map_congr_left; intro n _; simpa using {rec_eval})')
    L.append('  | (')
    I = '      '
    L.append(I + f'unfold Generated.C08.{gdef}')
    L.append(I + f'simp only [ofInt_eq, ofFrac_eq, Int.cast_one, Int.cast_zero, Int.cast_ofNat, Nat.cast_ofNat{simp_extra}]')
    L.append(I + f'set ev : Nat → K := fun n => {ev} with hev')
    for p in pre:
        L.append(I + p)
    L.append(I + 'have h := RInv_zero ns ev')
    kprev = '0'
    for idx, (i, tac) in enumerate(steps):
        L.append(I + f'generalize hst : (ite (ns[{kprev}]? = some {i}) _ _ : {T}) = st')
        if three:
            L.append(I + f'have h : RInv ns ev ({i}+1) st.1 st.2.1 ∧ st.2.2 = st.2.1 := by rw [← hst]; exact {stepL} ns hpw ev {i} _ _ _ (by {tac}) h')
            L.append(I + f'obtain ⟨out{idx}, j{idx}, k{idx}⟩ := st')
            L.append(I + 'simp only [] at h ⊢')
            L.append(I + 'obtain ⟨h, rfl⟩ := h')
            kprev = f'k{idx}'
            L.append(I + 'split')
            L.append(I + f'· exact RInv_done ns ev ({i}+1) out{idx} k{idx} h ‹_›')
        else:
            L.append(I + f'have h : RInv ns ev ({i}+1) st.1 st.2 := by rw [← hst]; exact {stepL} ns hpw ev {i} _ _ _ (by {tac}) h')
            L.append(I + f'obtain ⟨out{idx}, k{idx}⟩ := st')
            L.append(I + 'simp only [] at h ⊢')
            kprev = f'k{idx}'
            L.append(I + 'split')
            L.append(I + f'· exact RInv_done ns ev ({i}+1) out{idx} k{idx} h ‹_›')
    invs = ' ∧ '.join(f'{gdef}_st_{a} s = {rhs}' for a, rhs in inv)
    extra = f' ∧ {gdef}_st_min_i s = {gdef}_st_j s' if three else ''
    L.append(I + f'refine RInv_finish ns ev ({lo} + ((lastOrder ns + 1) - {lo}).toNat) _ _ (forRange_induct\'')
    kacc = f'{gdef}_st_j' if three else f'{gdef}_st_min_i'
    L.append(I + f'  (fun m s => RInv ns ev ({lo} + m) ({gdef}_st_out s) ({kacc} s){extra} ∧ {invs})')
    L.append(I + f'  {lo} (lastOrder ns + 1) _ _ ?_ ?_).1 ?_')
    init = ', '.join(['h'] + (['rfl'] if three else []) + [f'by {t}' for t in stepfacts['init']])
    L.append(I + f'· exact ⟨{init}⟩')
    names = ['hs'] + (['hj'] if three else []) + [f'h{i+1}' for i in range(len(inv))]
    L.append(I + f'· rintro m s ⟨{", ".join(names)}⟩')
    L.append(I + f'  dsimp only [{", ".join(accs.split())}' + (f', {gdef}_st_j' if three else '') + f'] at {" ".join(names)} ⊢')
    L.append(I + f'  have hi : ({lo} + (m:ℤ)).toNat = {lo} + m := by omega')
    L.append(I + '  simp only [hi]')
    for q in steppre:
        L.append(I + '  ' + q)
    if three:
        L.append(I + '  rw [hj] at *')
        L.append(I + f'  refine ⟨(RInv_step3 ns hpw ev ({lo}+m) _ _ _ (by {vtac}) hs).1, (RInv_step3 ns hpw ev ({lo}+m) _ _ _ (by {vtac}) hs).2, {", ".join("?_" for _ in inv)}⟩')
    else:
        L.append(I + f'  refine ⟨RInv_step ns hpw ev ({lo}+m) _ _ _ (by {vtac}) hs, {", ".join("?_" for _ in inv)}⟩')
    for t in stepfacts['step']:
        L.append(I + f'  · {t}')
    L.append(I + '· intro a ha')
    L.append(I + '  have := le_lastOrder ns hpw a ha')
    L.append(I + '  omega)')
    return '\n'.join(L)

out = []
he_v = 'rw [h1, h2]; simp only [hev]; rw [show 3 + m = (m+1) + 2 by omega, hermiteHe_succ_succ (m+1)]; push_cast; ring'
out.append(proof('gen_hermiteHeSeq', 'hermiteHeSeq', '(x : K)', 'x', 'hermiteHe n x', 'heRec_eval x n', 'heRec',
    ['have P2 : x * x - 1 = ev 2 := by simp [hev, hermiteHe_succ_succ, hermiteHe_one, hermiteHe_zero]'],
    [(0, 'simp [hev, hermiteHe_zero]'), (1, 'simp [hev, hermiteHe_one]'), (2, 'exact P2')], 3,
    [('Pnm2', 'ev (m+1)'), ('Pnm1', 'ev (m+2)')],
    {'init': ['simp [hev, hermiteHe_one]', 'exact P2'],
     'step': ['exact h2', 'rw [h1, h2]; simp only [hev]; rw [hermiteHe_succ_succ (m+1)]; push_cast; ring']},
    he_v, 'hermite_He_seq'))
h_v = 'rw [h1, h2]; simp only [hev]; rw [show 3 + m = (m+1) + 2 by omega, hermiteH_succ_succ (m+1)]; push_cast; ring'
out.append(proof('gen_hermiteHSeq', 'hermiteHSeq', '(x : K)', 'x', 'hermiteH n x', 'hRec_eval x n', 'hRec',
    ['have P2 : 4 * (x * x) - 2 = ev 2 := by simp [hev, hermiteH_succ_succ, hermiteH_one, hermiteH_zero]; ring'],
    [(0, 'simp [hev, hermiteH_zero]'), (1, 'simp [hev, hermiteH_one]'), (2, 'exact P2')], 3,
    [('Pnm2', 'ev (m+1)'), ('Pnm1', 'ev (m+2)')],
    {'init': ['simp [hev, hermiteH_one]', 'exact P2'],
     'step': ['exact h2', 'rw [h1, h2]; simp only [hev]; rw [hermiteH_succ_succ (m+1)]; push_cast; ring']},
    h_v, 'hermite_H_seq'))
out.append(proof('gen_hermiteHeDerSeq', 'hermiteHeDerSeq', '(x : K)', 'x', 'hermiteHeDer n x', 'heDerRec_eval x n', 'heDerRec',
    ['have ev_succ : ∀ k, ev (k+1) = ((k:K) + 1) * hermiteHe k x := by intro k; simp [hev, hermiteHeDer]',
     'have P2 : x * x - 1 = hermiteHe 2 x := by simp [hermiteHe_succ_succ, hermiteHe_one, hermiteHe_zero]'],
    [(0, 'simp [hev, hermiteHeDer]'), (1, 'rw [ev_succ]; simp [hermiteHe_zero]'), (2, 'rw [ev_succ, hermiteHe_one]; push_cast; ring')], 3,
    [('Pnm2', 'hermiteHe (m+1) x'), ('Pnm1', 'hermiteHe (m+2) x')],
    {'init': ['simp [hermiteHe_one]', 'exact P2'],
     'step': ['exact h2', 'rw [h1, h2, hermiteHe_succ_succ (m+1)]; push_cast; ring']},
    'rw [show 3 + m = (m+2) + 1 by omega, ev_succ, h2]; push_cast; ring', 'hermite_He_der_seq'))
out.append(proof('gen_hermiteHDerSeq', 'hermiteHDerSeq', '(x : K)', 'x', 'hermiteHDer n x', 'hDerRec_eval x n', 'hDerRec',
    ['have ev_succ : ∀ k, ev (k+1) = 2 * ((k:K) + 1) * hermiteH k x := by intro k; simp [hev, hermiteHDer]',
     'have P2 : 4 * (x * x) - 2 = hermiteH 2 x := by simp [hermiteH_succ_succ, hermiteH_one, hermiteH_zero]; ring'],
    [(0, 'simp [hev, hermiteHDer]'), (1, 'rw [ev_succ]; simp [hermiteH_zero]'), (2, 'rw [ev_succ, hermiteH_one]; push_cast; ring')], 3,
    [('Pnm2', 'hermiteH (m+1) x'), ('Pnm1', 'hermiteH (m+2) x')],
    {'init': ['simp [hermiteH_one]', 'exact P2'],
     'step': ['exact h2', 'rw [h1, h2, hermiteH_succ_succ (m+1)]; push_cast; ring']},
    'rw [show 3 + m = (m+2) + 1 by omega, ev_succ, h2]; push_cast; ring', 'hermite_H_der_seq'))
lag_v = 'rw [h1, h2]; simp only [hev]; rw [show 3 + m = (m+1) + 2 by omega, laguerre_succ_succ (m+1)]; push_cast; ring'
out.append(proof('gen_laguerreSeq', 'laguerreSeq', '(al x : K)', 'al x', 'laguerre n al x', 'lagRec_eval al x n', 'lagRec',
    ['have P2 : (1:K) / 2 * ((al + 3 - x) * (al + 1 - x) - (al + 1) * 1) = ev 2 := by\n        simp only [hev]; rw [laguerre_succ_succ, laguerre_one, laguerre_zero]; simp; ring'],
    [(0, 'simp [hev, laguerre_zero]'), (1, 'simp [hev, laguerre_one]'), (2, 'exact P2')], 3,
    [('Ln', 'ev (m+2)'), ('Lnm1', 'ev (m+1)')],
    {'init': ['exact P2', 'simp [hev, laguerre_one]'],
     'step': ['rw [h1, h2]; simp only [hev]; rw [laguerre_succ_succ (m+1)]; push_cast; ring', 'exact h1']},
    lag_v, 'laguerre_seq'))
for k, p0 in ((1, '2'), (2, '1')):
    d = f'dickson{k}'
    out.append(proof(f'gen_{d}Seq', f'{d}Seq', '(al x : K)', 'al x', f'{d} n al x', f'dickRec_eval{k} al x n', 'dickRec',
        [], [(0, f'simp [hev, {d}, dickPair]'), (1, f'simp [hev, {d}, dickPair]')], 2,
        [('Pnm1', 'ev (m+1)'), ('Pnm2', 'ev m')],
        {'init': [f'simp [hev, {d}, dickPair]', f'simp [hev, {d}, dickPair]'],
         'step': [f'rw [h1, h2]; simp only [hev, {d}]; rw [dickPair_succ_succ]', 'exact h1']},
        f'rw [h1, h2, show 2 + m = m + 2 by omega]; simp only [hev, {d}]; rw [dickPair_succ_succ]', f'{d}_seq', also_two=True))
jac_v = 'rw [hc, C07L.gen_abc_nat, h1, h2, show 3 + m = (m+1) + 2 by omega]; simp only [hev]; rw [jacobi_succ_succ (m+1)]; simp [jacStep]'
out.append(proof('gen_jacobiSeq', 'jacobiSeq', '(a b x : K)', 'a b x', 'jacobi n a b x', 'jacobiRec_eval a b x n', 'jacobiRec',
    ['have e1 : Generated.C07.abc (1:K) a b = abc 1 a b := by simpa using C07L.gen_abc_nat 0 a b',
     'have P1 : a + 1 + (a + b + 2) * ((x - 1) / 2) = ev 1 := by simp [hev, jacobi_one, jacP1]',
     'have P2 : ((Generated.C07.abc (1:K) a b).1 * x + (Generated.C07.abc (1:K) a b).2.1) * (a + 1 + (a + b + 2) * ((x - 1) / 2))\n          - (Generated.C07.abc (1:K) a b).2.2 = ev 2 := by\n        simp only [hev]; rw [e1, jacobi_succ_succ, jacobi_one, jacobi_zero]; simp [jacStep, jacP1]'],
    [(0, 'simp [hev, jacobi_zero]'), (1, 'exact P1'), (2, 'exact P2')], 3,
    [('Pnm1', 'ev (m+1)'), ('Pn', 'ev (m+2)')],
    {'init': ['exact P1', 'exact P2'],
     'step': ['exact h2', jac_v.replace('show 3 + m = (m+1) + 2 by omega', 'show m + 1 + 2 = (m+1) + 2 from rfl')]},
    jac_v, 'jacobi_seq', steppre=['have hc : (((3 + (m:ℤ) - 1 : ℤ)) : K) = ((m + 1 : ℕ) : K) + 1 := by push_cast; ring']))

# Qbfs_seq (binder order of the generated definition: sqrt before ns; accessor names are written fully qualified in Props/C08.lean)
qv = ('rw [h2, h3, h4, h1]; simp only [hev, qbfs]; rw [show 2 + m = (m+1) + 1 by omega, C07L.qbfsPQ_step sqrt (x*x) (m+1)]; '
      'simp only [C07L.qbfsPQ_step sqrt (x*x) m, eg, eh, ef, pow_two, nat_eq, Nat.cast_one]')
out.append(proof('gen_qbfsSeq', 'qbfsSeq', '(sqrt : K → K) (x : K)', 'x', 'qbfs sqrt n x', 'qbfsRec_eval sqrt x n', 'qbfsRec',
    ['have E0 : x ^ 2 * (1 - x ^ 2) = ev 0 := by simp [hev, qbfs, qbfsPQ, pow_two]',
     'have E1 : 1 / sqrt 19 * (13 - 16 * x ^ 2) * (x ^ 2 * (1 - x ^ 2)) = ev 1 := by simp [hev, qbfs, qbfsPQ, C07L.qbfsPQ_step, pow_two]'],
    [(0, 'exact E0'), (1, 'exact E1')], 2,
    [('Pnm2', '(qbfsPQ sqrt (x*x) m).1'), ('Pnm1', '(qbfsPQ sqrt (x*x) m).2.1'), ('Qnm2', '(qbfsPQ sqrt (x*x) m).2.2.1'), ('Qnm1', '(qbfsPQ sqrt (x*x) m).2.2.2')],
    {'init': ['simp [qbfsPQ]', 'simp [qbfsPQ, pow_two]', 'simp [qbfsPQ]', 'simp [qbfsPQ, pow_two]'],
     'step': ['rw [h2, C07L.qbfsPQ_step]', 'rw [h1, h2, C07L.qbfsPQ_step]; simp only [pow_two]', 'rw [h4, C07L.qbfsPQ_step]',
              'rw [h1, h2, h3, h4, C07L.qbfsPQ_step]; simp only [eg, eh, ef, pow_two]']},
    qv, 'Qbfs_seq', simp_extra=', npow_eq',
    steppre=['have eg : qbfsGi sqrt (2 + (m:ℤ) - 1) = qbfsG sqrt (m+1) := by simp only [qbfsGi]; congr 1; omega',
             'have eh : qbfsHi sqrt (2 + (m:ℤ) - 2) = qbfsH m (qbfsF sqrt m) := by\n          have : (2 + (m:ℤ) - 2).toNat = m := by omega\n          simp only [qbfsHi, this]',
             'have ef : qbfsFi sqrt (2 + (m:ℤ)) = qbfsF sqrt (m+2) := by simp only [qbfsFi]; congr 1; omega']
    ).replace('Generated.C08.qbfsSeq ns x', 'Generated.C08.qbfsSeq sqrt ns x'))
open('seq_section.txt', 'w').write('\n\n'.join(out) + '\n')
