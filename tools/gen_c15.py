"""translator items for C15 (image formation): prysm/convolution.py (conv, apply_transfer_functions),
prysm/otf.py (transform_psf, mtf/ptf/otf_from_psf), the analytic transfer functions of
prysm/degredations.py and prysm/detector.py.

The array pipelines are translated into Lean terms over the abstract operation signature
`Model.C15.FOps` (fft2 / ifft2 / fftshift / ifftshift / * / .real / abs / angle / a / a[idx]); the theorems
of Props/C15.lean interpret that signature by the mathematical DFT, so dropping a shift, conjugating
a factor or taking the reference sample elsewhere changes the term the kernel re-checks.
"""
import ast
import os
from pyexpr2lean import (Gen, Tr, Untranslatable, load, get_def, find_assign, find_assigns, find_returns,
                         find_calls, call_arg, body_to_lean)

M = 'Model.C15'
_UNARY = {'fft.fft2': 'fft2', 'fft.ifft2': 'ifft2', 'fft.fftshift': 'fftshift', 'fft.ifftshift': 'ifftshift',
          'abs': 'abs', 'np.abs': 'abs', 'np.angle': 'angle'}


def arr_expr(e, env):
    """array-valued Python expression -> Lean term over `P : FOps A I`"""
    if isinstance(e, ast.Name):
        if e.id in env:
            return env[e.id]
        raise Untranslatable(f'free array name {e.id}')
    if isinstance(e, ast.Call):
        f = ast.unparse(e.func)
        if f in _UNARY and len(e.args) == 1 and not e.keywords:
            return f'(P.{_UNARY[f]} {arr_expr(e.args[0], env)})'
        raise Untranslatable(f'array call {ast.unparse(e)[:60]}')
    if isinstance(e, ast.BinOp) and isinstance(e.op, ast.Mult):
        return f'(P.mul {arr_expr(e.left, env)} {arr_expr(e.right, env)})'
    if isinstance(e, ast.Attribute) and e.attr == 'real':
        return f'(P.real {arr_expr(e.value, env)})'
    raise Untranslatable(f'array expression {ast.unparse(e)[:60]}')


def arr_expr_env(e, textenv):
    """arr_expr with an environment keyed by source text (e.g. 'psf.data')"""
    key = ast.unparse(e)
    if key in textenv:
        return textenv[key]
    if isinstance(e, ast.Call):
        f = ast.unparse(e.func)
        if f in _UNARY and len(e.args) == 1 and not e.keywords:
            return f'(P.{_UNARY[f]} {arr_expr_env(e.args[0], textenv)})'
    if isinstance(e, ast.Attribute) and e.attr == 'real':
        return f'(P.real {arr_expr_env(e.value, textenv)})'
    raise Untranslatable(f'array expression {key[:60]}')


class _Subst(ast.NodeTransformer):
    def __init__(self, mapping):
        self.mapping = mapping

    def visit_Name(self, node):
        if node.id in self.mapping:
            return ast.copy_location(ast.parse(self.mapping[node.id], mode='eval').body, node)
        return node


def inline_helpers(stmts, mod, skip=()):
    """statement list with every `targets = helper(args)` replaced by the body of `helper`, when `helper` is a function of
    the same module whose body is straight-line (assignments to names, one final return).  Parameters are replaced by the
    argument expressions, locals are renamed; `X = E; return X` collapses to `targets = E`."""
    defs = {n.name: n for n in mod.body if isinstance(n, ast.FunctionDef)}
    out = []
    used = {n.id for st in stmts for n in ast.walk(st) if isinstance(n, ast.Name)}
    for st in stmts:
        v = st.value if isinstance(st, ast.Assign) else None
        if not (isinstance(v, ast.Call) and isinstance(v.func, ast.Name) and v.func.id in defs and v.func.id not in skip
                and not v.keywords):
            emb = _inline_embedded(st, defs, skip, used)
            out += emb if emb is not None else [st]
            continue
        h = defs[v.func.id]
        body = [b for b in h.body if not _is_doc(b)]
        params = [a.arg for a in h.args.args]
        if len(params) != len(v.args) or h.args.vararg or h.args.kwarg or h.args.kwonlyargs or not body \
                or not isinstance(body[-1], ast.Return) or body[-1].value is None \
                or not all(isinstance(b, ast.Assign) and len(b.targets) == 1 for b in body[:-1]):
            out.append(st)
            continue
        mapping = {p_: '(' + ast.unparse(a) + ')' for p_, a in zip(params, v.args)}
        for b in body[:-1]:
            for n in ast.walk(b.targets[0]):
                if isinstance(n, ast.Name):
                    mapping.setdefault(n.id, f'_{h.name}_{n.id}'.lstrip('_'))
        ren = [ast.fix_missing_locations(_Subst(mapping).visit(ast.parse(ast.unparse(b)).body[0])) for b in body]
        if len(ren) >= 2 and ast.unparse(ren[-2].targets[0]) == ast.unparse(ren[-1].value):
            tail = ast.Assign(targets=st.targets, value=ren[-2].value, lineno=st.lineno)
            new = ren[:-2] + [tail]
        else:
            new = ren[:-1] + [ast.Assign(targets=st.targets, value=ren[-1].value, lineno=st.lineno)]
        out += [ast.fix_missing_locations(ast.parse(ast.unparse(x)).body[0]) for x in new]
    return out


def _inline_embedded(st, defs, skip, used):
    """`x = f(helper(a))` / `x /= helper(a)`: the helper's assignments (parameters replaced by the arguments; locals keep their
    names unless the caller uses them) followed by the statement with the call replaced by the returned expression.  Only for
    same-module helpers whose body is straight-line assignments + one return, called once, positionally."""
    if not isinstance(st, (ast.Assign, ast.AugAssign)):
        return None
    calls = [n for n in ast.walk(st.value) if isinstance(n, ast.Call) and isinstance(n.func, ast.Name) and n.func.id in defs
             and n.func.id not in skip]
    if len(calls) != 1 or calls[0].keywords:
        return None
    call = calls[0]
    h = defs[call.func.id]
    body = [b for b in h.body if not _is_doc(b)]
    params = [a.arg for a in h.args.args]
    if len(params) != len(call.args) or h.args.vararg or h.args.kwarg or h.args.kwonlyargs or h.args.defaults or not body \
            or not isinstance(body[-1], ast.Return) or body[-1].value is None \
            or not all(isinstance(b, ast.Assign) and len(b.targets) == 1 for b in body[:-1]):
        return None
    mapping = {p_: '(' + ast.unparse(a) + ')' for p_, a in zip(params, call.args)}
    for b in body[:-1]:
        for n in ast.walk(b.targets[0]):
            if isinstance(n, ast.Name) and n.id not in mapping:
                if n.id in params:
                    return None                      # the helper re-binds a parameter: leave it alone
                if n.id in used:
                    mapping[n.id] = f'{h.name}_{n.id}'.lstrip('_')
    ren = [ast.fix_missing_locations(_Subst(mapping).visit(ast.parse(ast.unparse(b)).body[0])) for b in body]
    marker = '__INLINED_RETURN__'
    call_src = ast.unparse(call)
    src = ast.unparse(st)
    if src.count(call_src) != 1:
        return None
    new_src = src.replace(call_src, '(' + ast.unparse(ren[-1].value) + ')')
    pre = [ast.fix_missing_locations(ast.parse(ast.unparse(x)).body[0]) for x in ren[:-1]]
    return pre + [ast.fix_missing_locations(ast.parse(new_src).body[0])]


def _is_doc(s):
    return isinstance(s, ast.Expr) and isinstance(s.value, ast.Constant) and isinstance(s.value.value, str)


def arr_body(stmts, env, calls=None, idx=('cy', 'cx')):
    """straight-line array code -> nested lets.  `calls`: local functions returning (array, scalar)
    tuples, name -> Lean function applied to P and the first argument."""
    calls = calls or {}
    env = dict(env)
    lets = []
    k = [0]

    def bind(name, term):
        k[0] += 1
        ln = f'{name}_{k[0]}'
        lets.append(f'let {ln} := {term}')
        env[name] = ln

    for s in stmts:
        if _is_doc(s) or isinstance(s, ast.Pass):
            continue
        if isinstance(s, ast.Assign) and len(s.targets) == 1:
            t = s.targets[0]
            if isinstance(t, ast.Name):
                bind(t.id, arr_expr(s.value, env))
                continue
            if isinstance(t, ast.Tuple) and all(isinstance(x, ast.Name) for x in t.elts):
                names = tuple(x.id for x in t.elts)
                # data, df = transform_psf(psf, dx)
                if isinstance(s.value, ast.Call) and ast.unparse(s.value.func) in calls and len(names) == 2:
                    bind(names[0], f'({calls[ast.unparse(s.value.func)]} P {arr_expr(s.value.args[0], env)})')
                    continue
                # cy, cx = (centre(s) for s in data.shape): the reference index, translated separately
                if names == idx and isinstance(s.value, ast.GeneratorExp):
                    g = s.value.generators[0]
                    src = ast.unparse(g.iter)
                    if not src.endswith('.shape') or src[:-6] not in env or g.ifs:
                        raise Untranslatable(f'reference index taken from {src}')
                    env['__idx__'] = 'c'
                    continue
            raise Untranslatable(f'assignment {ast.unparse(s)[:60]}')
        if isinstance(s, ast.AugAssign) and isinstance(s.op, ast.Div) and isinstance(s.target, ast.Name):
            v = s.value
            ok = (isinstance(v, ast.Subscript) and isinstance(v.value, ast.Name) and v.value.id == s.target.id
                  and ast.unparse(v.slice) in (f'({idx[0]}, {idx[1]})', f'{idx[0]}, {idx[1]}') and env.get('__idx__'))
            if not ok:
                raise Untranslatable(f'normalisation {ast.unparse(s)[:60]}')
            bind(s.target.id, f'(P.divAt {env[s.target.id]} {env["__idx__"]})')
            continue
        if isinstance(s, ast.Return):
            v = s.value
            if isinstance(v, ast.Call) and ast.unparse(v.func) == 'RichData':
                v = call_arg(v, 0, 'data')
            return '\n  '.join(lets + [arr_expr(v, env)])
        raise Untranslatable(f'statement {ast.unparse(s)[:60]}')
    raise Untranslatable('no return')


HDR = '{A I : Type} (P : FOps A I)'


def generate(repo):
    g = Gen('C15', imports=['PrysmVerif.Model.C15'], opens=['Model.C15'])
    if os.environ.get('VERIF_FORCE_FALLBACK'):      # self-test: every item degrades to its hand-model fallback
        _item = g.item

        def _forced():
            raise Untranslatable('forced by VERIF_FORCE_FALLBACK')
        g.item = lambda name, source, node_fn, build, fallback: _item(name, source, node_fn, _forced, fallback)
    cv, _ = load(repo, 'prysm/convolution.py')
    ot, _ = load(repo, 'prysm/otf.py')
    dg, _ = load(repo, 'prysm/degredations.py')
    ob, _ = load(repo, 'prysm/objects.py')
    dt, _ = load(repo, 'prysm/detector.py')
    ft, _ = load(repo, 'prysm/fttools.py')

    # ------------------------------------------------------------------ conv
    def conv():
        fn = get_def(cv, 'conv')
        args = [a.arg for a in fn.args.args]
        assert args == ['obj', 'psf']
        return f'def conv {HDR} (obj psf : A) : A :=\n  ' + arr_body(fn.body, {'obj': 'obj', 'psf': 'psf'})
    g.item('conv', 'prysm/convolution.py:conv', lambda: get_def(cv, 'conv'), conv,
           f'def conv {HDR} (obj psf : A) : A := {M}.conv P obj psf')

    # ------------------------------------------------------------------ apply_transfer_functions
    GRIDS = ('fx', 'fy', 'fr', 'ft')

    def atf_scan():
        """classify EVERY statement of the function; anything not recognised makes the item untranslatable.
        -> dict(pre, step, post, gridblock, callbranch)"""
        fn = get_def(cv, 'apply_transfer_functions')
        body = [s for s in fn.body if not _is_doc(s)]
        env = {'obj': 'obj'}
        out = {'pre': None, 'step': None, 'post': None, 'gridblock': None, 'callbranch': None, 'tables': {}}
        k = 0

        def tables(k):
            """literal (keyword, grid) tables `T = (('fx', fx), ...)` / `T = {'fx': fx, ...}` hoisted out of the loop.  They are
            only accepted AFTER the block that builds the grids (a table made before it would capture the callers' None's)"""
            while k < len(body) and isinstance(body[k], ast.Assign) and len(body[k].targets) == 1 and isinstance(body[k].targets[0], ast.Name):
                t = _pair_table(body[k].value)
                if t is None or body[k].targets[0].id in ('o', 'O', 'obj', 'tfs', 'shift', 'dx') + GRIDS:
                    break
                out['tables'][body[k].targets[0].id] = t
                k += 1
            return k
        # [1] optional block that builds the grids for callables
        if k < len(body) and isinstance(body[k], ast.If) and ast.unparse(body[k].test) == 'any((callable(tf) for tf in tfs))' \
                and not body[k].orelse:
            out['gridblock'] = body[k].body
            k += 1
        k = tables(k)
        # [2] aliases of the object
        while k < len(body) and isinstance(body[k], ast.Assign) and ast.unparse(body[k].targets[0]) == 'o':
            env['o'] = arr_expr(body[k].value, env)
            k += 1
        k = tables(k)
        # [3] spectrum in the chosen convention
        s = body[k] if k < len(body) else None
        if not (isinstance(s, ast.If) and ast.unparse(s.test) == 'shift' and len(s.body) == 1 and len(s.orelse) == 1
                and all(isinstance(b, ast.Assign) and ast.unparse(b.targets[0]) == 'O' for b in (s.body[0], s.orelse[0]))):
            raise Untranslatable(f'expected `if shift: O = ... else: O = ...`, found {ast.unparse(s)[:60] if s else "nothing"}')
        out['pre'] = (arr_expr(s.body[0].value, env), arr_expr(s.orelse[0].value, env))
        k += 1
        k = tables(k)
        # [4] the loop over the transfer functions
        loop = body[k] if k < len(body) else None
        if not (isinstance(loop, ast.For) and ast.unparse(loop.target) == 'tf' and ast.unparse(loop.iter) == 'tfs' and not loop.orelse):
            raise Untranslatable(f'expected `for tf in tfs:`, found {ast.unparse(loop)[:60] if loop else "nothing"}')
        k += 1
        lb = list(loop.body)
        if lb and isinstance(lb[0], ast.If) and ast.unparse(lb[0].test) == 'callable(tf)' and not lb[0].orelse:
            out['callbranch'] = lb[0].body
            lb = lb[1:]
        if not (len(lb) == 1 and isinstance(lb[0], ast.Assign) and ast.unparse(lb[0].targets[0]) == 'O'):
            raise Untranslatable(f'loop body: {[ast.unparse(x)[:40] for x in lb]}')
        out['step'] = arr_expr(lb[0].value, {'O': 'O', 'tf': 'tf'})
        # [5] the way back: `if shift: return X` then straight-line code ending in a return
        post = body[k:]
        if not (len(post) >= 2 and isinstance(post[0], ast.If) and ast.unparse(post[0].test) == 'shift'
                and len(post[0].body) == 1 and isinstance(post[0].body[0], ast.Return)):
            raise Untranslatable('return structure')
        if post[0].orelse:
            if len(post) != 1:
                raise Untranslatable('return structure')
            p0 = arr_body(post[0].orelse, {'O': 'O'})
        else:
            p0 = arr_body(post[1:], {'O': 'O'})
        out['post'] = (arr_expr(post[0].body[0].value, {'O': 'O'}), p0)
        return out

    def _pair_table(v):
        """{keyword: grid variable} of a literal table of pairs / dict literal, else None"""
        if isinstance(v, ast.Dict) and v.keys and all(isinstance(kk, ast.Constant) and isinstance(kk.value, str) and isinstance(vv, ast.Name)
                                                      for kk, vv in zip(v.keys, v.values)):
            return {kk.value: vv.id for kk, vv in zip(v.keys, v.values)}
        if isinstance(v, (ast.Tuple, ast.List)) and v.elts and all(
                isinstance(e, (ast.Tuple, ast.List)) and len(e.elts) == 2 and isinstance(e.elts[0], ast.Constant)
                and isinstance(e.elts[0].value, str) and isinstance(e.elts[1], ast.Name) for e in v.elts):
            keys = [e.elts[0].value for e in v.elts]
            if len(set(keys)) != len(keys):
                return None
            return {e.elts[0].value: e.elts[1].id for e in v.elts}
        return None

    def call_branch_pairs(stmts, hoisted=None):
        """the `if callable(tf):` branch.  Every statement must be one of the known ones; `tf = tf(**kwargs)` is required
        verbatim (the value a callable returns is used as is).  -> [(keyword, grid variable)]"""
        pairs, dicts = {}, dict(hoisted or {})
        seen_call = False
        for st in stmts:
            src = ast.unparse(st)
            if src in ('sig = inspect.signature(tf)', 'params = sig.parameters', 'params = inspect.signature(tf).parameters', 'kwargs = {}'):
                continue
            if isinstance(st, ast.If) and isinstance(st.test, ast.Compare) and len(st.test.ops) == 1 \
                    and isinstance(st.test.ops[0], ast.In) and ast.unparse(st.test.comparators[0]) == 'params' \
                    and isinstance(st.test.left, ast.Constant) and len(st.body) == 1 and not st.orelse:
                key = st.test.left.value
                b = st.body[0]
                if not (isinstance(b, ast.Assign) and ast.unparse(b.targets[0]) == f"kwargs['{key}']" and isinstance(b.value, ast.Name)):
                    raise Untranslatable(f'keyword wiring {ast.unparse(b)[:50]}')
                pairs[key] = b.value.id
                continue
            if isinstance(st, ast.Assign) and isinstance(st.targets[0], ast.Name) and st.targets[0].id not in ('kwargs', 'params', 'sig', 'tf') \
                    and _pair_table(st.value) is not None:
                dicts[st.targets[0].id] = _pair_table(st.value)
                continue
            if isinstance(st, ast.Assign) and ast.unparse(st.targets[0]) == 'kwargs' and isinstance(st.value, ast.DictComp):
                dc = st.value
                gen = dc.generators[0]
                d = ast.unparse(dc.value)[:-len(f'[{ast.unparse(dc.key)}]')]
                ok = len(dc.generators) == 1 and ast.unparse(gen.iter) == 'params' and d in dicts \
                    and ast.unparse(dc.value) == f'{d}[{ast.unparse(dc.key)}]' and isinstance(gen.target, ast.Name) \
                    and gen.target.id == ast.unparse(dc.key) and [ast.unparse(c) for c in gen.ifs] == [f'{gen.target.id} in {d}']
                if not ok:
                    # {name: grid for name, grid in D.items() if name in params}
                    it = ast.unparse(gen.iter)
                    # D.items() of a dict table, or a table of pairs iterated directly
                    d = it[:-len('.items()')] if it.endswith('.items()') else (it if it in dicts else None)
                    ok = len(dc.generators) == 1 and d in dicts and isinstance(gen.target, ast.Tuple) and len(gen.target.elts) == 2 \
                        and all(isinstance(t, ast.Name) for t in gen.target.elts) and ast.unparse(dc.key) == gen.target.elts[0].id \
                        and ast.unparse(dc.value) == gen.target.elts[1].id \
                        and [ast.unparse(c) for c in gen.ifs] == [f'{gen.target.elts[0].id} in params']
                if not ok:
                    raise Untranslatable(f'keyword wiring {src[:60]}')
                pairs.update(dicts[d])
                continue
            if src == 'tf = tf(**kwargs)':
                seen_call = True
                continue
            raise Untranslatable(f'statement in the callable branch: {src[:60]}')
        if not seen_call:
            raise Untranslatable('`tf = tf(**kwargs)` not found in the callable branch')
        if not pairs:
            raise Untranslatable('no keyword wiring found')
        if not all(v in GRIDS for v in pairs.values()) or not all(kk in GRIDS for kk in pairs):
            raise Untranslatable(f'keyword wiring through other names: {pairs}')
        return sorted(pairs.items())

    def atf():
        sc = atf_scan()
        if sc['callbranch'] is None:
            raise Untranslatable('no `if callable(tf):` branch')
        call_branch_pairs(sc['callbranch'], sc['tables'])       # every statement of the branch is a known one
        pre, step, post = sc['pre'], sc['step'], sc['post']
        return (f'def tfPre {HDR} (shift : Bool) (obj : A) : A :=\n  if shift then {pre[0]} else {pre[1]}\n\n'
                f'def tfStep {HDR} (O tf : A) : A := {step}\n\n'
                f'def tfPost {HDR} (shift : Bool) (O : A) : A :=\n  if shift then {post[0]} else\n  {post[1]}\n\n'
                f'def applyTF {HDR} (shift : Bool) (obj : A) (tfs : List A) : A :=\n'
                f'  tfPost P shift (tfs.foldl (tfStep P) (tfPre P shift obj))')
    g.item('apply_transfer_functions', 'prysm/convolution.py:apply_transfer_functions',
           lambda: get_def(cv, 'apply_transfer_functions'), atf,
           f'def tfPre {HDR} (shift : Bool) (obj : A) : A := {M}.tfPre P shift obj\n'
           f'def tfStep {HDR} (O tf : A) : A := {M}.tfStep P O tf\n'
           f'def tfPost {HDR} (shift : Bool) (O : A) : A := {M}.tfPost P shift O\n'
           f'def applyTF {HDR} (shift : Bool) (obj : A) (tfs : List A) : A := {M}.applyTF P shift obj tfs')

    # ---- frequency grids handed to callables: forward_ft_unit (fttools.py) translated to an index function of the
    # frequency numerators, and the call site (which axis length, which `shift`) translated on top of it
    def vec_expr(e, env):
        """1-D frequency-vector expression -> Lean term of type Nat -> Int (numerators n*dx*f), for axis length `len`"""
        if isinstance(e, ast.Name) and e.id in env:
            return env[e.id]
        if isinstance(e, ast.Call):
            f = ast.unparse(e.func)
            if f in ('fftfreq', 'fft.fftfreq') and [ast.unparse(a) for a in e.args] == ['samples', 'dx'] and not e.keywords:
                return f'({M}.fftfreqNum len)'
            if f == 'fft.fftshift' and len(e.args) == 1 and not e.keywords:
                return f'(fun i => {vec_expr(e.args[0], env)} ({M}.fftshiftSrc len i))'
            if f == 'fft.ifftshift' and len(e.args) == 1 and not e.keywords:
                return f'(fun i => {vec_expr(e.args[0], env)} ({M}.ifftshiftSrc len i))'
        raise Untranslatable(f'frequency vector expression {ast.unparse(e)[:60]}')

    def ft_unit():
        fu = get_def(ft, 'forward_ft_unit')
        params = [a.arg for a in fu.args.args]
        if params != ['dx', 'samples', 'shift'] or [ast.unparse(d) for d in fu.args.defaults] != ['True']:
            raise Untranslatable(f'forward_ft_unit signature {params}')
        env = {}
        body = [s for s in fu.body if not _is_doc(s)]
        k = 0
        while k < len(body) and isinstance(body[k], ast.Assign) and isinstance(body[k].targets[0], ast.Name):
            env[body[k].targets[0].id] = vec_expr(body[k].value, env)
            k += 1
        s = body[k] if k < len(body) else None
        if isinstance(s, ast.If) and ast.unparse(s.test) == 'shift' and len(s.body) == 1 and isinstance(s.body[0], ast.Return):
            els = s.orelse if s.orelse else body[k + 1:]
            if len(els) == 1 and isinstance(els[0], ast.Return) and (s.orelse or k + 2 == len(body)):
                return (f'def ftUnitNum (len : Nat) (shift : Bool) : Nat → Int :=\n'
                        f'  if shift then {vec_expr(s.body[0].value, env)} else {vec_expr(els[0].value, env)}')
        raise Untranslatable('forward_ft_unit body')
    g.item('forward_ft_unit', 'prysm/fttools.py:forward_ft_unit', lambda: get_def(ft, 'forward_ft_unit'), ft_unit,
           f'def ftUnitNum (len : Nat) (shift : Bool) : Nat → Int := {M}.ftUnitNum len shift')

    def grid_calls(block):
        """[(target name, axis, call node)] of the forward_ft_unit calls that build the grids"""
        out = []
        axis = {'obj.shape[0]': 'm', 'obj.shape[1]': 'n'}
        inner = None
        rest = []
        for st in block:
            if isinstance(st, ast.If) and ast.unparse(st.test) == 'fx is None' and not st.orelse and inner is None:
                inner = st.body
            else:
                rest.append(st)
        if inner is None:
            raise Untranslatable('`if fx is None:` not found')
        for n in inner:
            if not isinstance(n, ast.Assign):
                raise Untranslatable(f'statement in the grid block: {ast.unparse(n)[:50]}')
            t, v = n.targets[0], n.value
            if isinstance(t, ast.Tuple) and isinstance(v, ast.ListComp) and isinstance(v.elt, ast.Call) \
                    and ast.unparse(v.elt.func) == 'forward_ft_unit' and len(v.generators) == 1 \
                    and ast.unparse(v.generators[0].iter) == 'obj.shape' and len(t.elts) == 2 and not v.generators[0].ifs:
                var = v.generators[0].target.id
                samples = call_arg(v.elt, 1, 'samples')
                if samples is None or ast.unparse(samples) != var:
                    raise Untranslatable('forward_ft_unit is not called with the axis length')
                out += [(t.elts[0].id, 'm', v.elt), (t.elts[1].id, 'n', v.elt)]
            elif isinstance(t, ast.Name) and isinstance(v, ast.Call) and ast.unparse(v.func) == 'forward_ft_unit':
                samples = call_arg(v, 1, 'samples')
                ax = axis.get(ast.unparse(samples)) if samples is not None else None
                if ax is None:
                    raise Untranslatable('axis length handed to forward_ft_unit')
                out.append((t.id, ax, v))
            else:
                raise Untranslatable(f'statement in the grid block: {ast.unparse(n)[:50]}')
        for name, _, call in out:
            d = call_arg(call, 0, 'dx')
            if d is None or ast.unparse(d) != 'dx':
                raise Untranslatable('sample spacing handed to forward_ft_unit')
        if sorted(x[0] for x in out) != ['fx', 'fy']:
            raise Untranslatable(f'frequency grid construction not recognised: {[x[0] for x in out]}')
        return out, rest

    def shift_term(call):
        a = call_arg(call, 2, 'shift')
        if a is None:
            return 'true'                        # forward_ft_unit's default
        if isinstance(a, ast.Name) and a.id == 'shift':
            return 'shift'
        if isinstance(a, ast.Constant) and isinstance(a.value, bool):
            return 'true' if a.value else 'false'
        if ast.unparse(a) == 'not shift':
            return '(!shift)'
        raise Untranslatable(f'shift argument {ast.unparse(a)}')

    def grid_defs():
        sc = atf_scan()
        if sc['gridblock'] is None:
            raise Untranslatable('grid block not found')
        calls, _ = grid_calls(sc['gridblock'])
        d = {name: (ax, shift_term(call)) for name, ax, call in calls}
        return (f'def tfGridY (m n : Nat) (shift : Bool) : Nat → Int := ftUnitNum {d["fy"][0]} {d["fy"][1]}\n\n'
                f'def tfGridX (m n : Nat) (shift : Bool) : Nat → Int := ftUnitNum {d["fx"][0]} {d["fx"][1]}')
    g.item('apply_transfer_functions.grids', 'prysm/convolution.py:apply_transfer_functions',
           lambda: get_def(cv, 'apply_transfer_functions'), grid_defs,
           f'def tfGridY (m n : Nat) (shift : Bool) : Nat → Int := ftUnitNum m shift\n'
           f'def tfGridX (m n : Nat) (shift : Bool) : Nat → Int := ftUnitNum n shift')

    # structural facts (recognisers only, no Lean content): true = recognised and right, false = recognised and wrong,
    # None / Untranslatable = shape not recognised (tie degraded, widened correspondence)
    def grid_polar():
        sc = atf_scan()
        _, rest = grid_calls(sc['gridblock'])
        sep = polar = None
        for st in rest:
            if isinstance(st, ast.Assign) and isinstance(st.value, ast.Call) and ast.unparse(st.value.func) == 'optimize_xy_separable':
                sep = st
            elif isinstance(st, ast.Assign) and isinstance(st.value, ast.Call) and ast.unparse(st.value.func) == 'cart_to_polar':
                polar = st
            else:
                return None
        if sep is None or polar is None:
            return None

        def xy(call):
            a = {kw.arg: ast.unparse(kw.value) for kw in call.keywords}
            pos = [ast.unparse(x) for x in call.args]
            x = pos[0] if len(pos) > 0 else a.get('x')
            y = pos[1] if len(pos) > 1 else a.get('y')
            return x, y
        if not isinstance(polar.targets[0], ast.Tuple) or not isinstance(sep.targets[0], ast.Tuple):
            return None
        pt = [ast.unparse(t) for t in polar.targets[0].elts]
        st_ = [ast.unparse(t) for t in sep.targets[0].elts]
        if sorted(pt) != ['fr', 'ft'] or sorted(st_) != ['fx', 'fy'] or sorted(xy(polar.value)) != ['fx', 'fy'] \
                or sorted(xy(sep.value)) != ['fx', 'fy']:
            return None
        return pt == ['fr', 'ft'] and xy(polar.value) == ('fx', 'fy') and st_ == ['fx', 'fy'] and xy(sep.value) == ('fx', 'fy')
    g.fact('tfPolarGridFromCartesian', 'prysm/convolution.py:apply_transfer_functions', grid_polar)

    def kwargs_table():
        sc = atf_scan()
        if sc['callbranch'] is None:
            raise Untranslatable('no `if callable(tf):` branch')
        pairs = call_branch_pairs(sc['callbranch'], sc['tables'])
        body = ', '.join(f'("{a}", "{b}")' for a, b in pairs)
        return f'def tfKwargs : List (String × String) := [{body}]'
    g.item('apply_transfer_functions.kwargs', 'prysm/convolution.py:apply_transfer_functions',
           lambda: get_def(cv, 'apply_transfer_functions'), kwargs_table,
           'def tfKwargs : List (String × String) := [("fr", "fr"), ("ft", "ft"), ("fx", "fx"), ("fy", "fy")]')

    # ------------------------------------------------------------------ otf.py
    def transform():
        fn = get_def(ot, 'transform_psf')
        body = [s for s in fn.body if not _is_doc(s)]
        array_term = container_term = None
        cont_env = None
        for st in body:
            src = ast.unparse(st)
            if isinstance(st, ast.If) and src.startswith("if not hasattr(psf, 'ndim'):") and not st.orelse:
                # container branch: which array of the container goes on
                env = {'psf.data': 'psf'}
                for b in st.body:
                    if ast.unparse(b) == 'dx = psf.dx':
                        continue
                    if isinstance(b, ast.Assign) and ast.unparse(b.targets[0]) == 'psf':
                        cont_env = arr_expr_env(b.value, env)
                        continue
                    raise Untranslatable(f'statement in the container branch: {ast.unparse(b)[:50]}')
                if cont_env is None:
                    raise Untranslatable('container branch does not take the array out of the container')
                continue
            if isinstance(st, ast.If) and ast.unparse(st.test) == 'dx is None' and len(st.body) == 1 and isinstance(st.body[0], ast.Raise):
                continue
            if isinstance(st, ast.Assign) and ast.unparse(st.targets[0]) == 'data':
                if array_term is not None:
                    raise Untranslatable('transform_psf: data assigned more than once')
                array_term = arr_expr(st.value, {'psf': 'psf'})
                container_term = arr_expr(st.value, {'psf': cont_env}) if cont_env is not None else None
                continue
            if isinstance(st, ast.Assign) and ast.unparse(st.targets[0]) == 'df':
                continue
            if isinstance(st, ast.Return) and isinstance(st.value, ast.Tuple) and ast.unparse(st.value.elts[0]) == 'data':
                continue
            raise Untranslatable(f'transform_psf statement {src[:60]}')
        if array_term is None or container_term is None:
            raise Untranslatable('transform_psf structure')
        return (f'def transformPsf {HDR} (psf : A) : A := {array_term}\n\n'
                f'/-- the same for a container (RichData): `psf` stands for the container\'s `.data` -/\n'
                f'def transformPsfOfContainer {HDR} (psf : A) : A := {container_term}')
    g.item('transform_psf', 'prysm/otf.py:transform_psf', lambda: get_def(ot, 'transform_psf'), transform,
           f'def transformPsf {HDR} (psf : A) : A := {M}.transformPsf P psf\n'
           f'def transformPsfOfContainer {HDR} (psf : A) : A := {M}.transformPsf P psf')

    def from_psf(pyname, lname):
        def build():
            fn = get_def(ot, pyname)
            return (f'def {lname} {HDR} (psf : A) (c : I) : A :=\n  '
                    + arr_body(inline_helpers(fn.body, ot, skip=('transform_psf',)), {'psf': 'psf'}, calls={'transform_psf': 'transformPsf'}))
        return build
    for pyname, lname in (('mtf_from_psf', 'mtf'), ('ptf_from_psf', 'ptf'), ('otf_from_psf', 'otf')):
        g.item(pyname, f'prysm/otf.py:{pyname}', (lambda p=pyname: get_def(ot, p)), from_psf(pyname, lname),
               f'def {lname} {HDR} (psf : A) (c : I) : A := {M}.{lname} P psf c')

    def centre():
        outs = []
        for pyname in ('mtf_from_psf', 'ptf_from_psf', 'otf_from_psf'):
            fn = get_def(ot, pyname)
            for n in inline_helpers(fn.body, ot, skip=('transform_psf',)):
                if isinstance(n, ast.Assign) and ast.unparse(n.targets[0]) == '(cy, cx)':
                    gen = n.value.generators[0]
                    if ast.unparse(gen.iter) not in ('data.shape', 'dat.shape') or gen.ifs:
                        raise Untranslatable(f'reference index taken from {ast.unparse(gen.iter)}')
                    outs.append(Tr({gen.target.id: 's'}).expr(n.value.elt))
        if len(outs) != 3 or len(set(outs)) != 1:
            raise Untranslatable(f'reference index differs between mtf/ptf/otf: {outs}')
        return f'def mtfCentre (s : Int) : Int := {outs[0]}'
    g.item('otf.centre', 'prysm/otf.py:mtf_from_psf', lambda: get_def(ot, 'mtf_from_psf'), centre,
           f'def mtfCentre (s : Int) : Int := {M}.mtfCentre s')

    # ------------------------------------------------------------------ analytic transfer functions
    KH = '{K : Type} [Num K]'

    def jitter():
        fn = get_def(dg, 'jitter_ft')
        tr = Tr({'np.pi': 'pi', 'fr': 'fr', 'scale': 'scale'}, mode='num', funcs={'np.exp': 'exp'})
        return f'def jitterFt {KH} (exp : K → K) (pi fr scale : K) : K :=\n  ' + body_to_lean(fn.body, tr)
    g.item('jitter_ft', 'prysm/degredations.py:jitter_ft', lambda: get_def(dg, 'jitter_ft'), jitter,
           f'def jitterFt {KH} (exp : K → K) (pi fr scale : K) : K := {M}.jitterFt exp pi fr scale')

    def smear():
        fn = get_def(dg, 'smear_ft')
        parts = {}
        for s in fn.body:
            if isinstance(s, ast.If):
                test = ast.unparse(s.test)
                var = {'width != 0': 'wnz', 'height != 0': 'hnz'}.get(test)
                if var is None:
                    raise Untranslatable(f'smear_ft condition {test}')
                (a,), (b,) = s.body, s.orelse
                name = ast.unparse(a.targets[0])
                assert ast.unparse(b.targets[0]) == name
                v = a.value
                if isinstance(v, ast.Call) and isinstance(v.func, ast.Attribute) and v.func.attr == 'astype':
                    v = v.func.value          # a dtype cast does not change the value
                tr = Tr({'fx': 'fx', 'fy': 'fy', 'width': 'width', 'height': 'height'}, mode='num', funcs={'np.sinc': 'sinc'})
                parts[name] = f'(if {var} then {tr.expr(v)} else {tr.expr(b.value)})'
        (ret,) = find_returns(fn)
        term = Tr(parts, mode='num').expr(ret)
        return (f'def smearFt {KH} (sinc : K → K) (fx fy width height : K) (wnz hnz : Bool) : K :=\n  {term}')
    g.item('smear_ft', 'prysm/degredations.py:smear_ft', lambda: get_def(dg, 'smear_ft'), smear,
           f'def smearFt {KH} (sinc : K → K) (fx fy width height : K) (wnz hnz : Bool) : K := '
           f'{M}.smearFt sinc fx fy width height wnz hnz')

    def pixel():
        fn = get_def(dt, 'pixel_ft')
        tr = Tr({k: k for k in ('fx', 'fy', 'width_x', 'width_y')}, mode='num', funcs={'np.sinc': 'sinc'})
        return f'def pixelFt {KH} (sinc : K → K) (fx fy width_x width_y : K) : K :=\n  ' + body_to_lean(fn.body, tr)
    g.item('pixel_ft', 'prysm/detector.py:pixel_ft', lambda: get_def(dt, 'pixel_ft'), pixel,
           f'def pixelFt {KH} (sinc : K → K) (fx fy width_x width_y : K) : K := {M}.pixelFt sinc fx fy width_x width_y')

    def olpf():
        fn = get_def(dt, 'olpf_ft')
        tr = Tr({k: k for k in ('fx', 'fy', 'width_x', 'width_y')}, mode='num', funcs={'np.cos': 'cos'})
        return f'def olpfFt {KH} (cos : K → K) (fx fy width_x width_y : K) : K :=\n  ' + body_to_lean(fn.body, tr)
    g.item('olpf_ft', 'prysm/detector.py:olpf_ft', lambda: get_def(dt, 'olpf_ft'), olpf,
           f'def olpfFt {KH} (cos : K → K) (fx fy width_x width_y : K) : K := {M}.olpfFt cos fx fy width_x width_y')

    # ------------------------------------------------------------------ analytic transforms of objects (objects.py)
    def slit():
        fn = get_def(ob, 'slit_ft')
        tr = Tr({k: k for k in ('fx', 'fy', 'width_x', 'width_y')}, mode='num', funcs={'np.sinc': 'sinc'})
        COND = {'width_x is not None and width_y is not None': '(hasx && hasy)', 'width_y is not None and width_x is not None': '(hasx && hasy)',
                'width_x is not None and width_y is None': '(hasx && !hasy)', 'width_y is None and width_x is not None': '(hasx && !hasy)',
                'width_x is None and width_y is not None': '(!hasx && hasy)', 'width_y is not None and width_x is None': '(!hasx && hasy)'}

        def val(stmts):
            # early returns: `if c: return a` followed by the rest = `if c: return a else: <rest>`
            if len(stmts) > 1 and isinstance(stmts[0], ast.If) and not stmts[0].orelse and len(stmts[0].body) == 1 \
                    and isinstance(stmts[0].body[0], ast.Return):
                c = COND.get(ast.unparse(stmts[0].test))
                if c is None:
                    raise Untranslatable(f'slit_ft condition {ast.unparse(stmts[0].test)}')
                return f'(if {c} then {val(stmts[0].body)} else {val(stmts[1:])})'
            if len(stmts) != 1:
                raise Untranslatable('slit_ft branch with more than one statement')
            st = stmts[0]
            if isinstance(st, ast.If):
                c = COND.get(ast.unparse(st.test))
                if c is None:
                    raise Untranslatable(f'slit_ft condition {ast.unparse(st.test)}')
                if not st.orelse:
                    raise Untranslatable('slit_ft: if without else')
                return f'(if {c} then {val(st.body)} else {val(st.orelse)})'
            if isinstance(st, ast.Return):
                v = st.value
                if isinstance(v, ast.Call) and isinstance(v.func, ast.Attribute) and v.func.attr == 'astype':
                    v = v.func.value          # a dtype cast does not change the value
                return tr.expr(v)
            raise Untranslatable(f'slit_ft statement {ast.unparse(st)[:50]}')
        body = [s_ for s_ in fn.body if not (isinstance(s_, ast.Expr) and isinstance(s_.value, ast.Constant))]
        return f'def slitFt {KH} (sinc : K → K) (fx fy width_x width_y : K) (hasx hasy : Bool) : K :=\n  {val(body)}'
    g.item('slit_ft', 'prysm/objects.py:slit_ft', lambda: get_def(ob, 'slit_ft'), slit,
           f'def slitFt {KH} (sinc : K → K) (fx fy width_x width_y : K) (hasx hasy : Bool) : K := '
           f'{M}.slitFt sinc fx fy width_x width_y hasx hasy')

    def pinhole():
        fn = get_def(ob, 'pinhole_ft')
        tr = Tr({'np.pi': 'pi', 'fr': 'fr', 'radius': 'radius'}, mode='num', funcs={'jinc': 'jinc'})
        return f'def pinholeFt {KH} (jinc : K → K) (pi fr radius : K) : K :=\n  ' + body_to_lean(fn.body, tr)
    g.item('pinhole_ft', 'prysm/objects.py:pinhole_ft', lambda: get_def(ob, 'pinhole_ft'), pinhole,
           f'def pinholeFt {KH} (jinc : K → K) (pi fr radius : K) : K := {M}.pinholeFt jinc pi fr radius')

    # ------------------------------------------------------------------ diffraction-limited MTF (otf.py)
    KHO = '{K : Type} [Num K] [LT K] [DecidableLT K]'

    class _DropAsarray(ast.NodeTransformer):
        """`np.asarray(x)` -> `x` (a conversion, not a value change)"""
        def visit_Call(self, node):
            self.generic_visit(node)
            if ast.unparse(node.func) in ('np.asarray', 'np.asanyarray', 'np.array') and len(node.args) == 1 and not node.keywords:
                return node.args[0]
            return node

    def difflim_core():
        fn = get_def(ot, '_difflim_mtf_core')
        tr = Tr({'np.pi': 'pi', 'normalized_frequency': 'nu'}, mode='num', funcs={'np.arccos': 'arccos', 'np.sqrt': 'sqrt'})
        return f'def difflimCore {KH} (arccos sqrt : K → K) (pi nu : K) : K :=\n  ' + body_to_lean(fn.body, tr)
    g.item('_difflim_mtf_core', 'prysm/otf.py:_difflim_mtf_core', lambda: get_def(ot, '_difflim_mtf_core'), difflim_core,
           f'def difflimCore {KH} (arccos sqrt : K → K) (pi nu : K) : K := {M}.difflimCore arccos sqrt pi nu')

    def difflim():
        fn = get_def(ot, 'diffraction_limited_mtf')
        tr = Tr({'wavelength': 'wavelength', 'fno': 'fno', 'frequencies': 'f'}, mode='num', funcs={'abs': 'abs', 'np.abs': 'abs'})
        ext = tr.expr(find_assign(fn, 'extinction'))
        branch = [n for n in fn.body if isinstance(n, ast.If) and ast.unparse(n.test) == 'frequencies is None' and n.orelse]
        if not branch:
            raise Untranslatable('diffraction_limited_mtf: no `if frequencies is None` / else')
        els = branch[0].orelse
        if not (len(els) == 2 and isinstance(els[0], ast.Assign) and ast.unparse(els[0].targets[0]) == 'normalized_frequency'
                and isinstance(els[1], ast.Try)):
            raise Untranslatable('diffraction_limited_mtf: else branch is not `normalized_frequency = ...; try: clamp`')
        tr2 = Tr(dict(tr.env, extinction='extinction'), mode='num', funcs=tr.funcs)
        nu = tr2.expr(_DropAsarray().visit(ast.parse(ast.unparse(els[0].value), mode='eval').body))
        tr3 = Tr({'normalized_frequency': 'nu'}, mode='num')
        t = els[1]
        if not (len(t.body) == 1 and isinstance(t.body[0], ast.Assign) and isinstance(t.body[0].targets[0], ast.Subscript)
                and ast.unparse(t.body[0].targets[0].value) == 'normalized_frequency'):
            raise Untranslatable('diffraction_limited_mtf: clamp statement')
        cond = tr3.cond(t.body[0].targets[0].slice)
        val = tr3.expr(t.body[0].value)
        # the scalar fall-back of the except clause must clamp the same way
        for h in t.handlers:
            if not (len(h.body) == 1 and isinstance(h.body[0], ast.If) and len(h.body[0].body) == 1 and not h.body[0].orelse
                    and isinstance(h.body[0].body[0], ast.Assign) and ast.unparse(h.body[0].body[0].targets[0]) == 'normalized_frequency'):
                raise Untranslatable('diffraction_limited_mtf: scalar clamp')
            if tr3.cond(h.body[0].test) != cond or tr3.expr(h.body[0].body[0].value) != val:
                raise Untranslatable('diffraction_limited_mtf: array and scalar clamps differ')
        # what is returned for given frequencies: the core applied to the clamped normalised frequency
        mt = find_assign(fn, 'mtf')
        if ast.unparse(mt) != '_difflim_mtf_core(normalized_frequency)':
            raise Untranslatable(f'diffraction_limited_mtf: mtf = {ast.unparse(mt)[:50]}')
        rets = [ast.unparse(r) for r in find_returns(fn)]
        if rets != ['(normalized_frequency * extinction, mtf)', 'mtf']:
            raise Untranslatable(f'diffraction_limited_mtf returns {rets}')
        return (f'def difflimNu {KHO} (abs : K → K) (f wavelength fno : K) : K :=\n'
                f'  let extinction := {ext}\n  let nu := {nu}\n  if {cond} then {val} else nu')
    g.item('diffraction_limited_mtf', 'prysm/otf.py:diffraction_limited_mtf', lambda: get_def(ot, 'diffraction_limited_mtf'), difflim,
           f'def difflimNu {KHO} (abs : K → K) (f wavelength fno : K) : K := {M}.difflimNu abs f wavelength fno')

    # ------------------------------------------------------------------ atmospheric helpers (otf.py)
    class _PowToCall(ast.NodeTransformer):
        """`a ** e` with a non-integer-literal exponent -> `rpow(a, e)` (the real power is a parameter of the model)"""
        def visit_BinOp(self, node):
            self.generic_visit(node)
            if isinstance(node.op, ast.Pow) and not (isinstance(node.right, ast.Constant) and isinstance(node.right.value, int)):
                return ast.Call(func=ast.Name(id='rpow', ctx=ast.Load()), args=[node.left, node.right], keywords=[])
            return node

    def _atm(pyname, lname, params, extra=''):
        def build():
            fn = get_def(ot, pyname)
            body = [ast.fix_missing_locations(_PowToCall().visit(ast.parse(ast.unparse(s_)).body[0])) for s_ in fn.body
                    if not (isinstance(s_, ast.Expr) and isinstance(s_.value, ast.Constant))]
            env = {p_: q_ for p_, q_ in params}
            env['np.pi'] = 'pi'
            tr = Tr(env, mode='num', funcs={'np.exp': 'exp', 'rpow': 'rpow'})
            return f'def {lname} {KH} {extra}({" ".join(q_ for _, q_ in params)} : K) : K :=\n  ' + body_to_lean(body, tr)
        return build
    LE = [('nu', 'nu'), ('Cn', 'Cn'), ('z', 'z'), ('f', 'f'), ('lambdabar', 'lambdabar'), ('h_z_by_r', 'h')]
    g.item('longexposure_otf', 'prysm/otf.py:longexposure_otf', lambda: get_def(ot, 'longexposure_otf'),
           _atm('longexposure_otf', 'longExposureOtf', LE, '(exp : K → K) (rpow : K → K → K) (pi : K) '),
           f'def longExposureOtf {KH} (exp : K → K) (rpow : K → K → K) (pi : K) (nu Cn z f lambdabar h : K) : K := '
           f'{M}.longExposureOtf exp rpow pi nu Cn z f lambdabar h')
    g.item('komogorov', 'prysm/otf.py:komogorov', lambda: get_def(ot, 'komogorov'),
           _atm('komogorov', 'komogorov', [('r', 'r'), ('r0', 'r0')], '(rpow : K → K → K) '),
           f'def komogorov {KH} (rpow : K → K → K) (r r0 : K) : K := {M}.komogorov rpow r r0')
    g.item('estimate_Cn', 'prysm/otf.py:estimate_Cn', lambda: get_def(ot, 'estimate_Cn'),
           _atm('estimate_Cn', 'estimateCn', [('P', 'P'), ('T', 'T'), ('Ct', 'Ct')]),
           f'def estimateCn {KH} (P T Ct : K) : K := {M}.estimateCn P T Ct')

    return g.finish()


if __name__ == '__main__':
    import sys
    text, items = generate(sys.argv[1] if len(sys.argv) > 1 else '/repo')
    print(text)
    for it in items:
        print('--', it)
