"""translator items for C15 (image formation): prysm/convolution.py (conv, apply_transfer_functions),
prysm/otf.py (transform_psf, mtf/ptf/otf_from_psf), the analytic transfer functions of
prysm/degredations.py and prysm/detector.py.

The array pipelines are translated into Lean terms over the abstract operation signature
`Model.C15.FOps` (fft2 / ifft2 / fftshift / ifftshift / * / .real / abs / angle / a / a[idx]); the theorems
of Props/C15.lean interpret that signature by the mathematical DFT, so dropping a shift, conjugating
a factor or taking the reference sample elsewhere changes the term the kernel re-checks.
"""
import ast
import os
from pyexpr2lean import (Gen, Tr, Untranslatable, load, get_def, find_assign, find_assigns, find_returns,
                         find_calls, call_arg, body_to_lean)

M = 'Model.C15'
_UNARY = {'fft.fft2': 'fft2', 'fft.ifft2': 'ifft2', 'fft.fftshift': 'fftshift', 'fft.ifftshift': 'ifftshift',
          'abs': 'abs', 'np.abs': 'abs', 'np.angle': 'angle'}


def arr_expr(e, env):
    """array-valued Python expression -> Lean term over `P : FOps A I`"""
    if isinstance(e, ast.Name):
        if e.id in env:
            return env[e.id]
        raise Untranslatable(f'free array name {e.id}')
    if isinstance(e, ast.Call):
        f = ast.unparse(e.func)
        if f in _UNARY and len(e.args) == 1 and not e.keywords:
            return f'(P.{_UNARY[f]} {arr_expr(e.args[0], env)})'
        raise Untranslatable(f'array call {ast.unparse(e)[:60]}')
    if isinstance(e, ast.BinOp) and isinstance(e.op, ast.Mult):
        return f'(P.mul {arr_expr(e.left, env)} {arr_expr(e.right, env)})'
    if isinstance(e, ast.Attribute) and e.attr == 'real':
        return f'(P.real {arr_expr(e.value, env)})'
    raise Untranslatable(f'array expression {ast.unparse(e)[:60]}')


def _is_doc(s):
    return isinstance(s, ast.Expr) and isinstance(s.value, ast.Constant) and isinstance(s.value.value, str)


def arr_body(stmts, env, calls=None, idx=('cy', 'cx')):
    """straight-line array code -> nested lets.  `calls`: local functions returning (array, scalar)
    tuples, name -> Lean function applied to P and the first argument."""
    calls = calls or {}
    env = dict(env)
    lets = []
    k = [0]

    def bind(name, term):
        k[0] += 1
        ln = f'{name}_{k[0]}'
        lets.append(f'let {ln} := {term}')
        env[name] = ln

    for s in stmts:
        if _is_doc(s) or isinstance(s, ast.Pass):
            continue
        if isinstance(s, ast.Assign) and len(s.targets) == 1:
            t = s.targets[0]
            if isinstance(t, ast.Name):
                bind(t.id, arr_expr(s.value, env))
                continue
            if isinstance(t, ast.Tuple) and all(isinstance(x, ast.Name) for x in t.elts):
                names = tuple(x.id for x in t.elts)
                # data, df = transform_psf(psf, dx)
                if isinstance(s.value, ast.Call) and ast.unparse(s.value.func) in calls and len(names) == 2:
                    bind(names[0], f'({calls[ast.unparse(s.value.func)]} P {arr_expr(s.value.args[0], env)})')
                    continue
                # cy, cx = (centre(s) for s in data.shape): the reference index, translated separately
                if names == idx and isinstance(s.value, ast.GeneratorExp):
                    g = s.value.generators[0]
                    src = ast.unparse(g.iter)
                    if not src.endswith('.shape') or src[:-6] not in env or g.ifs:
                        raise Untranslatable(f'reference index taken from {src}')
                    env['__idx__'] = 'c'
                    continue
            raise Untranslatable(f'assignment {ast.unparse(s)[:60]}')
        if isinstance(s, ast.AugAssign) and isinstance(s.op, ast.Div) and isinstance(s.target, ast.Name):
            v = s.value
            ok = (isinstance(v, ast.Subscript) and isinstance(v.value, ast.Name) and v.value.id == s.target.id
                  and ast.unparse(v.slice) in (f'({idx[0]}, {idx[1]})', f'{idx[0]}, {idx[1]}') and env.get('__idx__'))
            if not ok:
                raise Untranslatable(f'normalisation {ast.unparse(s)[:60]}')
            bind(s.target.id, f'(P.divAt {env[s.target.id]} {env["__idx__"]})')
            continue
        if isinstance(s, ast.Return):
            v = s.value
            if isinstance(v, ast.Call) and ast.unparse(v.func) == 'RichData':
                v = call_arg(v, 0, 'data')
            return '\n  '.join(lets + [arr_expr(v, env)])
        raise Untranslatable(f'statement {ast.unparse(s)[:60]}')
    raise Untranslatable('no return')


HDR = '{A I : Type} (P : FOps A I)'


def generate(repo):
    g = Gen('C15', imports=['PrysmVerif.Model.C15'], opens=['Model.C15'])
    if os.environ.get('VERIF_FORCE_FALLBACK'):      # self-test: every item degrades to its hand-model fallback
        _item = g.item

        def _forced():
            raise Untranslatable('forced by VERIF_FORCE_FALLBACK')
        g.item = lambda name, source, node_fn, build, fallback: _item(name, source, node_fn, _forced, fallback)
    cv, _ = load(repo, 'prysm/convolution.py')
    ot, _ = load(repo, 'prysm/otf.py')
    dg, _ = load(repo, 'prysm/degredations.py')
    dt, _ = load(repo, 'prysm/detector.py')

    # ------------------------------------------------------------------ conv
    def conv():
        fn = get_def(cv, 'conv')
        args = [a.arg for a in fn.args.args]
        assert args == ['obj', 'psf']
        return f'def conv {HDR} (obj psf : A) : A :=\n  ' + arr_body(fn.body, {'obj': 'obj', 'psf': 'psf'})
    g.item('conv', 'prysm/convolution.py:conv', lambda: get_def(cv, 'conv'), conv,
           f'def conv {HDR} (obj psf : A) : A := {M}.conv P obj psf')

    # ------------------------------------------------------------------ apply_transfer_functions
    def atf_parts():
        fn = get_def(cv, 'apply_transfer_functions')
        body = [s for s in fn.body if not _is_doc(s)]
        env = {'obj': 'obj'}
        pre = loop = None
        post = []
        for s in body:
            if isinstance(s, ast.Assign) and ast.unparse(s.targets[0]) == 'o':
                env['o'] = arr_expr(s.value, env)
            elif isinstance(s, ast.If) and ast.unparse(s.test) == 'shift' and len(s.body) == 1 \
                    and isinstance(s.body[0], ast.Assign) and ast.unparse(s.body[0].targets[0]) == 'O':
                assert len(s.orelse) == 1 and ast.unparse(s.orelse[0].targets[0]) == 'O'
                pre = (arr_expr(s.body[0].value, env), arr_expr(s.orelse[0].value, env))
            elif isinstance(s, ast.For):
                loop = s
            elif loop is not None:
                post.append(s)
        if pre is None or loop is None:
            raise Untranslatable('spectrum / loop not found')
        # loop: for tf in tfs: [if callable(tf): ... tf = tf(**kwargs)]; O = O * tf
        assert ast.unparse(loop.target) == 'tf' and ast.unparse(loop.iter) == 'tfs'
        last = loop.body[-1]
        if not (isinstance(last, ast.Assign) and ast.unparse(last.targets[0]) == 'O'):
            raise Untranslatable('loop does not end in O = ...')
        step = arr_expr(last.value, {'O': 'O', 'tf': 'tf'})
        for s in loop.body[:-1]:
            if not (isinstance(s, ast.If) and ast.unparse(s.test) == 'callable(tf)'):
                raise Untranslatable(f'unexpected statement in the loop: {ast.unparse(s)[:50]}')
            if any(isinstance(n, ast.Name) and n.id == 'O' for n in ast.walk(s)):
                raise Untranslatable('callable branch touches O')
        # post: if shift: return X ; return Y      (or if/else)
        if len(post) == 2 and isinstance(post[0], ast.If) and ast.unparse(post[0].test) == 'shift' \
                and isinstance(post[0].body[-1], ast.Return) and isinstance(post[1], ast.Return) and len(post[0].body) == 1:
            p1 = arr_expr(post[0].body[0].value, {'O': 'O'})
            p0 = arr_body([post[1]], {'O': 'O'})
        elif len(post) >= 2 and isinstance(post[0], ast.If) and ast.unparse(post[0].test) == 'shift' \
                and len(post[0].body) == 1 and isinstance(post[0].body[0], ast.Return):
            p1 = arr_expr(post[0].body[0].value, {'O': 'O'})
            p0 = arr_body(post[1:], {'O': 'O'})
        else:
            raise Untranslatable('return structure')
        return pre, step, (p1, p0)

    def atf():
        pre, step, post = atf_parts()
        return (f'def tfPre {HDR} (shift : Bool) (obj : A) : A :=\n  if shift then {pre[0]} else {pre[1]}\n\n'
                f'def tfStep {HDR} (O tf : A) : A := {step}\n\n'
                f'def tfPost {HDR} (shift : Bool) (O : A) : A :=\n  if shift then {post[0]} else\n  {post[1]}\n\n'
                f'def applyTF {HDR} (shift : Bool) (obj : A) (tfs : List A) : A :=\n'
                f'  tfPost P shift (tfs.foldl (tfStep P) (tfPre P shift obj))')
    g.item('apply_transfer_functions', 'prysm/convolution.py:apply_transfer_functions',
           lambda: get_def(cv, 'apply_transfer_functions'), atf,
           f'def tfPre {HDR} (shift : Bool) (obj : A) : A := {M}.tfPre P shift obj\n'
           f'def tfStep {HDR} (O tf : A) : A := {M}.tfStep P O tf\n'
           f'def tfPost {HDR} (shift : Bool) (O : A) : A := {M}.tfPost P shift O\n'
           f'def applyTF {HDR} (shift : Bool) (obj : A) (tfs : List A) : A := {M}.applyTF P shift obj tfs')

    # frequency grids handed to callables.  A structural fact is `true` for the known-good shape, `false` only for a
    # recognised wrong variant, and *untranslatable* (deferred to the widened correspondence) for anything else.
    def fact_item(name, source, check):
        def build():
            return f'def {name} : Bool := {"true" if check() else "false"}'
        g.item(name, source, lambda: get_def(cv, 'apply_transfer_functions'), build, f'def {name} : Bool := true')

    def grid_calls():
        """[(target name, axis expression, call node)] of the forward_ft_unit calls that build the grids"""
        fn = get_def(cv, 'apply_transfer_functions')
        out = []
        for n in ast.walk(fn):
            if not isinstance(n, ast.Assign):
                continue
            t, v = n.targets[0], n.value
            if isinstance(t, ast.Tuple) and isinstance(v, ast.ListComp) and isinstance(v.elt, ast.Call) \
                    and ast.unparse(v.elt.func) == 'forward_ft_unit' and len(v.generators) == 1 \
                    and ast.unparse(v.generators[0].iter) == 'obj.shape' and len(t.elts) == 2:
                var = v.generators[0].target.id
                samples = call_arg(v.elt, 1, 'samples')
                if samples is None or ast.unparse(samples) != var:
                    raise Untranslatable('forward_ft_unit is not called with the axis length')
                out += [(t.elts[0].id, 'obj.shape[0]', v.elt), (t.elts[1].id, 'obj.shape[1]', v.elt)]
            elif isinstance(t, ast.Name) and isinstance(v, ast.Call) and ast.unparse(v.func) == 'forward_ft_unit':
                samples = call_arg(v, 1, 'samples')
                out.append((t.id, ast.unparse(samples) if samples is not None else '?', v))
        if sorted(x[0] for x in out) != ['fx', 'fy']:
            raise Untranslatable(f'frequency grid construction not recognised: {[x[0] for x in out]}')
        return out

    def grid_yx():
        d = {name: axis for name, axis, _ in grid_calls()}
        if not all(a in ('obj.shape[0]', 'obj.shape[1]') for a in d.values()):
            raise Untranslatable(f'axis lengths {d}')
        return d == {'fy': 'obj.shape[0]', 'fx': 'obj.shape[1]'}
    fact_item('tfGridIsFtUnitPerAxisYX', 'prysm/convolution.py:apply_transfer_functions', grid_yx)

    def grid_shift():
        ok = True
        for _, _, call in grid_calls():
            a = call_arg(call, 2, 'shift')
            if a is None:
                ok = False                      # default shift=True whatever the convention: the pinned defect
            elif ast.unparse(a) != 'shift':
                if isinstance(a, ast.Constant):
                    ok = False
                else:
                    raise Untranslatable(f'shift argument {ast.unparse(a)}')
        return ok
    fact_item('tfGridOriginFollowsConvention', 'prysm/convolution.py:apply_transfer_functions', grid_shift)

    def grid_polar():
        fn = get_def(cv, 'apply_transfer_functions')
        calls = [n for n in ast.walk(fn) if isinstance(n, ast.Assign) and isinstance(n.value, ast.Call)
                 and ast.unparse(n.value.func) == 'cart_to_polar']
        if len(calls) != 1:
            raise Untranslatable('polar grids are not built by one cart_to_polar call')
        n = calls[0]
        return ast.unparse(n.targets[0]) == '(fr, ft)' and [ast.unparse(a) for a in n.value.args] == ['fx', 'fy']
    fact_item('tfPolarGridFromCartesian', 'prysm/convolution.py:apply_transfer_functions', grid_polar)

    def kwargs_table():
        fn = get_def(cv, 'apply_transfer_functions')
        pairs = []
        for n in ast.walk(fn):
            if isinstance(n, ast.If) and isinstance(n.test, ast.Compare) and len(n.test.ops) == 1 \
                    and isinstance(n.test.ops[0], ast.In) and ast.unparse(n.test.comparators[0]) == 'params':
                key = n.test.left.value
                (st,) = n.body
                assert ast.unparse(st.targets[0]) == f"kwargs['{key}']"
                pairs.append((key, ast.unparse(st.value)))
        pairs.sort()
        body = ', '.join(f'("{a}", "{b}")' for a, b in pairs)
        return f'def tfKwargs : List (String × String) := [{body}]'
    g.item('apply_transfer_functions.kwargs', 'prysm/convolution.py:apply_transfer_functions',
           lambda: get_def(cv, 'apply_transfer_functions'), kwargs_table,
           'def tfKwargs : List (String × String) := [("fr", "fr"), ("ft", "ft"), ("fx", "fx"), ("fy", "fy")]')

    # ------------------------------------------------------------------ otf.py
    def transform():
        fn = get_def(ot, 'transform_psf')
        data = find_assigns(fn, 'data')
        if len(data) != 1:
            raise Untranslatable('transform_psf: data assigned more than once')
        (ret,) = find_returns(fn)
        assert isinstance(ret, ast.Tuple) and ast.unparse(ret.elts[0]) == 'data'
        # `psf = psf.data` for containers: same array
        return f'def transformPsf {HDR} (psf : A) : A := {arr_expr(data[0], {"psf": "psf"})}'
    g.item('transform_psf', 'prysm/otf.py:transform_psf', lambda: get_def(ot, 'transform_psf'), transform,
           f'def transformPsf {HDR} (psf : A) : A := {M}.transformPsf P psf')

    def from_psf(pyname, lname):
        def build():
            fn = get_def(ot, pyname)
            return (f'def {lname} {HDR} (psf : A) (c : I) : A :=\n  '
                    + arr_body(fn.body, {'psf': 'psf'}, calls={'transform_psf': 'transformPsf'}))
        return build
    for pyname, lname in (('mtf_from_psf', 'mtf'), ('ptf_from_psf', 'ptf'), ('otf_from_psf', 'otf')):
        g.item(pyname, f'prysm/otf.py:{pyname}', (lambda p=pyname: get_def(ot, p)), from_psf(pyname, lname),
               f'def {lname} {HDR} (psf : A) (c : I) : A := {M}.{lname} P psf c')

    def centre():
        outs = []
        for pyname in ('mtf_from_psf', 'ptf_from_psf', 'otf_from_psf'):
            fn = get_def(ot, pyname)
            for n in ast.walk(fn):
                if isinstance(n, ast.Assign) and ast.unparse(n.targets[0]) == '(cy, cx)':
                    gen = n.value.generators[0]
                    assert ast.unparse(gen.iter) == 'data.shape'
                    outs.append(Tr({gen.target.id: 's'}).expr(n.value.elt))
        if len(outs) != 3 or len(set(outs)) != 1:
            raise Untranslatable(f'reference index differs between mtf/ptf/otf: {outs}')
        return f'def mtfCentre (s : Int) : Int := {outs[0]}'
    g.item('otf.centre', 'prysm/otf.py:mtf_from_psf', lambda: get_def(ot, 'mtf_from_psf'), centre,
           f'def mtfCentre (s : Int) : Int := {M}.mtfCentre s')

    # ------------------------------------------------------------------ analytic transfer functions
    KH = '{K : Type} [Num K]'

    def jitter():
        fn = get_def(dg, 'jitter_ft')
        tr = Tr({'np.pi': 'pi', 'fr': 'fr', 'scale': 'scale'}, mode='num', funcs={'np.exp': 'exp'})
        return f'def jitterFt {KH} (exp : K → K) (pi fr scale : K) : K :=\n  ' + body_to_lean(fn.body, tr)
    g.item('jitter_ft', 'prysm/degredations.py:jitter_ft', lambda: get_def(dg, 'jitter_ft'), jitter,
           f'def jitterFt {KH} (exp : K → K) (pi fr scale : K) : K := {M}.jitterFt exp pi fr scale')

    def smear():
        fn = get_def(dg, 'smear_ft')
        parts = {}
        for s in fn.body:
            if isinstance(s, ast.If):
                test = ast.unparse(s.test)
                var = {'width != 0': 'wnz', 'height != 0': 'hnz'}.get(test)
                if var is None:
                    raise Untranslatable(f'smear_ft condition {test}')
                (a,), (b,) = s.body, s.orelse
                name = ast.unparse(a.targets[0])
                assert ast.unparse(b.targets[0]) == name
                v = a.value
                if isinstance(v, ast.Call) and isinstance(v.func, ast.Attribute) and v.func.attr == 'astype':
                    v = v.func.value          # a dtype cast does not change the value
                tr = Tr({'fx': 'fx', 'fy': 'fy', 'width': 'width', 'height': 'height'}, mode='num', funcs={'np.sinc': 'sinc'})
                parts[name] = f'(if {var} then {tr.expr(v)} else {tr.expr(b.value)})'
        (ret,) = find_returns(fn)
        term = Tr(parts, mode='num').expr(ret)
        return (f'def smearFt {KH} (sinc : K → K) (fx fy width height : K) (wnz hnz : Bool) : K :=\n  {term}')
    g.item('smear_ft', 'prysm/degredations.py:smear_ft', lambda: get_def(dg, 'smear_ft'), smear,
           f'def smearFt {KH} (sinc : K → K) (fx fy width height : K) (wnz hnz : Bool) : K := '
           f'{M}.smearFt sinc fx fy width height wnz hnz')

    def pixel():
        fn = get_def(dt, 'pixel_ft')
        tr = Tr({k: k for k in ('fx', 'fy', 'width_x', 'width_y')}, mode='num', funcs={'np.sinc': 'sinc'})
        return f'def pixelFt {KH} (sinc : K → K) (fx fy width_x width_y : K) : K :=\n  ' + body_to_lean(fn.body, tr)
    g.item('pixel_ft', 'prysm/detector.py:pixel_ft', lambda: get_def(dt, 'pixel_ft'), pixel,
           f'def pixelFt {KH} (sinc : K → K) (fx fy width_x width_y : K) : K := {M}.pixelFt sinc fx fy width_x width_y')

    def olpf():
        fn = get_def(dt, 'olpf_ft')
        tr = Tr({k: k for k in ('fx', 'fy', 'width_x', 'width_y')}, mode='num', funcs={'np.cos': 'cos'})
        return f'def olpfFt {KH} (cos : K → K) (fx fy width_x width_y : K) : K :=\n  ' + body_to_lean(fn.body, tr)
    g.item('olpf_ft', 'prysm/detector.py:olpf_ft', lambda: get_def(dt, 'olpf_ft'), olpf,
           f'def olpfFt {KH} (cos : K → K) (fx fy width_x width_y : K) : K := {M}.olpfFt cos fx fy width_x width_y')

    return g.finish()


if __name__ == '__main__':
    import sys
    text, items = generate(sys.argv[1] if len(sys.argv) > 1 else '/repo')
    print(text)
    for it in items:
        print('--', it)
