"""translator items for C08 (sequence evaluation = one-at-a-time evaluation).

* the `*_seq` sweeps of prysm/polynomials (`jacobi_seq`, `hermite_He_seq`, `hermite_H_seq`, `laguerre_seq`,
  `dickson1_seq`, `dickson2_seq`) are translated statement by statement — the running index `min_i`, the
  `if ns[min_i] == i: out[min_i] = …; min_i += 1` emissions, the early `return out`s and the `for` loop — into
  Lean functions `List Nat → … → Option (List K)` (`none` = a row of `np.empty` left unwritten);
* the Chebyshev `*_seq` functions: Jacobi parameters, numerators and the *shape* of the per-order constants that
  multiplies the `(N, *x.shape)` mode stack (symbolic in `N = len(ns)` and `rank = x.ndim`);
* `xy_seq`: which one-index family supplies the monomials, with which parameter, and how terms are combined;
* `zernike_nm_seq`: the per-|m| table arguments and the look-up index.
"""
import ast
from pyexpr2lean import (Gen, Tr, Untranslatable, load, get_def, find_assign, find_assigns, find_returns, find_calls)
from gen_c07 import PTr, Body, assigned_names, _proj, _tuple, _returns, translate_fn, inline_helpers, get_def_inlined, M as M7

M = 'Model.C08'
HDR = 'set_option linter.unusedVariables false\nvariable {K : Type} [Num K]\n'


# ------------------------------------------------------------------------------------------------
# symbolic shapes: a shape is a list of atoms 'N' | '1' | ('rep', 'rank') ; rendered as a Lean List Nat
# ------------------------------------------------------------------------------------------------
def shape_lean(sh):
    parts = []
    for a in sh:
        if a == 'N':
            parts.append('[N]')
        elif a == '1':
            parts.append('[1]')
        elif a == 'S':
            parts.append('S')
        elif a == 'ones_rank':
            parts.append('List.replicate rank 1')
        else:
            raise Untranslatable(f'shape atom {a}')
    return ' ++ '.join(parts) if parts else '([] : List Nat)'


def shape_of(e, env):
    """symbolic shape of a NumPy expression; env: name -> shape.  'S' stands for x.shape (rank many axes)."""
    if isinstance(e, ast.Name):
        if e.id in env:
            return env[e.id]
        raise Untranslatable(f'shape of {e.id}')
    if isinstance(e, ast.Constant) and isinstance(e.value, (int, float)):
        return []
    if isinstance(e, ast.BinOp):
        return bc(shape_of(e.left, env), shape_of(e.right, env))
    if isinstance(e, ast.Call):
        f = ast.unparse(e.func)
        if f in ('jacobi_seq', 'jacobi_der_seq') and len(e.args) == 4:
            return ['N'] + shape_of(e.args[3], env)
        if f == 'np.ones' and e.args:
            a = ast.unparse(e.args[0])
            if a == '1':
                return ['1']
            if a in ('(1,) * x.ndim', 'x.ndim * (1,)', '(1,) * len(x.shape)', '[1] * x.ndim'):
                return ['ones_rank']
            raise Untranslatable(f'np.ones({a})')
        if f == 'np.squeeze' and len(e.args) == 1:
            return [a for a in shape_of(e.args[0], env) if a not in ('1', 'ones_rank')]
        if f in ('np.asarray', 'np.array', 'list') and len(e.args) == 1:
            return shape_of(e.args[0], env)
        if isinstance(e.func, ast.Attribute) and e.func.attr == 'reshape':
            a = ', '.join(ast.unparse(x) for x in e.args)
            if a in ('(len(ns),) + (1,) * x.ndim', '(-1,) + (1,) * x.ndim', '(len(ns), *(1,) * x.ndim)',
                     '(-1, *(1,) * x.ndim)', '-1, *(1,) * x.ndim', 'len(ns), *(1,) * x.ndim',
                     '(len(ns), *[1] * x.ndim)', '(len(ns),) + (1,) * len(x.shape)'):
                base = shape_of(e.func.value, env)
                if [b for b in base if b not in ('1', 'ones_rank')] != ['N']:
                    raise Untranslatable('reshape of something that does not have N elements')
                return ['N', 'ones_rank']
            raise Untranslatable(f'reshape({a})')
    if isinstance(e, ast.Subscript):
        idx = ast.unparse(e.slice)
        base = shape_of(e.value, env)
        if idx in ('(slice(None, None, None), np.newaxis)', ':, np.newaxis', ':, None') or \
                ast.unparse(e).endswith('[:, np.newaxis]') or ast.unparse(e).endswith('[:, None]'):
            if len(base) != 1:
                raise Untranslatable(f'[:, np.newaxis] on shape {base}')
            return base + ['1']
        raise Untranslatable(f'subscript {ast.unparse(e)}')
    raise Untranslatable(f'shape of {ast.unparse(e)[:50]}')


def bc(a, b):
    """broadcast of symbolic shapes, only the cases that are certain"""
    if not a:
        return b
    if not b:
        return a
    if a == b:
        return a
    if a == ['N'] and b == ['N']:
        return ['N']
    raise Untranslatable(f'broadcast {a} with {b} is not modelled symbolically')



# ------------------------------------------------------------------------------------------------
# statement-level translation of the `*_seq` sweeps
# ------------------------------------------------------------------------------------------------
LEAN_TY = {'K': 'K', 'Nat': 'Nat', 'Rows': f'{M}.Rows K', 'Int': 'Int'}


def _index_names(fn):
    """names used as indices into `ns` / `out`"""
    out = set()
    for n in ast.walk(fn):
        if isinstance(n, ast.Subscript) and isinstance(n.value, ast.Name) and n.value.id in ('ns', 'out') \
                and isinstance(n.slice, ast.Name):
            out.add(n.slice.id)
    return out


def alloc_kind(v, lst, coord):
    """`np.empty((len(<lst>), *<coord>.shape), dtype=<d>)` -> 'same' (the coordinate dtype) | 'float' (promoted to hold floats);
    None when `v` is not such an allocation; Untranslatable for an unknown dtype expression"""
    if not (isinstance(v, ast.Call) and ast.unparse(v.func) == 'np.empty' and len(v.args) == 1 and len(v.keywords) == 1
            and v.keywords[0].arg == 'dtype'):
        return None
    if ast.unparse(v.args[0]) != f'(len({lst}), *{coord}.shape)':
        return None
    d = ast.unparse(v.keywords[0].value)
    c = coord
    if d == f'{c}.dtype':
        return 'same'
    promoted = {f'np.result_type({c}, 1.0)', f'np.result_type({c}.dtype, 1.0)', f'np.result_type({c}, float)',
                f'np.result_type({c}.dtype, float)', f'np.result_type({c}.dtype, config.precision)',
                f'np.result_type({c}, config.precision)', f"{c}.dtype if {c}.dtype.kind in 'fc' else config.precision",
                f'np.promote_types({c}.dtype, config.precision)'}
    if d in promoted:
        return 'float'
    raise Untranslatable(f'dtype expression {d}')


import gen_c07


class Seq:
    """python statements of a `*_seq` sweep -> one Lean term of type `Option (List K)`.

    Variables are typed: K (arrays read point-wise), Nat (running indices), Rows (`out`), Int (`max_n`).
    """

    def __init__(self, fn, k_params, tuple_funcs=None, tr_kwargs=None, fname='f'):
        self.fn = fn
        self.fname = fname
        self.prelude = []
        self.nat_names = _index_names(fn)
        self.tuple_funcs = dict(tuple_funcs or {})
        self.tr0 = PTr({p: p for p in k_params}, ints=[], **(tr_kwargs or {}))
        self.kbody = Body(self.tr0, tuple_funcs=self.tuple_funcs)

    # ---- small helpers
    def nat_expr(self, e, ty):
        if isinstance(e, ast.Name) and ty.get(e.id) == 'Nat':
            return f'{e.id}_'
        raise Untranslatable(f'index expression {ast.unparse(e)}')

    def order_expr(self, e, tr, ty):
        """the order an `ns[..] == <e>` test compares with, as a Nat"""
        if isinstance(e, ast.Constant) and isinstance(e.value, int) and e.value >= 0:
            return str(e.value)
        if isinstance(e, ast.Name) and e.id in tr.ints:
            return f'(Int.toNat {e.id})'
        raise Untranslatable(f'order expression {ast.unparse(e)}')

    def int_expr(self, e, tr, ty):
        env = {k: k for k in tr.ints}
        for nm, t in ty.items():
            if t == 'Int':
                env[nm] = f'{nm}_'
        env['ns[-1]'] = f'({M}.lastOrder ns)'
        return Tr(env, 'int').expr(e)

    def cond(self, e, tr, ty):
        src = ast.unparse(e)
        if isinstance(e, ast.Compare) and len(e.ops) == 1 and isinstance(e.ops[0], ast.Eq):
            l, r = e.left, e.comparators[0]
            if isinstance(l, ast.Subscript) and ast.unparse(l.value) == 'ns':
                return f'ns[{self.nat_expr(l.slice, ty)}]? = some {self.order_expr(r, tr, ty)}'
            if isinstance(l, ast.Name) and ty.get(l.id) == 'Nat' and ast.unparse(r) == 'len(ns)':
                return f'{l.id}_ = ns.length'
        raise Untranslatable(f'condition {src}')

    # ---- one simple (non-control) statement -> (lets, tr, ty)
    def simple(self, s, tr, ty):
        src = ast.unparse(s)
        if src == 'ns = list(ns)' or gen_c07.is_identity_prologue(s):      # container / scalar / dtype normalisation: point-wise identity
            return [], tr, ty
        if isinstance(s, ast.Assign) and len(s.targets) == 1:
            t, v = s.targets[0], s.value
            if isinstance(t, ast.Name) and t.id in self.nat_names:
                if isinstance(v, ast.Constant) and isinstance(v.value, int) and v.value >= 0:
                    return [f'let {t.id}_ : Nat := {v.value}'], tr, {**ty, t.id: 'Nat'}
                raise Untranslatable(f'index variable assigned {ast.unparse(v)}')
            if isinstance(t, ast.Name) and t.id == 'out':
                if alloc_kind(v, 'ns', 'x') is not None:     # the dtype is read by the `…OutKind` items
                    return [f'let out_ : {M}.Rows K := {M}.emptyRows ns.length'], tr, {**ty, 'out': 'Rows'}
                raise Untranslatable(f'out = {ast.unparse(v)[:50]}')
            if isinstance(t, ast.Name) and ast.unparse(v) == 'ns[-1]':
                return [f'let {t.id}_ : Int := {M}.lastOrder ns'], tr, {**ty, t.id: 'Int'}
            if isinstance(t, ast.Subscript) and ast.unparse(t.value) == 'out':
                if ty.get('out') != 'Rows':
                    raise Untranslatable('write to out before it is allocated')
                return [f'let out_ := {M}.setRow out_ {self.nat_expr(t.slice, ty)} {tr.expr(v)}'], tr, ty
        if isinstance(s, ast.AugAssign) and isinstance(s.target, ast.Name) and ty.get(s.target.id) == 'Nat':
            if isinstance(s.op, ast.Add) and isinstance(s.value, ast.Constant) and s.value.value == 1:
                return [f'let {s.target.id}_ := {s.target.id}_ + 1'], tr, ty
            raise Untranslatable(f'index update {src}')
        # everything else is point-wise scalar arithmetic
        names = assigned_names([s])
        ls, tr2 = self.kbody.lets_for_assign(s, tr)
        ty2 = dict(ty)
        for nm in names:
            ty2[nm] = 'K'
        return ls, tr2, ty2

    def var(self, nm, tr, ty):
        if ty.get(nm, 'K') == 'K':
            if nm in tr.env:
                return tr.env[nm]
            if nm in tr.ints:
                return f'(Num.ofInt {nm})'
            return '(Num.ofInt (0))'
        return f'{nm}_'

    def block(self, stmts, tr, ty, ind):
        """a block without return/loops nested in an `if` or a loop body -> (lines, tr, ty)"""
        lines = []
        for st in stmts:
            if isinstance(st, ast.Expr) and isinstance(st.value, ast.Constant):
                continue
            if isinstance(st, ast.If):
                ls, tr, ty = self.cond_update(st, tr, ty, ind)
            else:
                ls, tr, ty = self.simple(st, tr, ty)
            lines += ls
        return lines, tr, ty

    def cond_update(self, s, tr, ty, ind):
        if s.orelse or _returns(s.body):
            raise Untranslatable(f'conditional {ast.unparse(s.test)} with else/return in a block')
        c = self.cond(s.test, tr, ty)
        names = assigned_names(s.body)
        for n in ast.walk(ast.Module(body=s.body, type_ignores=[])):
            if isinstance(n, ast.Assign) and isinstance(n.targets[0], ast.Subscript) and 'out' not in names:
                names = ['out'] + names
        names = sorted(names, key=lambda nm: (nm != 'out', nm))      # canonical order: independent of statement order
        lines, tr2, ty2 = self.block(s.body, tr, ty, ind + '    ')
        new = _tuple([self.var(nm, tr2, ty2) for nm in names])
        old = _tuple([self.var(nm, tr, ty) for nm in names])
        tys = ' × '.join(LEAN_TY[ty2.get(nm, 'K')] for nm in names)
        i2 = ind + '    '
        body = ('\n' + i2).join(lines + [new])
        tag = 'st_' + '_'.join(names)
        out = [f'let {tag} : {tys} := if {c} then\n{i2}{body}\n{ind}  else {old}']
        env = dict(tr.env)
        ints = set(tr.ints)
        ty3 = dict(ty)
        for k, nm in enumerate(names):
            out.append(f'let {nm}_ := {_proj(k, len(names)).replace("s", tag, 1)}')
            ty3[nm] = ty2.get(nm, 'K')
            if ty3[nm] == 'K':
                env[nm] = f'{nm}_'
                ints.discard(nm)
        return out, tr.clone(env, ints), ty3

    def loop(self, s, tr, ty, ind):
        if not (isinstance(s.target, ast.Name) and isinstance(s.iter, ast.Call) and ast.unparse(s.iter.func) == 'range'
                and len(s.iter.args) == 2 and not s.orelse):
            raise Untranslatable(f'loop header {ast.unparse(s).splitlines()[0]}')
        v = s.target.id
        lo, hi = self.int_expr(s.iter.args[0], tr, ty), self.int_expr(s.iter.args[1], tr, ty)
        names = assigned_names(s.body)
        if any(isinstance(n, ast.Assign) and isinstance(n.targets[0], ast.Subscript) for n in ast.walk(s)) and 'out' not in names:
            names = names + ['out']
        names = sorted(names)
        init = [self.var(nm, tr, ty) for nm in names]
        # inside the body every carried variable is read from the state tuple
        env = dict(tr.env)
        tyb = dict(ty)
        for nm in names:
            tyb.setdefault(nm, 'K')
            if tyb[nm] == 'K':
                env[nm] = f'{nm}_'
        env.pop(v, None)
        btr = tr.clone(env, (set(tr.ints) - set(names)) | {v})
        i2 = ind + '    '
        ty_in = dict(tyb)
        ls, btr, tyb = self.block(s.body, btr, tyb, i2)
        if any(tyb.get(nm, 'K') != ty_in.get(nm, 'K') for nm in names):
            raise Untranslatable('a loop-carried variable changes its type inside the loop')
        tyl = [LEAN_TY[tyb.get(nm, 'K')] for nm in names]
        tys = ' × '.join(tyl)
        acc = {nm: f'{self.fname}_st_{nm}' for nm in names}
        for k, nm in enumerate(names):
            self.prelude.append(f'abbrev {acc[nm]} {{K : Type}} (s : {tys}) : {tyl[k]} := {_proj(k, len(names))}')
        lines = [f'let {nm}_ := {acc[nm]} s' for nm in names] + ls
        final = _tuple([self.var(nm, btr, tyb) for nm in names])
        body = ('\n' + i2).join(lines + [final])
        loopname = f'loop_{v}'
        out = [f'let {loopname} := {M7}.forRange {lo} {hi} (fun ({v} : Int) (s : {tys}) =>\n{i2}{body}) {_tuple(init)}']
        env2 = dict(tr.env)
        ints2 = set(tr.ints) - set(names)
        ty2 = dict(ty)
        for k, nm in enumerate(names):
            out.append(f'let {nm}_ := {acc[nm]} {loopname}')
            ty2[nm] = tyb.get(nm, 'K')
            if ty2[nm] == 'K':
                env2[nm] = f'{nm}_'
        return out, tr.clone(env2, ints2), ty2

    def run(self, stmts, tr, ty, ind='  '):
        if not stmts:
            raise Untranslatable('fell off the end of the function without return')
        s, rest = stmts[0], stmts[1:]
        if isinstance(s, ast.Expr) and isinstance(s.value, ast.Constant):
            return self.run(rest, tr, ty, ind)
        if isinstance(s, ast.Return):
            if ast.unparse(s.value) != 'out' or ty.get('out') != 'Rows':
                raise Untranslatable(f'return {ast.unparse(s.value)}')
            return f'{M}.finishRows out_'
        if isinstance(s, ast.If) and _returns(s.body) and not s.orelse:
            c = self.cond(s.test, tr, ty)
            then = self.run(s.body, tr, ty, ind + '  ')
            return f'if {c} then {then} else\n{ind}{self.run(rest, tr, ty, ind)}'
        if isinstance(s, ast.If):
            ls, tr2, ty2 = self.cond_update(s, tr, ty, ind)
        elif isinstance(s, ast.For):
            ls, tr2, ty2 = self.loop(s, tr, ty, ind)
        else:
            ls, tr2, ty2 = self.simple(s, tr, ty)
        return ('\n' + ind).join(ls + [self.run(rest, tr2, ty2, ind)])


def translate_seq(fn, lean_name, k_params, tuple_funcs=None, extra_binders='', tr_kwargs=None):
    got = [a.arg for a in fn.args.args]
    if got != ['ns'] + list(k_params):
        raise Untranslatable(f'parameters {got}')
    sq = Seq(fn, k_params, tuple_funcs=tuple_funcs, tr_kwargs=tr_kwargs, fname=lean_name)
    body = sq.run(fn.body, sq.tr0, {})
    binders = ' '.join(f'({p} : K)' for p in k_params)
    pre = ''.join(x + '\n' for x in sq.prelude)
    return f'{pre}def {lean_name} {extra_binders}(ns : List Nat) {binders} : Option (List K) :=\n  {body}\n'


def _refresh_c07(repo):
    """Generated/C08.lean refers to the translated scalar evaluators of Generated/C07.lean: keep that file in step with the
    source this run looks at"""
    import os
    import gen_c07
    text, _ = gen_c07.generate(repo)
    path = os.path.join(os.path.dirname(os.path.dirname(os.path.abspath(__file__))), 'lean', 'PrysmVerif', 'Generated', 'C07.lean')
    old = open(path).read() if os.path.exists(path) else None
    if old != text:
        with open(path, 'w') as f:
            f.write(text)


def _forceable(g):
    """testing aid: VERIF_FORCE_FALLBACK=name1,name2 makes those items untranslatable (exercises the fallback path)"""
    import os
    forced = set(filter(None, os.environ.get('VERIF_FORCE_FALLBACK', '').split(',')))
    orig = g.item

    def item(name, source, node_fn, build, fallback):
        if name in forced or 'ALL' in forced:
            def build():      # noqa
                raise Untranslatable('forced by VERIF_FORCE_FALLBACK')
        return orig(name, source, node_fn, build, fallback)
    g.item = item
    return g


def _pair_loop(fn):
    """the last `for n, m in nms` / `for k, (n, m) in enumerate(nms)` loop of a two-index *_seq -> (loop, n name, m name); with
    enumerate the counter is the row written (`out[k] = …`), exactly like the hand-incremented one"""
    found = None
    for st in fn.body:
        if not isinstance(st, ast.For):
            continue
        t, it = st.target, ast.unparse(st.iter)
        if it == 'nms' and isinstance(t, ast.Tuple) and len(t.elts) == 2 and all(isinstance(e, ast.Name) for e in t.elts):
            found = (st, t.elts[0].id, t.elts[1].id)
        elif it == 'enumerate(nms)' and isinstance(t, ast.Tuple) and len(t.elts) == 2 and isinstance(t.elts[1], ast.Tuple) \
                and len(t.elts[1].elts) == 2 and all(isinstance(e, ast.Name) for e in t.elts[1].elts):
            found = (st, t.elts[1].elts[0].id, t.elts[1].elts[1].id)
    if found is None:
        raise Untranslatable('no `for n, m in nms` loop')
    return found


def generate(repo):
    _refresh_c07(repo)
    g = Gen('C08', imports=['PrysmVerif.PyPrelude', 'PrysmVerif.Model.C08', 'PrysmVerif.Generated.C07'], header=HDR)
    g = _forceable(g)
    che, _ = load(repo, 'prysm/polynomials/cheby.py')
    xyf, _ = load(repo, 'prysm/polynomials/xy.py')
    zer, _ = load(repo, 'prysm/polynomials/zernike.py')

    # ---- Chebyshev *_seq: parameters, numerator, and the shape of the constants that multiplies the stack
    def cheby(kind, der):
        name = f'cheby{kind}_der_seq' if der else f'cheby{kind}_seq'
        lname = f'cheby{kind}DerSeq' if der else f'cheby{kind}Seq'
        seqfn = 'jacobi_der_seq' if der else 'jacobi_seq'

        def build():
            fn = get_def_inlined(che, name)
            cs = find_assign(fn, 'cs', which=-1)
            seq = find_assign(fn, 'seq')
            (ret,) = find_returns(fn)
            if not (isinstance(seq, ast.Call) and ast.unparse(seq.func) == seqfn and len(seq.args) == 4
                    and ast.unparse(seq.args[0]) == 'ns' and ast.unparse(seq.args[3]) == 'x'):
                raise Untranslatable(f'{name}: seq is not {seqfn}(ns, a, b, x)')
            if not (isinstance(ret, ast.BinOp) and isinstance(ret.op, ast.Mult) and ast.unparse(ret.left) == 'seq'):
                raise Untranslatable(f'{name} does not return seq * <constants>')
            env = {'ns': ['N'], 'x': ['S'], 'seq': ['N', 'S']}
            for nm in ('cs',):
                env[nm] = shape_of(cs, env)
            factor = shape_of(ret.right, env)
            # cs = NUM / [squeeze](jacobi_seq(ns, a1, b1, ones))
            if not (isinstance(cs, ast.BinOp) and isinstance(cs.op, ast.Div)):
                raise Untranslatable(f'{name}: cs is not <num> / <normaliser>')
            den = cs.right
            if isinstance(den, ast.Call) and ast.unparse(den.func) == 'np.squeeze':
                den = den.args[0]
            if not (isinstance(den, ast.Call) and ast.unparse(den.func) == 'jacobi_seq' and len(den.args) == 4
                    and ast.unparse(den.args[0]) == 'ns' and ast.unparse(den.args[3]).startswith('np.ones(')):
                raise Untranslatable(f'{name}: normaliser is not jacobi_seq(ns, a, b, ones)')
            tr = PTr({'ns': '(Num.ofInt n)'})
            a, b = tr.expr(seq.args[1]), tr.expr(seq.args[2])
            a1, b1 = tr.expr(den.args[1]), tr.expr(den.args[2])
            num = tr.expr(cs.left)
            return (f'/-- `{name}`: `(a, b)` of the mode stack, `(a1, b1)` of the normaliser (evaluated at 1), numerator for order `n` -/\n'
                    f'def {lname}Params (n : Int) : K × K × K × K × K := ({a}, {b}, {a1}, {b1}, {num})\n'
                    f'/-- shape of the array that multiplies the `(N, *x.shape)` stack in `{name}` (`rank = x.ndim`) -/\n'
                    f'def {lname}CsShape (N rank : Nat) : List Nat := {shape_lean(factor)}')
        return name, lname, build
    fall = {1: ('mhalf', 'mhalf', 'Num.ofInt 1'), 2: ('half', 'half', 'Num.ofInt n + Num.ofInt 1'),
            3: ('mhalf', 'half', 'Num.ofInt 1'), 4: ('half', 'mhalf', 'Num.ofInt 2 * Num.ofInt n + Num.ofInt 1')}
    for kind in (1, 2, 3, 4):
        for der in (False, True):
            name, lname, build = cheby(kind, der)
            a, b, num = fall[kind]
            g.item(name, f'prysm/polynomials/cheby.py:{name}', (lambda name=name: get_def(che, name)), build,
                   f'def {lname}Params (n : Int) : K × K × K × K × K := ({M7}.{a}, {M7}.{b}, {M7}.{a}, {M7}.{b}, {num})\n'
                   f'def {lname}CsShape (N rank : Nat) : List Nat := {M}.goodCsShape N rank')

    # ---- xy_seq: family of the monomial tables and how a term is assembled
    def xyseq():
        fn = get_def_inlined(xyf, 'xy_seq')
        xs, ys = find_assign(fn, 'x_seq'), find_assign(fn, 'y_seq')
        ms, ns = find_assign(fn, 'ms'), find_assign(fn, 'ns')
        if ast.unparse(ms) != 'truenp.arange(0, maxm + 1)' or ast.unparse(ns) != 'truenp.arange(0, maxn + 1)':
            raise Untranslatable('xy_seq tables are not built for orders 0..max')

        def table(e, orders, coord):
            if isinstance(e, ast.Call) and ast.unparse(e.func) == 'list' and len(e.args) == 1:
                e = e.args[0]
            if not (isinstance(e, ast.Call) and len(e.args) == 3 and ast.unparse(e.args[0]) == orders
                    and ast.unparse(e.args[2]) == coord):
                raise Untranslatable(f'xy_seq table {ast.unparse(e)[:50]}')
            f = ast.unparse(e.func)
            fam = {'dickson1_seq': f'{M}.seqEntry1', 'dickson2_seq': f'{M}.seqEntry2'}.get(f)
            if fam is None:
                raise Untranslatable(f'xy_seq takes its monomials from {f}')
            return fam, PTr({}).expr(e.args[1])
        fx, ax = table(xs, 'ms', 'x')
        fy, ay = table(ys, 'ns', 'y')
        loops = [s for s in fn.body if isinstance(s, ast.For)]
        if len(loops) != 1 or ast.unparse(loops[0].target) != '(m, n)' or ast.unparse(loops[0].iter) != 'mns':
            raise Untranslatable('xy_seq does not loop `for m, n in mns`')
        body = [ast.unparse(s) for s in loops[0].body]
        if body != ['xterm = x_seq[m]', 'yterm = y_seq[n]', 'out.append(xterm * yterm)']:
            raise Untranslatable(f'xy_seq loop body {body}')
        return (f'/-- term `(m, n)` of `xy_seq`: entry `m` of the x table times entry `n` of the y table; the tables are\n'
                f'    `dickson<k>_seq(arange(0, max+1), <a>, coord)`; `seqEntry<k> j a c` is entry `j` of that table, i.e. (by the C08\n'
                f'    theorems `gen_dickson<k>Seq`) the single-order `dickson<k>(j, a, c)` -/\n'
                f'def xySeqTerm (m n : Int) (x y : K) : K := ({fx} m {ax} x) * ({fy} n {ay} y)')
    g.item('xy_seq', 'prysm/polynomials/xy.py:xy_seq', lambda: get_def(xyf, 'xy_seq'), xyseq,
           f'def xySeqTerm (m n : Int) (x y : K) : K := {M7}.xy m.toNat n.toNat x y')

    # ---- zernike_nm_seq: table arguments and look-up index
    def zseq():
        fn = get_def_inlined(zer, 'zernike_nm_seq')
        x = find_assign(fn, 'x')
        calls = find_calls(fn, 'jacobi_seq')
        if len(calls) != 1:
            raise Untranslatable('zernike_nm_seq does not call jacobi_seq once')
        c = calls[0]
        if ast.unparse(c.args[0]) != 'n_jac' or ast.unparse(c.args[3]) != 'x':
            raise Untranslatable('zernike_nm_seq table is not jacobi_seq(n_jac, a, b, x)')
        # final loop: nj = (n - absm)//2 ; jac = jacobi_seqs[absm][nj]
        lp, _, _ = _pair_loop(fn)
        absm = find_assign(lp, 'absm')
        nj = find_assign(lp, 'nj')
        jac = find_assign(lp, 'jac', which=0)
        if ast.unparse(absm) != 'abs(m)' or ast.unparse(jac) != 'jacobi_seqs[absm][nj]':
            raise Untranslatable('zernike_nm_seq look-up is not jacobi_seqs[abs(m)][nj]')
        itr = Tr({'n': 'n', 'absm': '(Int.natAbs m : Int)'}, 'int')
        ktr = PTr({'r': 'r', 'k': '(Num.ofInt (Int.natAbs m : Int))'})
        return (f'def zernikeSeqX (r : K) : K := {ktr.expr(x)}\n'
                f'def zernikeSeqNj (n m : Int) : Int := {itr.expr(nj)}\n'
                f'def zernikeSeqAB (m : Int) : K × K := ({ktr.expr(c.args[1])}, {ktr.expr(c.args[2])})')
    g.item('zernike_nm_seq.table', 'prysm/polynomials/zernike.py:zernike_nm_seq', lambda: get_def(zer, 'zernike_nm_seq'), zseq,
           'def zernikeSeqX (r : K) : K := Num.ofInt 2 * Num.npow r 2 - Num.ofInt 1\n'
           'def zernikeSeqNj (n m : Int) : Int := (n - (Int.natAbs m : Int)) / 2\n'
           'def zernikeSeqAB (m : Int) : K × K := (Num.ofInt 0, Num.ofInt (Int.natAbs m : Int))')

    def zmode():
        """the body of the final `for n, m in nms` loop of zernike_nm_seq, as a function of one requested pair.  Look-ups in the
        dictionaries filled by `for m in amu: D[m] = <expr(m)>` are replaced by `<expr(key)>`; `jacobi_seqs[key][idx]` becomes
        `tbl key idx`; `out[k] = v; k += 1` becomes the returned value."""
        fn = get_def_inlined(zer, 'zernike_nm_seq')
        lp, nvar, mvar = _pair_loop(fn)
        fills = {}
        for st in fn.body:
            if isinstance(st, ast.For) and isinstance(st.target, ast.Name) and ast.unparse(st.iter) == 'amu':
                for q in st.body:
                    if not (isinstance(q, ast.Assign) and isinstance(q.targets[0], ast.Subscript)
                            and isinstance(q.targets[0].value, ast.Name) and ast.unparse(q.targets[0].slice) == st.target.id):
                        raise Untranslatable(f'table fill {ast.unparse(q)[:50]}')
                    fills[q.targets[0].value.id] = (st.target.id, q.value)
        tables = {c.func and ast.unparse(t.value) for st in ast.walk(fn) if isinstance(st, ast.Assign)
                  for t in st.targets if isinstance(t, ast.Subscript) and isinstance(t.value, ast.Name)
                  for c in [st.value] if 'jacobi_seq(' in ast.unparse(st.value)}
        if len(tables) != 1:
            raise Untranslatable('could not identify the dictionary of Jacobi tables')
        (jtab,) = tables

        class ZTr(PTr):
            def clone(self, env=None, ints=None):
                z = ZTr(self.env if env is None else env, self.ints if ints is None else ints, self.funcs,
                        self.intfuncs, self.sqrt, self.mixed, self.unary, self.bools)
                return z

            def expr(self, e):
                if isinstance(e, ast.Subscript):
                    if isinstance(e.value, ast.Name) and e.value.id in fills:
                        keyvar, val = fills[e.value.id]
                        sub = self.clone(ints=set(self.ints) | {keyvar})
                        key = self.int_expr(e.slice)
                        return f'(let {keyvar} : Int := {key}; {sub.expr(val)})'
                    if isinstance(e.value, ast.Subscript) and isinstance(e.value.value, ast.Name) and e.value.value.id == jtab:
                        return f'(tbl {self.int_expr(e.value.slice)} {self.int_expr(e.slice)})'
                return super().expr(e)
        # rewrite `out[k] = v` -> `res = v`, drop `k += 1`, return res
        import copy
        body = copy.deepcopy(lp.body)

        class Rw(ast.NodeTransformer):
            def visit_Assign(self, node):
                if isinstance(node.targets[0], ast.Subscript) and ast.unparse(node.targets[0].value) == 'out':
                    return ast.Assign(targets=[ast.Name(id='res', ctx=ast.Store())], value=node.value, lineno=0)
                return node

            def visit_AugAssign(self, node):
                if isinstance(node.target, ast.Name) and isinstance(node.value, ast.Constant) and node.value.value == 1:
                    return None
                return node
        body = [Rw().visit(st) for st in body]
        body = [st for st in body if st is not None] + [ast.Return(value=ast.Name(id='res', ctx=ast.Load()))]
        tr = ZTr({'r': 'r', 't': 't'}, ints=[nvar, mvar], mixed={'zernike_norm': ('Generated.C07.zernikeNorm sqrt', 'ii')},
                 unary={'np.sin': 'sinf', 'np.cos': 'cosf'}, bools=['norm'])
        bd = Body(tr, fname='zernikeSeqMode')
        term = bd.run([ast.fix_missing_locations(st) for st in body], tr)
        return (f'/-- one requested `(n, m)` of `zernike_nm_seq`: the value written to its row; `tbl k j` is entry `j` of the Jacobi table of `|m| = k` -/\n'
                f'def zernikeSeqMode (sinf cosf sqrt : K → K) (tbl : Int → Int → K) ({nvar} {mvar} : Int) (r t : K) (norm : Bool) : K :=\n  {term}')
    g.item('zernike_nm_seq.mode', 'prysm/polynomials/zernike.py:zernike_nm_seq', lambda: get_def(zer, 'zernike_nm_seq'), zmode,
           'def zernikeSeqMode (sinf cosf sqrt : K → K) (tbl : Int → Int → K) (n m : Int) (r t : K) (norm : Bool) : K :=\n'
           '  let J := tbl (Int.natAbs m) ((n - Int.natAbs m) / 2)\n'
           '  let σ := if norm = true then Generated.C07.zernikeNorm sqrt n m else Num.ofInt 1\n'
           '  if m = 0 then J * σ else J * σ * (if m < 0 then sinf (Num.ofInt (Int.natAbs m) * t) else cosf (Num.ofInt (Int.natAbs m) * t))\n'
           '    * Num.npow r (Int.natAbs m)')

    # ---- dtype of the rows: every value *_seq allocates `out = np.empty((len(..), *coord.shape), dtype=<d>)`
    jac0, _ = load(repo, 'prysm/polynomials/jacobi.py')
    her0, _ = load(repo, 'prysm/polynomials/hermite.py')
    lag0, _ = load(repo, 'prysm/polynomials/laguerre.py')
    dic0, _ = load(repo, 'prysm/polynomials/dickson.py')
    qp0, _ = load(repo, 'prysm/polynomials/qpoly.py')
    leg0, _ = load(repo, 'prysm/polynomials/legendre.py')
    for (mod, rel, py, lean, lst, coord) in [
            (jac0, 'jacobi.py', 'jacobi_seq', 'jacobiSeq', 'ns', 'x'), (her0, 'hermite.py', 'hermite_He_seq', 'hermiteHeSeq', 'ns', 'x'),
            (her0, 'hermite.py', 'hermite_H_seq', 'hermiteHSeq', 'ns', 'x'), (lag0, 'laguerre.py', 'laguerre_seq', 'laguerreSeq', 'ns', 'x'),
            (dic0, 'dickson.py', 'dickson1_seq', 'dickson1Seq', 'ns', 'x'), (dic0, 'dickson.py', 'dickson2_seq', 'dickson2Seq', 'ns', 'x'),
            (qp0, 'qpoly.py', 'Qbfs_seq', 'qbfsSeq', 'ns', 'x'), (qp0, 'qpoly.py', 'Q2d_seq', 'q2dSeq', 'nms', 'x'),
            (zer, 'zernike.py', 'zernike_nm_seq', 'zernikeNmSeq', 'nms', 'r')]:
        def build(mod=mod, py=py, lean=lean, lst=lst, coord=coord):
            fn = get_def_inlined(mod, py)
            kinds = [alloc_kind(v, lst, coord) for v in find_assigns(fn, 'out')]
            kinds = [k for k in kinds if k is not None]
            if len(kinds) != 1:
                raise Untranslatable(f'{py}: expected one allocation of out, found {len(kinds)}')
            body = 'k' if kinds[0] == 'same' else f'{M}.DKind.withFloat k'
            return (f'/-- kind of the dtype of the rows of `{py}` as a function of the kind of the coordinate dtype -/\n'
                    f'def {lean}OutKind (k : {M}.DKind) : {M}.DKind := {body}')
        g.item(f'{py}.dtype', f'prysm/polynomials/{rel}:{py}', (lambda mod=mod, py=py: get_def(mod, py)), build,
               f'def {lean}OutKind (k : {M}.DKind) : {M}.DKind := {M}.DKind.withFloat k')

    # ---- one-line wrappers: legendre_seq, Qcon_seq (which sweep, which parameters, which argument, which factor)
    def legseq():
        fn = get_def_inlined(leg0, 'legendre_seq')
        (ret,) = find_returns(fn)
        if not (isinstance(ret, ast.Call) and ast.unparse(ret.func) == 'jacobi_seq' and len(ret.args) == 4
                and ast.unparse(ret.args[0]) == 'ns' and ast.unparse(ret.args[3]) == 'x'
                and len([st for st in fn.body if not isinstance(st, ast.Expr)]) == 1):
            raise Untranslatable('legendre_seq is not `return jacobi_seq(ns, a, b, x)`')
        tr = PTr({})
        return (f'/-- `legendre_seq(ns, x) = jacobi_seq(ns, a, b, x)` : `(a, b)` -/\n'
                f'def legendreSeqParams : K × K := ({tr.expr(ret.args[1])}, {tr.expr(ret.args[2])})')
    g.item('legendre_seq', 'prysm/polynomials/legendre.py:legendre_seq', lambda: get_def(leg0, 'legendre_seq'), legseq,
           'def legendreSeqParams : K × K := (Num.ofInt 0, Num.ofInt 0)')

    def qconseq():
        fn = get_def_inlined(qp0, 'Qcon_seq')
        calls = find_calls(fn, 'jacobi_seq')
        if len(calls) != 1 or ast.unparse(calls[0].args[0]) != 'ns':
            raise Untranslatable('Qcon_seq does not call jacobi_seq(ns, …) once')
        c = calls[0]
        stm = [st for st in fn.body if not (isinstance(st, ast.Expr) and isinstance(st.value, ast.Constant))]
        tr = PTr({'x': 'x'})
        bd = Body(tr)
        lets = []
        k = 0
        pns = None
        while k < len(stm) and not isinstance(stm[k], ast.Return):
            if isinstance(stm[k], ast.Assign) and stm[k].value is c:
                pns = stm[k].targets[0].id
                arg = tr.expr(c.args[3])
                ab = (tr.expr(c.args[1]), tr.expr(c.args[2]))
                tr = tr.clone({**tr.env, pns: 'P'})
            else:
                ls, tr = bd.lets_for_assign(stm[k], tr)
                lets += ls
            k += 1
        if pns is None or k != len(stm) - 1:
            raise Untranslatable('Qcon_seq shape')
        pre = '\n  '.join(lets)
        return (f'/-- `Qcon_seq`: argument handed to `jacobi_seq`, its `(a, b)`, and what is done with a row `P` of the result -/\n'
                f'def qconSeqX (x : K) : K :=\n  {pre}\n  {arg}\n'
                f'def qconSeqAB : K × K := ({ab[0]}, {ab[1]})\n'
                f'def qconSeqOut (P x : K) : K :=\n  {pre}\n  {tr.expr(stm[k].value)}')
    g.item('Qcon_seq', 'prysm/polynomials/qpoly.py:Qcon_seq', lambda: get_def(qp0, 'Qcon_seq'), qconseq,
           'def qconSeqX (x : K) : K := Num.ofInt 2 * Num.npow x 2 - Num.ofInt 1\n'
           'def qconSeqAB : K × K := (Num.ofInt 0, Num.ofInt 4)\n'
           'def qconSeqOut (P x : K) : K := P * Num.npow x 4')

    # ---- the scalar twins of the Hermite derivative sweeps (so that the seq theorems are stated over translated scalar functions)
    for (py, lean, callee) in (('hermite_He_der', 'hermiteHeDer', 'hermite_He'), ('hermite_H_der', 'hermiteHDer', 'hermite_H')):
        def build(py=py, lean=lean, callee=callee):
            gen = {'hermite_He': 'Generated.C07.hermiteHe', 'hermite_H': 'Generated.C07.hermiteH'}
            return translate_fn(get_def_inlined(her0, py), lean, ['n'], ['x'], tr_kwargs={'mixed': {callee: (gen[callee], 'ik')}})
        g.item(py, f'prysm/polynomials/hermite.py:{py}', (lambda py=py: get_def(her0, py)), build,
               f'def {lean} (n : Int) (x : K) : K := if n = 0 then Num.ofInt 0 else '
               + ('Num.ofInt n' if py == 'hermite_He_der' else 'Num.ofInt (2 * n)') + f' * {M7}.{"hermiteHe" if py == "hermite_He_der" else "hermiteH"} (n - 1).toNat x')

    # ---- no module-level mutable cache reachable from a *_seq routine whose key omits the dtype of the coordinates
    def no_dtype_blind_cache():
        """True: no *_seq routine (nor a module-local helper it calls, transitively) writes to a module-level container, a mutable
        default argument or a function attribute;
        False: one does, and the stored value depends (through any chain of local assignments) on a parameter that the key either
        does not mention at all or mentions only through attributes other than `.dtype` (x.ndim, x.shape, len(x), ...) -- the cache
        is blind to the dtype (or to the value) of that parameter;
        None: a cache whose handling this reader does not understand (`global`, a key / value it cannot read)."""
        verdict = True
        for rel in ('jacobi', 'cheby', 'legendre', 'hermite', 'laguerre', 'dickson', 'zernike', 'qpoly', 'xy'):
            mod, _ = load(repo, f'prysm/polynomials/{rel}.py')

            def is_container(v):
                return isinstance(v, (ast.Dict, ast.List, ast.Set, ast.DictComp, ast.ListComp, ast.SetComp)) or \
                    isinstance(v, ast.Call) and ast.unparse(v.func).split('.')[-1] in (
                        'dict', 'list', 'set', 'defaultdict', 'OrderedDict', 'WeakValueDictionary', 'deque')
            mutable = set()
            for st in mod.body:
                if isinstance(st, (ast.Assign, ast.AnnAssign)) and st.value is not None and is_container(st.value):
                    tg = st.targets if isinstance(st, ast.Assign) else [st.target]
                    mutable |= {t.id for t in tg if isinstance(t, ast.Name)}
            funcs = {f.name: f for f in mod.body if isinstance(f, ast.FunctionDef)}
            # every function of the module: the *_seq routines, the single-order functions, and whatever they call
            reach, todo = set(), list(funcs)
            while todo:
                nm = todo.pop()
                if nm in reach:
                    continue
                reach.add(nm)
                for c in ast.walk(funcs[nm]):
                    if isinstance(c, ast.Call) and isinstance(c.func, ast.Name) and c.func.id in funcs:
                        todo.append(c.func.id)
            for nm in reach:
                fn = funcs[nm]
                # a memoised function (functools.lru_cache / cache) is keyed by its arguments only: it must not read other state
                if any('cache' in ast.unparse(d) for d in fn.decorator_list) and \
                        any(isinstance(q, ast.Attribute) and isinstance(q.value, ast.Name) and q.value.id == 'config' for q in ast.walk(fn)):
                    verdict = False
                allargs = fn.args.posonlyargs + fn.args.args + fn.args.kwonlyargs
                defaults = dict(zip([a.arg for a in (fn.args.posonlyargs + fn.args.args)][::-1], fn.args.defaults[::-1]))
                defaults.update({a.arg: d for a, d in zip(fn.args.kwonlyargs, fn.args.kw_defaults) if d is not None})
                local_mut = {a for a, d in defaults.items() if is_container(d)}          # def f(..., _cache={})
                params = {a.arg for a in allargs} - local_mut
                # which parameters does each local name depend on (fixpoint over the assignments of the function)
                dep = {q: {q} for q in params}
                changed = True
                while changed:
                    changed = False
                    for a in ast.walk(fn):
                        tg, val = [], None
                        if isinstance(a, ast.Assign):
                            tg, val = a.targets, a.value
                        elif isinstance(a, (ast.AugAssign, ast.AnnAssign)) and a.value is not None:
                            tg, val = [a.target], a.value
                        elif isinstance(a, (ast.For, ast.comprehension)):
                            tg, val = [a.target], a.iter
                        elif isinstance(a, ast.NamedExpr):
                            tg, val = [a.target], a.value
                        if val is None:
                            continue
                        src = set()
                        for q in ast.walk(val):
                            if isinstance(q, ast.Name):
                                src |= dep.get(q.id, set())
                        for t in tg:
                            for q in ast.walk(t):
                                if isinstance(q, ast.Name) and not src <= dep.get(q.id, set()):
                                    dep[q.id] = dep.get(q.id, set()) | src
                                    changed = True

                def mentions(e, depth=0):
                    """-> (parameters mentioned whole, parameters mentioned through .dtype, parameters mentioned through another
                    attribute or len()); local names are resolved through the assignments that define them"""
                    whole, dty, other = set(), set(), set()
                    via = {}
                    for q in ast.walk(e):
                        if isinstance(q, ast.Attribute) and isinstance(q.value, ast.Name):
                            via.setdefault(id(q.value), q.attr)
                        if isinstance(q, ast.Call) and isinstance(q.func, ast.Name) and q.func.id == 'len':
                            for r in q.args:
                                if isinstance(r, ast.Name):
                                    via.setdefault(id(r), 'len')
                    for q in ast.walk(e):
                        if not isinstance(q, ast.Name):
                            continue
                        if q.id in params:
                            a = via.get(id(q))
                            (whole if a is None else dty if a == 'dtype' else other).add(q.id)
                        elif q.id in dep and depth < 6:
                            for a in ast.walk(fn):
                                if isinstance(a, ast.Assign) and any(isinstance(t, ast.Name) and t.id == q.id for t in a.targets):
                                    w, d, o = mentions(a.value, depth + 1)
                                    whole |= w
                                    dty |= d
                                    other |= o
                    return whole, dty, other

                for n in ast.walk(fn):
                    if isinstance(n, ast.Global):
                        return None
                    store = None

                    def is_cache(v):
                        return (isinstance(v, ast.Name) and (v.id in mutable or v.id in local_mut)) or \
                            (isinstance(v, ast.Attribute) and isinstance(v.value, ast.Name) and v.value.id in funcs)     # f.cache[...]
                    if isinstance(n, ast.Assign):
                        for t in n.targets:
                            if isinstance(t, ast.Subscript) and is_cache(t.value):
                                store = (t.slice, n.value)
                    if isinstance(n, ast.Call) and isinstance(n.func, ast.Attribute) and is_cache(n.func.value) \
                            and n.func.attr in ('setdefault', 'update', 'append', '__setitem__', 'add', 'insert', 'extend'):
                        store = (n.args[0] if n.args else None, n.args[-1] if n.args else None)
                        if n.func.attr in ('append', 'add', 'extend', 'update') and len(n.args) == 1:
                            store = (n.args[0], n.args[0])
                    if store is None:
                        continue
                    key, val = store
                    if key is None or val is None:
                        return None
                    vdep = set()
                    for q in ast.walk(val):
                        if isinstance(q, ast.Name):
                            vdep |= dep.get(q.id, set())
                    whole, dty, other = mentions(key)
                    for q in vdep:
                        if q in whole or q in dty:
                            continue
                        verdict = False           # the value depends on q; the key ignores q, or sees only its ndim / shape / length
        return verdict
    g.fact('seqRoutinesHaveNoDtypeBlindCache', 'prysm/polynomials/*.py', no_dtype_blind_cache)

    # ---- no routine of the polynomial modules writes into one of its arguments (orders, coordinates, parameters)
    def arguments_untouched():
        """True iff no function of prysm/polynomials/*.py applies an in-place operation -- augmented assignment, item / slice / attribute
        store, a mutating method (sort, fill, append, ...), a ufunc `out=` -- to one of its parameters or to a name that may alias one
        (`y = p`, `y = np.asarray(p)`, a view `p[...]`, `p.reshape(..)`, `p.T`, ...).  Parameters documented as output buffers
        (`alphas`, `out`) are exempt.  An augmented assignment to a bare name is flagged only when the name may hold an array / list
        (it has been bound through np.asarray-like calls, or is indexed / iterated / passed to len() in the function): `n += 1` on an
        integer parameter rebinds a local name and touches nothing the caller owns."""
        import glob
        import os
        ALIAS_CALLS = {'np.asarray', 'np.asanyarray', 'np.atleast_1d', 'np.atleast_2d', 'np.ascontiguousarray', 'np.ravel', 'np.squeeze', 'np.reshape',
                       'np.transpose', 'np.broadcast_to', 'truenp.asarray', 'truenp.asanyarray'}
        VIEWS = {'reshape', 'ravel', 'view', 'squeeze', 'transpose', 'swapaxes'}
        MUT = {'sort', 'fill', 'resize', 'put', 'itemset', 'partition', 'append', 'extend', 'pop', 'remove', 'insert', 'clear', 'reverse', 'update',
               'setdefault', 'setflags', 'byteswap', 'popitem', 'add', 'discard'}
        ok = True
        for path in sorted(glob.glob(os.path.join(repo, 'prysm', 'polynomials', '*.py'))):
            mod = ast.parse(open(path).read())
            for fn in [f for f in ast.walk(mod) if isinstance(f, ast.FunctionDef)]:
                params = {a.arg for a in fn.args.args + fn.args.kwonlyargs + fn.args.posonlyargs} - {'alphas', 'out'}
                alias = set(params)
                container = set()        # names that may hold an array / sequence
                for _ in range(5):
                    for n in ast.walk(fn):
                        if isinstance(n, ast.Assign) and len(n.targets) == 1 and isinstance(n.targets[0], ast.Name):
                            v, src, arr = n.value, None, False
                            if isinstance(v, ast.Name):
                                src = v.id
                            elif isinstance(v, ast.Call) and ast.unparse(v.func) in ALIAS_CALLS and v.args and isinstance(v.args[0], ast.Name):
                                src, arr = v.args[0].id, True
                            elif isinstance(v, ast.Call) and isinstance(v.func, ast.Attribute) and v.func.attr in VIEWS and isinstance(v.func.value, ast.Name):
                                src, arr = v.func.value.id, True
                            elif isinstance(v, ast.Subscript) and isinstance(v.value, ast.Name) and isinstance(v.slice, (ast.Slice, ast.Tuple)):
                                src, arr = v.value.id, True
                            elif isinstance(v, ast.Attribute) and v.attr in ('T', 'real', 'imag', 'flat') and isinstance(v.value, ast.Name):
                                src, arr = v.value.id, True
                            if src in alias:
                                alias.add(n.targets[0].id)
                                if arr or src in container:
                                    container.add(n.targets[0].id)
                for n in ast.walk(fn):
                    if isinstance(n, ast.Subscript) and isinstance(n.value, ast.Name):
                        container.add(n.value.id)
                    if isinstance(n, (ast.For, ast.comprehension)) and isinstance(n.iter, ast.Name):
                        container.add(n.iter.id)
                    if isinstance(n, ast.Call) and ast.unparse(n.func) == 'len' and n.args and isinstance(n.args[0], ast.Name):
                        container.add(n.args[0].id)
                    if isinstance(n, ast.Attribute) and n.attr in ('shape', 'ndim', 'dtype', 'size') and isinstance(n.value, ast.Name):
                        container.add(n.value.id)

                def root(e):
                    while isinstance(e, (ast.Subscript, ast.Attribute)):
                        e = e.value
                    return e.id if isinstance(e, ast.Name) else None
                for n in ast.walk(fn):
                    if isinstance(n, ast.AugAssign):
                        r = root(n.target)
                        if r in alias and (not isinstance(n.target, ast.Name) or r in container):
                            ok = False
                    if isinstance(n, ast.Assign):
                        for t in n.targets:
                            for el in (t.elts if isinstance(t, (ast.Tuple, ast.List)) else [t]):
                                if isinstance(el, (ast.Subscript, ast.Attribute)) and root(el) in alias:
                                    ok = False
                    if isinstance(n, ast.Call):
                        if isinstance(n.func, ast.Attribute) and n.func.attr in MUT and root(n.func.value) in alias:
                            ok = False
                        for kw in n.keywords:
                            if kw.arg == 'out' and any(isinstance(q, ast.Name) and q.id in alias for q in ast.walk(kw.value)):
                                ok = False
                    if isinstance(n, ast.Delete) and any(isinstance(t, ast.Subscript) and root(t) in alias for t in n.targets):
                        ok = False
        return ok
    g.fact('polynomialRoutinesLeaveArgumentsUntouched', 'prysm/polynomials/*.py', arguments_untouched)

    # ---- the `*_seq` sweeps, statement by statement
    jac, _ = load(repo, 'prysm/polynomials/jacobi.py')
    her, _ = load(repo, 'prysm/polynomials/hermite.py')
    lag, _ = load(repo, 'prysm/polynomials/laguerre.py')
    dic, _ = load(repo, 'prysm/polynomials/dickson.py')
    qp8, _ = load(repo, 'prysm/polynomials/qpoly.py')
    for (mod, rel, py, lean, ks, tf, xb, rec) in [
            (jac, 'jacobi.py', 'jacobi_seq', 'jacobiSeq', ['alpha', 'beta', 'x'], {'recurrence_abc': ('Generated.C07.abc', 3)},
             '[DecidableEq K] ', f'{M}.jacobiRec alpha beta x'),
            (her, 'hermite.py', 'hermite_He_seq', 'hermiteHeSeq', ['x'], None, '', f'{M}.heRec x'),
            (her, 'hermite.py', 'hermite_H_seq', 'hermiteHSeq', ['x'], None, '', f'{M}.hRec x'),
            (her, 'hermite.py', 'hermite_He_der_seq', 'hermiteHeDerSeq', ['x'], None, '', f'{M}.heDerRec x'),
            (her, 'hermite.py', 'hermite_H_der_seq', 'hermiteHDerSeq', ['x'], None, '', f'{M}.hDerRec x'),
            (lag, 'laguerre.py', 'laguerre_seq', 'laguerreSeq', ['alpha', 'x'], None, '', f'{M}.lagRec alpha x'),
            (dic, 'dickson.py', 'dickson1_seq', 'dickson1Seq', ['alpha', 'x'], None, '', f'{M}.dickRec ({M7}.nat 2) alpha x'),
            (dic, 'dickson.py', 'dickson2_seq', 'dickson2Seq', ['alpha', 'x'], None, '', f'{M}.dickRec ({M7}.nat 1) alpha x'),
            (qp8, 'qpoly.py', 'Qbfs_seq', 'qbfsSeq', ['x'], None, '(sqrt : K → K) ', f'{M}.qbfsRec sqrt x')]:
        def build(mod=mod, py=py, lean=lean, ks=ks, tf=tf, xb=xb):
            kw = None
            if py == 'Qbfs_seq':      # the auxiliary f, g, h are read as the model's functions (their bodies are C07 items), sqrt is a parameter
                kw = {'intfuncs': {'g_qbfs': f'{M7}.qbfsGi sqrt', 'h_qbfs': f'{M7}.qbfsHi sqrt', 'f_qbfs': f'{M7}.qbfsFi sqrt'}, 'sqrt': 'sqrt'}
            return translate_seq(get_def_inlined(mod, py), lean, ks, tuple_funcs=tf, extra_binders=xb, tr_kwargs=kw)
        g.item(py, f'prysm/polynomials/{rel}:{py}', (lambda mod=mod, py=py: get_def(mod, py)), build,
               f'def {lean} {xb}(ns : List Nat) ({" ".join(ks)} : K) : Option (List K) := {M}.sweep ({rec}) ns')

    return g.finish()


if __name__ == '__main__':
    import sys
    text, items = generate(sys.argv[1] if len(sys.argv) > 1 else '/repo')
    print(text)
    for it in items:
        print('--', it)
