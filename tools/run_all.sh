#!/bin/bash
# run every registered check at the given tier (default quick); summary table
tier=${1:-quick}
cd "$(dirname "$0")/.." || exit 2
mkdir -p .work
for pid in $(python3 -c "import json; print(' '.join(c['property_id'] for c in json.load(open('MANIFEST.json'))['checks']))"); do
  s=$(date +%s); ./run $pid $tier > .work/all_$pid.log 2>&1; rc=$?; e=$(date +%s)
  echo "$pid rc=$rc $((e-s))s $(grep -c '^VIOLATION' .work/all_$pid.log) violations; $(grep -c '^KNOWN-FINDING' .work/all_$pid.log) known; $(tail -1 .work/all_$pid.log | cut -c1-150)"
done
