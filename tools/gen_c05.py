"""translator items for C05 (fixed-sampling results depend on the physical field, not its array embedding):
`to_fpm_and_back` executed symbolically with both legs inlined — the Q and shift each leg finally hands to its
transform (after the callee's own division of the shift by ITS output spacing), the shapes it asks for, and that the
mask enters as a plain element-wise product; plus the wiring of Wavefront.to_fpm_and_back / babinet."""
import ast
from pyexpr2lean import Gen, Untranslatable, load, get_def, find_calls
from gen_c03 import SymExec, Tup, scalar_funcs, transform_args, emit_scalar, positional, HEADER, typed

M3 = 'Model.C03'
PARAMS = 's0 s1 M0 M1 dx efl wavelength fpm_dx shift0 shift1'


def generate(repo):
    g = Gen('C05', imports=['PrysmVerif.Num', 'PrysmVerif.Model.C05'], header=HEADER)
    pr, _ = load(repo, 'prysm/propagation.py')
    emit_scalar(g, pr, 'Q_for_sampling', 'qForSampling', 'input_diameter prop_dist wavelength output_dx')

    state = {}

    def run():
        if 'res' in state:
            return state['res']
        fn = get_def(pr, 'to_fpm_and_back')
        ex = SymExec(pr, scalar_funcs(pr, ('Q_for_sampling',)), inline=('focus_fixed_sampling', 'unfocus_fixed_sampling'))
        env = {'wavefunction.shape': Tup(['s0', 's1']), 'fpm.shape': Tup(['M0', 'M1']), 'dx': 'dx', 'efl': 'efl',
               'wavelength': 'wavelength', 'fpm_dx': 'fpm_dx', 'shift': Tup(['shift0', 'shift1'])}
        res = ex.run(fn, env)
        inl = res.get('inlined', [])
        if [nm for nm, _ in inl] != ['focus_fixed_sampling', 'unfocus_fixed_sampling']:
            raise Untranslatable(f'legs are {[nm for nm, _ in inl]}')
        fwd = transform_args(inl[0][1], {'mdft': 'mdft.dft2', 'czt': 'czt.czt2'})
        back = transform_args(inl[1][1], {'mdft': 'mdft.idft2', 'czt': 'czt.iczt2'})
        state['res'] = (res, fwd, back)
        return state['res']

    def legs():
        res, fwd, back = run()
        out = []
        for pre, (q, sh, so, ary) in (('fpmFwd', fwd), ('fpmBack', back)):
            for nm, term in ((f'{pre}Q0', q[0]), (f'{pre}Q1', q[1]), (f'{pre}Shift0', sh[0]), (f'{pre}Shift1', sh[1]),
                             (f'{pre}Samples0', so[0]), (f'{pre}Samples1', so[1])):
                out.append(f'def {nm} ({PARAMS} : K) : K :=\n  {typed(term)}')
        return '\n'.join(out)
    fb = []
    for a, s, Mx in ((0, 's0', 'M0'), (1, 's1', 'M1')):
        fb.append(f'def fpmFwdQ{a} ({PARAMS} : K) : K := {M3}.axisQ {s} dx efl wavelength fpm_dx')
        fb.append(f'def fpmFwdShift{a} ({PARAMS} : K) : K := {M3}.shiftSamples shift{a} fpm_dx')
        fb.append(f'def fpmFwdSamples{a} ({PARAMS} : K) : K := {Mx}')
        fb.append(f'def fpmBackQ{a} ({PARAMS} : K) : K := {M3}.axisQ {Mx} fpm_dx efl wavelength dx')
        fb.append(f'def fpmBackShift{a} ({PARAMS} : K) : K := {M3}.fpmBackShift shift{a} dx fpm_dx')
        fb.append(f'def fpmBackSamples{a} ({PARAMS} : K) : K := {s}')
    g.item('to_fpm_and_back', 'prysm/propagation.py:to_fpm_and_back', lambda: get_def(pr, 'to_fpm_and_back'), legs, '\n'.join(fb))

    def mask_product():
        try:
            res, fwd, back = run()
        except Untranslatable:
            return True      # cannot be analysed: the item above is recorded as untranslatable and the correspondence is widened
        fn = get_def(pr, 'to_fpm_and_back')
        prods = res.get('products', [])
        (c1,) = find_calls(fn, 'focus_fixed_sampling')
        (c2,) = find_calls(fn, 'unfocus_fixed_sampling')
        at_fpm = [st.targets[0].id for st in fn.body if isinstance(st, ast.Assign) and st.value is c1][0]
        if len(prods) != 1:
            return False
        name, text = prods[0]
        ok = text in (f'{at_fpm} * fpm', f'fpm * {at_fpm}')
        # the product (and nothing else) is what travels back, and the result of the return leg is what is returned
        back_in = ast.unparse(c2.args[0])
        ret_ok = all(ast.unparse(r.value).split(',')[0].strip('( ') ==
                     [st.targets[0].id for st in fn.body if isinstance(st, ast.Assign) and st.value is c2][0]
                     for r in ast.walk(fn) if isinstance(r, ast.Return))
        return ok and back_in == name and fwd[3] == 'wavefunction' and ret_ok
    g.fact('fpmMaskIsPlainProduct', 'prysm/propagation.py:to_fpm_and_back', mask_product)

    def wf_wrapper():
        fn = get_def(pr, 'Wavefront.to_fpm_and_back')
        (c,) = find_calls(fn, 'to_fpm_and_back')
        names, args = positional(c, get_def(pr, 'to_fpm_and_back'))
        want = {'wavefunction': 'self.data', 'dx': 'self.dx', 'efl': 'efl', 'wavelength': 'self.wavelength', 'fpm': 'fpm',
                'fpm_dx': 'fpm_dx', 'shift': 'shift', 'method': 'method'}
        return all(ast.unparse(args[k]) == v for k, v in want.items())
    g.fact('wavefrontFpmWrapperPassesThrough', 'prysm/propagation.py:Wavefront.to_fpm_and_back', wf_wrapper)

    def babinet():
        fn = get_def(pr, 'Wavefront.babinet')
        src = [ast.unparse(st) for st in fn.body]
        calls = find_calls(fn, 'self.to_fpm_and_back')
        ok_calls = bool(calls) and all(
            {k.arg: ast.unparse(k.value) for k in c.keywords}.get('fpm') == 'fpm' and
            {k.arg: ast.unparse(k.value) for k in c.keywords}.get('efl') == 'efl' and
            {k.arg: ast.unparse(k.value) for k in c.keywords}.get('fpm_dx') == 'fpm_dx' for c in calls)
        return 'fpm = 1 - fpm' in src and 'field_at_lyot = self.data - field.data' in src and ok_calls
    g.fact('babinetIsFieldMinusReturnOfComplement', 'prysm/propagation.py:Wavefront.babinet', babinet)

    return g.finish()


if __name__ == '__main__':
    import sys
    text, items = generate(sys.argv[1] if len(sys.argv) > 1 else '/repo')
    print(text)
    for it in items:
        print('--', it)
