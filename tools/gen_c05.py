"""translator items for C05 (fixed-sampling results depend on the physical field, not its array embedding):
`to_fpm_and_back` executed symbolically with both legs inlined — the Q and shift each leg finally hands to its
transform (after the callee's own division of the shift by ITS output spacing), the shapes it asks for, and that the
mask enters as a plain element-wise product; plus the wiring of Wavefront.to_fpm_and_back / babinet."""
import ast
from pyexpr2lean import Gen, Untranslatable, load, get_def, find_calls
from gen_c03 import SymExec, Tup, scalar_funcs, transform_args, emit_scalar, positional, HEADER, typed, fact3

M3 = 'Model.C03'
PARAMS = 's0 s1 M0 M1 dx efl wavelength fpm_dx shift0 shift1'


def generate(repo):
    g = Gen('C05', imports=['PrysmVerif.Num', 'PrysmVerif.Model.C05'], header=HEADER)
    pr, _ = load(repo, 'prysm/propagation.py')
    emit_scalar(g, pr, 'Q_for_sampling', 'qForSampling', 'input_diameter prop_dist wavelength output_dx')

    state = {}

    def run():
        if 'res' in state:
            return state['res']
        fn = get_def(pr, 'to_fpm_and_back')
        ex = SymExec(pr, scalar_funcs(pr, ('Q_for_sampling',)), inline=('focus_fixed_sampling', 'unfocus_fixed_sampling'))
        env = {'wavefunction.shape': Tup(['s0', 's1']), 'fpm.shape': Tup(['M0', 'M1']), 'dx': 'dx', 'efl': 'efl',
               'wavelength': 'wavelength', 'fpm_dx': 'fpm_dx', 'shift': Tup(['shift0', 'shift1'])}
        res = ex.run(fn, env)
        inl = res.get('inlined', [])
        if [nm for nm, _ in inl] != ['focus_fixed_sampling', 'unfocus_fixed_sampling']:
            raise Untranslatable(f'legs are {[nm for nm, _ in inl]}')
        fwd = transform_args(inl[0][1], {'mdft': 'mdft.dft2', 'czt': 'czt.czt2'})
        back = transform_args(inl[1][1], {'mdft': 'mdft.idft2', 'czt': 'czt.iczt2'})
        state['res'] = (res, fwd, back)
        return state['res']

    def legs():
        res, fwd, back = run()
        out = []
        for pre, (q, sh, so, ary) in (('fpmFwd', fwd), ('fpmBack', back)):
            for nm, term in ((f'{pre}Q0', q[0]), (f'{pre}Q1', q[1]), (f'{pre}Shift0', sh[0]), (f'{pre}Shift1', sh[1]),
                             (f'{pre}Samples0', so[0]), (f'{pre}Samples1', so[1])):
                out.append(f'def {nm} ({PARAMS} : K) : K :=\n  {typed(term)}')
        return '\n'.join(out)
    fb = []
    for a, s, Mx in ((0, 's0', 'M0'), (1, 's1', 'M1')):
        fb.append(f'def fpmFwdQ{a} ({PARAMS} : K) : K := {M3}.axisQ {s} dx efl wavelength fpm_dx')
        fb.append(f'def fpmFwdShift{a} ({PARAMS} : K) : K := {M3}.shiftSamples shift{a} fpm_dx')
        fb.append(f'def fpmFwdSamples{a} ({PARAMS} : K) : K := {Mx}')
        fb.append(f'def fpmBackQ{a} ({PARAMS} : K) : K := {M3}.axisQ {Mx} fpm_dx efl wavelength dx')
        fb.append(f'def fpmBackShift{a} ({PARAMS} : K) : K := {M3}.fpmBackShift shift{a} dx fpm_dx')
        fb.append(f'def fpmBackSamples{a} ({PARAMS} : K) : K := {s}')
    g.item('to_fpm_and_back', 'prysm/propagation.py:to_fpm_and_back', lambda: get_def(pr, 'to_fpm_and_back'), legs, '\n'.join(fb))

    def mask_product():
        res, fwd, back = run()          # Untranslatable here = not recognised (emitted as true, correspondence widened)
        fn = get_def(pr, 'to_fpm_and_back')
        prods = res.get('products', [])
        c1s, c2s = find_calls(fn, 'focus_fixed_sampling'), find_calls(fn, 'unfocus_fixed_sampling')
        if len(c1s) != 1 or len(c2s) != 1:
            raise Untranslatable('legs not called exactly once')
        c1, c2 = c1s[0], c2s[0]
        at = [st.targets[0].id for st in fn.body if isinstance(st, ast.Assign) and st.value is c1]
        back_name = [st.targets[0].id for st in fn.body if isinstance(st, ast.Assign) and st.value is c2]
        if len(at) != 1 or len(back_name) != 1 or not c2.args or not isinstance(c2.args[0], ast.Name):
            raise Untranslatable('legs are not bound to names')
        travelling = c2.args[0].id
        # what travels back must be bound exactly once; it is right iff that binding is the plain product field * fpm
        binds = [ast.unparse(st.value) for st in fn.body if isinstance(st, ast.Assign) and len(st.targets) == 1
                 and isinstance(st.targets[0], ast.Name) and st.targets[0].id == travelling]
        if len(binds) != 1:
            raise Untranslatable('array sent back is not bound exactly once')
        ok = binds[0] in (f'{at[0]} * fpm', f'fpm * {at[0]}')
        rets = [ast.unparse(r.value) for r in ast.walk(fn) if isinstance(r, ast.Return) and r.value is not None]
        ret_ok = all(r == back_name[0] or r.startswith(f'({back_name[0]},') for r in rets)
        return ok and fwd[3] == 'wavefunction' and ret_ok
    fact3(g, 'fpmMaskIsPlainProduct', 'prysm/propagation.py:to_fpm_and_back', lambda: get_def(pr, 'to_fpm_and_back'), mask_product)

    def wf_wrapper():
        fn = get_def(pr, 'Wavefront.to_fpm_and_back')
        cs = find_calls(fn, 'to_fpm_and_back')
        if len(cs) != 1:
            raise Untranslatable('wrapper does not call to_fpm_and_back exactly once')
        names, args = positional(cs[0], get_def(pr, 'to_fpm_and_back'))
        want = {'wavefunction': 'self.data', 'dx': 'self.dx', 'efl': 'efl', 'wavelength': 'self.wavelength', 'fpm': 'fpm',
                'fpm_dx': 'fpm_dx', 'shift': 'shift', 'method': 'method'}
        return all(args.get(k) is not None and ast.unparse(args[k]) == v for k, v in want.items())
    fact3(g, 'wavefrontFpmWrapperPassesThrough', 'prysm/propagation.py:Wavefront.to_fpm_and_back',
          lambda: get_def(pr, 'Wavefront.to_fpm_and_back'), wf_wrapper)

    def babinet():
        fn = get_def(pr, 'Wavefront.babinet')
        calls = find_calls(fn, 'self.to_fpm_and_back')
        if not calls:
            raise Untranslatable('babinet does not call self.to_fpm_and_back')
        ok = True
        field_names = set()
        for st in ast.walk(fn):
            if isinstance(st, ast.Assign) and st.value in calls:
                t = st.targets[0]
                field_names.add(t.id if isinstance(t, ast.Name) else t.elts[0].id)
        if len(field_names) != 1:
            raise Untranslatable('result of to_fpm_and_back is not bound to one name')
        field = field_names.pop()
        for c in calls:
            kw = {k.arg: k.value for k in c.keywords}
            m = kw.get('fpm')
            if m is None or not isinstance(m, ast.Name):
                raise Untranslatable('mask argument is not a name')
            # the mask handed down must have been replaced by its complement `1 - mask` beforehand
            comps = [st for st in fn.body if isinstance(st, ast.Assign) and len(st.targets) == 1
                     and isinstance(st.targets[0], ast.Name) and st.targets[0].id == m.id and st.lineno < c.lineno]
            comp_ok = any(isinstance(st.value, ast.BinOp) and isinstance(st.value.op, ast.Sub)
                          and isinstance(st.value.left, ast.Constant) and st.value.left.value == 1
                          and ast.unparse(st.value.right) == 'fpm' for st in comps)
            ok = ok and comp_ok and ast.unparse(kw.get('efl')) == 'efl' and ast.unparse(kw.get('fpm_dx')) == 'fpm_dx'
        # field at the Lyot plane = incoming field minus the returned one
        diffs = [st.value for st in fn.body if isinstance(st, ast.Assign) and isinstance(st.value, ast.BinOp)
                 and {ast.unparse(st.value.left), ast.unparse(st.value.right)} == {'self.data', f'{field}.data'}]
        if len(diffs) != 1:
            raise Untranslatable('no combination of self.data with the returned field')
        d = diffs[0]
        ok = ok and isinstance(d.op, ast.Sub) and ast.unparse(d.left) == 'self.data'
        return ok
    fact3(g, 'babinetIsFieldMinusReturnOfComplement', 'prysm/propagation.py:Wavefront.babinet',
          lambda: get_def(pr, 'Wavefront.babinet'), babinet)

    return g.finish()


if __name__ == '__main__':
    import sys
    text, items = generate(sys.argv[1] if len(sys.argv) > 1 else '/repo')
    print(text)
    for it in items:
        print('--', it)
