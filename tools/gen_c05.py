"""translator items for C05 (fixed-sampling results depend on the physical field, not its array embedding):
`to_fpm_and_back` executed symbolically with both legs inlined — the Q and shift each leg finally hands to its
transform (after the callee's own division of the shift by ITS output spacing), the shapes it asks for, and that the
mask enters as a plain element-wise product; plus the wiring of Wavefront.to_fpm_and_back / babinet."""
import ast
from pyexpr2lean import Gen, Untranslatable, load, get_def, find_calls
from gen_c03 import SymExec, Tup, scalar_funcs, transform_args, emit_scalar, emit_fixed, positional, HEADER, typed, fact3, _strip, no_inplace_on_args

M3 = 'Model.C03'
PARAMS = 's0 s1 M0 M1 dx efl wavelength fpm_dx shift0 shift1'


def returned_field_name(fn, calls):
    """the single local name that holds the field returned by the calls in `calls` (directly, as first element of an unpacked
    tuple, or through one intermediate name: `pak = call(...)`, then `field, a, b = pak` / `field = pak`)"""
    def first(t):
        return t.id if isinstance(t, ast.Name) else (t.elts[0].id if isinstance(t, ast.Tuple) and isinstance(t.elts[0], ast.Name) else None)
    direct = set()
    for st in ast.walk(fn):
        if isinstance(st, ast.Assign) and st.value in calls:
            direct.add(first(st.targets[0]))
    if None in direct or not direct:
        raise Untranslatable('result of to_fpm_and_back is not bound to a name')
    via = set()
    for st in ast.walk(fn):
        if isinstance(st, ast.Assign) and isinstance(st.value, ast.Name) and st.value.id in direct:
            via.add(first(st.targets[0]))
    names = via if via else direct
    if None in names or len(names) != 1:
        raise Untranslatable('result of to_fpm_and_back is not bound to one name')
    return next(iter(names))


def generate(repo):
    g = Gen('C05', imports=['PrysmVerif.Num', 'PrysmVerif.Model.C05'], header=HEADER)
    pr, _ = load(repo, 'prysm/propagation.py')
    ftm, _ = load(repo, 'prysm/fttools.py')
    emit_scalar(g, pr, 'Q_for_sampling', 'qForSampling', 'input_diameter prop_dist wavelength output_dx')
    emit_fixed(g, pr, 'focus_fixed_sampling', 'ffs', {'mdft': 'mdft.dft2', 'czt': 'czt.czt2'})
    emit_fixed(g, pr, 'unfocus_fixed_sampling', 'ufs', {'mdft': 'mdft.idft2', 'czt': 'czt.iczt2'})

    state = {}

    def run(mode='ndarray'):
        if mode in state:
            return state[mode]
        fn = get_def(pr, 'to_fpm_and_back')
        ex = SymExec(pr, scalar_funcs(pr, ('Q_for_sampling',)), inline=('focus_fixed_sampling', 'unfocus_fixed_sampling'))
        env = {'wavefunction.shape': Tup(['s0', 's1']), 'dx': 'dx', 'efl': 'efl',
               'wavelength': 'wavelength', 'shift': Tup(['shift0', 'shift1'])}
        if mode == 'ndarray':
            env.update({'fpm.shape': Tup(['M0', 'M1']), 'fpm_dx': 'fpm_dx'})
        else:       # the mask is a Wavefront: it carries its own shape and sampling, fpm_dx is not given
            env.update({'fpm:is_wavefront': True, 'fpm.data.shape': Tup(['M0', 'M1']), 'fpm.dx': 'fpm_dx'})
        res = ex.run(fn, env)
        inl = res.get('inlined', [])
        if [nm for nm, _ in inl] != ['focus_fixed_sampling', 'unfocus_fixed_sampling']:
            raise Untranslatable(f'legs are {[nm for nm, _ in inl]}')
        fwd = transform_args(inl[0][1], {'mdft': 'mdft.dft2', 'czt': 'czt.czt2'})
        back = transform_args(inl[1][1], {'mdft': 'mdft.idft2', 'czt': 'czt.iczt2'})
        for _, sub in inl:
            if sub.get('return') != '<field>':
                raise Untranslatable('a leg does not return the untouched result of its transform')
        state[mode] = (res, fwd, back)
        return state[mode]

    def legs():
        res, fwd, back = run()
        out = []
        for pre, (q, sh, so, ary) in (('fpmFwd', fwd), ('fpmBack', back)):
            for nm, term in ((f'{pre}Q0', q[0]), (f'{pre}Q1', q[1]), (f'{pre}Shift0', sh[0]), (f'{pre}Shift1', sh[1]),
                             (f'{pre}Samples0', so[0]), (f'{pre}Samples1', so[1])):
                out.append(f'def {nm} ({PARAMS} : K) : K :=\n  {typed(term)}')
        return '\n'.join(out)
    fb = []
    for a, s, Mx in ((0, 's0', 'M0'), (1, 's1', 'M1')):
        fb.append(f'def fpmFwdQ{a} ({PARAMS} : K) : K := {M3}.axisQ {s} dx efl wavelength fpm_dx')
        fb.append(f'def fpmFwdShift{a} ({PARAMS} : K) : K := {M3}.shiftSamples shift{a} fpm_dx')
        fb.append(f'def fpmFwdSamples{a} ({PARAMS} : K) : K := {Mx}')
        fb.append(f'def fpmBackQ{a} ({PARAMS} : K) : K := {M3}.axisQ {Mx} fpm_dx efl wavelength dx')
        fb.append(f'def fpmBackShift{a} ({PARAMS} : K) : K := {M3}.fpmBackShift shift{a} dx fpm_dx')
        fb.append(f'def fpmBackSamples{a} ({PARAMS} : K) : K := {s}')
    g.item('to_fpm_and_back', 'prysm/propagation.py:to_fpm_and_back', lambda: get_def(pr, 'to_fpm_and_back'), legs, '\n'.join(fb))

    def leg_names():
        fn = get_def(pr, 'to_fpm_and_back')
        c1s, c2s = find_calls(fn, 'focus_fixed_sampling'), find_calls(fn, 'unfocus_fixed_sampling')
        if len(c1s) != 1 or len(c2s) != 1:
            raise Untranslatable('legs not called exactly once')
        c1, c2 = c1s[0], c2s[0]
        at = [st.targets[0].id for st in fn.body if isinstance(st, ast.Assign) and st.value is c1]
        back_name = [st.targets[0].id for st in fn.body if isinstance(st, ast.Assign) and st.value is c2]
        if len(at) != 1 or len(back_name) != 1 or not c2.args or not isinstance(c2.args[0], ast.Name):
            raise Untranslatable('legs are not bound to names')
        return fn, at[0], c2.args[0].id, back_name[0]

    def mask_product():
        res, fwd, back = run()          # Untranslatable here = not recognised (emitted as true, correspondence widened)
        fn, at, travelling, back_name = leg_names()
        # what travels back must be bound exactly once; right iff that binding is the plain product field * fpm
        binds = [st.value for st in fn.body if isinstance(st, ast.Assign) and len(st.targets) == 1
                 and isinstance(st.targets[0], ast.Name) and st.targets[0].id == travelling]
        if len(binds) != 1:
            raise Untranslatable('array sent back is not bound exactly once')
        b = binds[0]
        if isinstance(b, ast.Call) and ast.unparse(b.func) in ('np.multiply', 'numpy.multiply') and len(b.args) == 2:
            ops = [b.args[0], b.args[1]]
        elif isinstance(b, ast.BinOp) and isinstance(b.op, ast.Mult):
            ops = [b.left, b.right]
        else:
            raise Untranslatable('array sent back is not a product')
        texts = [ast.unparse(_strip(o)) for o in ops]
        if at not in texts:
            raise Untranslatable('product does not involve the focal field')
        other = ops[1 - texts.index(at)]
        ot = ast.unparse(_strip(other))
        if ot == 'fpm':
            ok = True
        elif 'fpm' in ot and any(w in ot for w in ('conj', 'abs', '**', 'real', 'imag', 'angle')):
            ok = False                  # recognised and wrong: the mask must enter linearly, untouched
        else:
            raise Untranslatable(f'mask factor {ot[:40]} not recognised')
        rets = [ast.unparse(r.value) for r in ast.walk(fn) if isinstance(r, ast.Return) and r.value is not None
                and not isinstance(r.value, ast.Tuple)]
        if any(r != back_name for r in rets):
            return False
        return ok and fwd[3] == 'wavefunction'
    fact3(g, 'fpmMaskIsPlainProduct', 'prysm/propagation.py:to_fpm_and_back', lambda: get_def(pr, 'to_fpm_and_back'), mask_product)

    def return_more_order():
        res, fwd, back = run()
        fn, at, travelling, back_name = leg_names()
        rm = res.get('return_more')
        if rm is None:
            raise Untranslatable('no return_more branch')
        return rm == [back_name, at, travelling]
    fact3(g, 'fpmReturnMoreIsBackAtAfter', 'prysm/propagation.py:to_fpm_and_back', lambda: get_def(pr, 'to_fpm_and_back'),
          return_more_order)

    def wavefront_mask():
        """the `isinstance(fpm, Wavefront)` branch executed symbolically: shape and sampling from the mask object, mask
        unwrapped to its array, and then EXACTLY the leg arguments of the ndarray branch"""
        _, fwd_a, back_a = run('ndarray')
        _, fwd_w, back_w = run('wavefront')
        fn = get_def(pr, 'to_fpm_and_back')
        ifs = [st for st in fn.body if isinstance(st, ast.If) and 'isinstance(fpm, Wavefront)' in ast.unparse(st.test)]
        if len(ifs) != 1:
            raise Untranslatable('no single isinstance(fpm, Wavefront) branch')
        unwrapped = any(isinstance(st, ast.Assign) and ast.unparse(st.targets[0]) == 'fpm' and ast.unparse(st.value) == 'fpm.data'
                        for st in ifs[0].body)
        return unwrapped and fwd_a[:3] == fwd_w[:3] and back_a[:3] == back_w[:3]
    fact3(g, 'fpmWavefrontMaskSameLegs', 'prysm/propagation.py:to_fpm_and_back', lambda: get_def(pr, 'to_fpm_and_back'),
          wavefront_mask)

    def wf_wrapper():
        fn = get_def(pr, 'Wavefront.to_fpm_and_back')
        cs = find_calls(fn, 'to_fpm_and_back')
        if len(cs) != 1:
            raise Untranslatable('wrapper does not call to_fpm_and_back exactly once')
        names, args = positional(cs[0], get_def(pr, 'to_fpm_and_back'))
        want = {'wavefunction': 'self.data', 'dx': 'self.dx', 'efl': 'efl', 'wavelength': 'self.wavelength', 'fpm': 'fpm',
                'fpm_dx': 'fpm_dx', 'shift': 'shift', 'method': 'method', 'return_more': 'return_more'}
        known = set(want.values())
        ok = True
        for k, v in want.items():
            if args.get(k) is None:
                raise Untranslatable(f'argument {k} not passed')
            got = ast.unparse(_strip(args[k]))
            if got == v:
                continue
            if got in known:
                ok = False            # recognised and wrong: another of the wrapper's own quantities is passed
            else:
                raise Untranslatable(f'argument {k} = {got[:30]} not recognised')
        # the containers handed back: the pupil-plane result with the pupil's dx / space, the focal planes with fpm_dx / 'psf'
        init = get_def(pr, 'Wavefront.__init__')
        wcalls = [n for n in ast.walk(fn) if isinstance(n, ast.Call) and ast.unparse(n.func) == 'Wavefront']
        if len(wcalls) != 4:
            raise Untranslatable('expected four Wavefront constructions (result, and three planes with return_more)')
        for w in wcalls:
            _, wa = positional(w, init, skip_self=True)
            name = ast.unparse(wa['cmplx_field'])
            dx_t, sp_t = ast.unparse(_strip(wa['dx'])), ast.unparse(wa['space'])
            if name in ('pak', 'at_next_pupil'):
                exp = ('self.dx', 'self.space')
            elif name in ('at_fpm', 'after_fpm'):
                exp = ('fpm_dx', "'psf'")
            else:
                raise Untranslatable(f'unknown plane {name}')
            if (dx_t, sp_t) == exp:
                continue
            if dx_t in ('self.dx', 'fpm_dx') and sp_t in ('self.space', "'psf'", "'pupil'"):
                ok = False
            else:
                raise Untranslatable('container arguments not recognised')
        return ok
    fact3(g, 'wavefrontFpmWrapperPassesThrough', 'prysm/propagation.py:Wavefront.to_fpm_and_back',
          lambda: get_def(pr, 'Wavefront.to_fpm_and_back'), wf_wrapper)

    def babinet():
        fn = get_def(pr, 'Wavefront.babinet')
        calls = find_calls(fn, 'self.to_fpm_and_back')
        if not calls:
            raise Untranslatable('babinet does not call self.to_fpm_and_back')
        ok = True
        field = returned_field_name(fn, calls)
        for c in calls:
            kw = {k.arg: k.value for k in c.keywords}
            m = kw.get('fpm')
            if m is None or not isinstance(m, ast.Name):
                raise Untranslatable('mask argument is not a name')
            # the mask handed down must have been replaced by its complement `1 - mask` beforehand
            comps = [st for st in fn.body if isinstance(st, ast.Assign) and len(st.targets) == 1
                     and isinstance(st.targets[0], ast.Name) and st.targets[0].id == m.id and st.lineno < c.lineno]
            def is_complement(v):
                if isinstance(v, ast.BinOp) and isinstance(v.op, ast.Sub) and isinstance(v.left, ast.Constant) \
                        and v.left.value == 1 and ast.unparse(_strip(v.right)) == 'fpm':
                    return True
                return isinstance(v, ast.Call) and ast.unparse(v.func) in ('np.subtract', 'numpy.subtract') and len(v.args) == 2 \
                    and isinstance(v.args[0], ast.Constant) and v.args[0].value == 1 and ast.unparse(_strip(v.args[1])) == 'fpm'
            comp_ok = any(is_complement(st.value) for st in comps)
            if comps and not comp_ok and not all(ast.unparse(st.value) in ('fpm.data', 'fpm') for st in comps):
                raise Untranslatable('mask is re-bound by something that is not recognised')
            ok = ok and comp_ok and ast.unparse(kw.get('efl')) == 'efl' and ast.unparse(kw.get('fpm_dx')) == 'fpm_dx'
        # field at the Lyot plane = incoming field minus the returned one
        def sides(v):
            l, r = v.left, v.right
            neg = False
            if isinstance(l, ast.UnaryOp) and isinstance(l.op, ast.USub):      # -field.data + self.data
                l, neg = l.operand, True
            return ast.unparse(l), ast.unparse(r), neg
        diffs = [st.value for st in fn.body if isinstance(st, ast.Assign) and isinstance(st.value, ast.BinOp)
                 and set(sides(st.value)[:2]) == {'self.data', f'{field}.data'}]
        if len(diffs) != 1:
            raise Untranslatable('no combination of self.data with the returned field')
        d = diffs[0]
        l, r, neg = sides(d)
        minus_ok = (isinstance(d.op, ast.Sub) and l == 'self.data' and not neg) or (isinstance(d.op, ast.Add) and neg and r == 'self.data')
        ok = ok and minus_ok
        # the Lyot stop multiplies that difference; a Wavefront stop is unwrapped to its array first
        return ok
    fact3(g, 'babinetIsFieldMinusReturnOfComplement', 'prysm/propagation.py:Wavefront.babinet',
          lambda: get_def(pr, 'Wavefront.babinet'), babinet)


    def babinet_arith():
        """the three pointwise expressions of Wavefront.babinet as ARITHMETIC: the mask handed to to_fpm_and_back, the field at the
        Lyot plane, the field after the stop"""
        from pyexpr2lean import Tr
        fn = get_def(pr, 'Wavefront.babinet')
        calls = find_calls(fn, 'self.to_fpm_and_back')
        if not calls:
            raise Untranslatable('babinet does not call self.to_fpm_and_back')
        field = returned_field_name(fn, calls)
        margs = set()
        for c in calls:
            kw = {k.arg: k.value for k in c.keywords}
            if not isinstance(kw.get('fpm'), ast.Name) or 'shift' in kw:
                raise Untranslatable('mask argument is not a name / a shift is passed')
            margs.add(kw['fpm'].id)
        if len(margs) != 1:
            raise Untranslatable('different masks on the two return_more branches')
        mname = margs.pop()
        top = [st for st in fn.body if isinstance(st, ast.Assign) and len(st.targets) == 1 and isinstance(st.targets[0], ast.Name)]
        first_call_line = min(c.lineno for c in calls)
        mbind = [st for st in top if st.targets[0].id == mname and st.lineno < first_call_line]
        if len(mbind) != 1:
            raise Untranslatable('mask is not re-bound exactly once (at top level) before the call')
        mask_term = Tr({'fpm': 'fpm'}, mode='num').expr(mbind[0].value)
        lbind = [st for st in top if ast.unparse(st.value).count(f'{field}.data') == 1 and 'self.data' in ast.unparse(st.value)]
        if len(lbind) != 1:
            raise Untranslatable('no single combination of self.data with the returned field')
        at_name = lbind[0].targets[0].id
        at_term = Tr({'self.data': 'self_data', f'{field}.data': 'returned'}, mode='num').expr(lbind[0].value)
        ifs = [st for st in fn.body if isinstance(st, ast.If) and ast.unparse(st.test) == 'lyot is not None']
        if len(ifs) != 1 or len(ifs[0].body) != 1 or len(ifs[0].orelse) != 1:
            raise Untranslatable('Lyot-stop branch not recognised')
        a, b = ifs[0].body[0], ifs[0].orelse[0]
        if not (isinstance(a, ast.Assign) and isinstance(b, ast.Assign) and ast.unparse(a.targets[0]) == ast.unparse(b.targets[0])):
            raise Untranslatable('Lyot-stop branch does not bind one name')
        after_name = ast.unparse(a.targets[0])
        tr = Tr({'lyot': 'lyot', at_name: 'at_lyot'}, mode='num')
        after_term, nostop_term = tr.expr(a.value), tr.expr(b.value)
        # the returned Wavefront must hold `after_name`
        rets = [r.value for r in ast.walk(fn) if isinstance(r, ast.Return)]
        wb = [st for st in top if st.targets[0].id == after_name and isinstance(st.value, ast.Call) and ast.unparse(st.value.func) == 'Wavefront']
        if len(wb) != 1 or ast.unparse(wb[0].value.args[0]) != after_name:
            raise Untranslatable('the field after the stop is not wrapped into the returned Wavefront')
        for r in rets:
            first = r.elts[0] if isinstance(r, ast.Tuple) else r
            if ast.unparse(first) != after_name:
                raise Untranslatable('babinet does not return the field after the stop first')
        return (f'def babinetMaskArg (fpm : K) : K :=\n  {typed(mask_term)}\n'
                f'def babinetAtLyot (self_data returned : K) : K :=\n  {typed(at_term)}\n'
                f'def babinetAfterLyot (lyot at_lyot : K) : K :=\n  {typed(after_term)}\n'
                f'def babinetNoStop (lyot at_lyot : K) : K :=\n  {typed(nostop_term)}')
    g.item('Wavefront.babinet.arith', 'prysm/propagation.py:Wavefront.babinet', lambda: get_def(pr, 'Wavefront.babinet'), babinet_arith,
           'def babinetMaskArg (fpm : K) : K := (Num.ofInt (1) : K) - fpm\n'
           'def babinetAtLyot (self_data returned : K) : K := self_data - returned\n'
           'def babinetAfterLyot (lyot at_lyot : K) : K := lyot * at_lyot\n'
           'def babinetNoStop (lyot at_lyot : K) : K := at_lyot')


    # ---- no in-place NumPy operation (augmented assignment, item assignment, `out=`, mutating method) on an object READ FROM
    # AN EXECUTOR CACHE (`self.Eout[key]`, `self.Ein[key]`, `self.components[key]`) or on a view / alias of one, in any entry point
    # that shares the caches with the fixed-sampling routes -- the *_backprop entry points included: such an operation changes
    # what every LATER call with the same sampling key computes
    def cache_fact(cls, meth):
        def check():
            try:
                fn = get_def(ftm, f'{cls}.{meth}')
            except Untranslatable:
                return True               # the entry point does not exist (e.g. no chirp-Z backprop): nothing to corrupt
            return no_inplace_on_args(fn, array_params=(), cache_reads=True)
        return check
    for cls, short, meths in (('MatrixDFTExecutor', 'mdft', ('dft2', 'idft2', 'dft2_backprop', 'idft2_backprop')),
                              ('ChirpZTransformExecutor', 'czt', ('czt2', 'iczt2', 'czt2_backprop', 'iczt2_backprop'))):
        for meth in meths:
            nm = f'{short}{"".join(w.capitalize() for w in meth.split("_"))}NoInPlaceOnCache'
            g.fact(nm, f'prysm/fttools.py:{cls}.{meth}', cache_fact(cls, meth))

    for nm, py in (('fpmNoInPlaceOnArguments', 'to_fpm_and_back'), ('fpmWrapNoInPlaceOnArguments', 'Wavefront.to_fpm_and_back'),
                   ('babinetNoInPlaceOnArguments', 'Wavefront.babinet'), ('ffsNoInPlaceOnArguments', 'focus_fixed_sampling'),
                   ('ufsNoInPlaceOnArguments', 'unfocus_fixed_sampling')):
        g.fact(nm, f'prysm/propagation.py:{py}', (lambda q: (lambda: no_inplace_on_args(get_def(pr, q))))(py))

    return g.finish()


if __name__ == '__main__':
    import sys
    text, items = generate(sys.argv[1] if len(sys.argv) > 1 else '/repo')
    print(text)
    for it in items:
        print('--', it)
